package control

// C10 level (b): the full stack. A DnsController built by NewDnsController from
// the *production* option ((*ControlPlane).dnsControllerOption(), i.e. the
// CacheAccessCallback / CacheDeleteCallback / NewCache closures that call
// controlPlaneCore.BatchUpdateDomainRouting / BatchRemoveDomainRouting), on a
// ControlPlane literal whose core carries a bpfObjects with a nil
// DomainRoutingMap. Histories of cache inserts (the NormalizeAndCacheDnsResp_
// path dialSend uses, and UpdateDnsCacheTtl), refreshes with other address sets,
// reject (RemoveDnsRespCacheFamily), exact removal, lookups (lazy expiry, async
// BPF refresh worker), and virtual time (janitor: expiry and LRU eviction), run
// inside a testing/synctest bubble. Oracle: shadow folded from the observed
// batches == OR over the entries currently in dnsCache.

import (
	"context"
	"fmt"
	"io"
	"net"
	"net/netip"
	"runtime/debug"
	"sort"
	"strings"
	"testing"
	"testing/synctest"
	"time"

	"github.com/cilium/ebpf"
	"github.com/daeuniverse/dae/common/consts"
	"github.com/daeuniverse/dae/component/dns"
	dnsmessage "github.com/miekg/dns"
	"github.com/sirupsen/logrus"
	"pgregory.net/rapid"
)

// c10Matcher stands in for the routing domain matcher: a fixed fqdn→bitmap
// table for the case (the production matcher is a pure function of the name).
type c10Matcher struct{ table map[string]bpfDomainRouting }

func (m *c10Matcher) AddSet(int, []string, consts.RoutingDomainKey) {}
func (m *c10Matcher) Build() error                                  { return nil }
func (m *c10Matcher) MatchDomainBitmap(domain string) []uint32 {
	bm := m.table[strings.ToLower(strings.TrimSuffix(domain, "."))]
	out := make([]uint32, len(bm.Bitmap))
	copy(out, bm.Bitmap[:])
	return out
}

var c10Names = []string{"a.example", "b.example", "cdn.example", "fixed.example"}

type c10Scope struct {
	name     string
	idx      consts.DnsRequestOutboundIndex
	upstream *dns.Upstream
	req      *udpRequest
}

func c10Scopes() []c10Scope {
	return []c10Scope{
		{name: "none"},
		{name: "up_udp", idx: 0, upstream: &dns.Upstream{Scheme: dns.UpstreamScheme_UDP, Hostname: "8.8.8.8", Port: 53}},
		{name: "up_tcp", idx: 1, upstream: &dns.Upstream{Scheme: dns.UpstreamScheme_TCP, Hostname: "dns.example", Port: 53}},
		{name: "asis", idx: consts.DnsRequestOutboundIndex_AsIs, req: &udpRequest{realDst: netip.MustParseAddrPort("9.9.9.9:53")}},
		{name: "up_index", idx: 3},
	}
}

func c10Log() *logrus.Logger {
	l := logrus.New()
	l.SetOutput(io.Discard)
	l.SetLevel(logrus.PanicLevel)
	return l
}

// c10RR builds one answer RR the way it comes off the wire after the
// pack/unpack below; kind: "A", "AAAA", "CNAME", "TXT".
func c10RR(owner string, kind string, addr netip.Addr, ttl uint32) dnsmessage.RR {
	switch kind {
	case "A":
		b := addr.As4()
		return &dnsmessage.A{Hdr: dnsmessage.RR_Header{Name: owner, Rrtype: dnsmessage.TypeA, Class: dnsmessage.ClassINET, Ttl: ttl}, A: net.IP(b[:])}
	case "AAAA":
		b := addr.As16()
		return &dnsmessage.AAAA{Hdr: dnsmessage.RR_Header{Name: owner, Rrtype: dnsmessage.TypeAAAA, Class: dnsmessage.ClassINET, Ttl: ttl}, AAAA: net.IP(b[:])}
	case "CNAME":
		return &dnsmessage.CNAME{Hdr: dnsmessage.RR_Header{Name: owner, Rrtype: dnsmessage.TypeCNAME, Class: dnsmessage.ClassINET, Ttl: ttl}, Target: "edge.cdn.example."}
	default:
		return &dnsmessage.TXT{Hdr: dnsmessage.RR_Header{Name: owner, Rrtype: dnsmessage.TypeTXT, Class: dnsmessage.ClassINET, Ttl: ttl}, Txt: []string{"v=c10"}}
	}
}

type c10Ans struct {
	kind string
	addr netip.Addr
}

func (a c10Ans) String() string {
	if a.kind == "A" || a.kind == "AAAA" {
		return a.kind + ":" + a.addr.String()
	}
	return a.kind
}

// all address-bearing answers the generator can produce.
func c10AnswerPool() []c10Ans {
	var p []c10Ans
	for _, a := range c10V4 {
		p = append(p, c10Ans{"A", a})
	}
	for _, a := range c10V6 {
		p = append(p, c10Ans{"AAAA", a})
	}
	p = append(p, c10Ans{"AAAA", c10V4MappedFirst}, c10Ans{"A", c10Unspec4}, c10Ans{"AAAA", c10Unspec6})
	return p
}

// c10RRAddr is the oracle's own reading of an answer RR: (map key, listed?).
func c10RRAddr(rr dnsmessage.RR) (c10Key, bool) {
	var ip net.IP
	switch b := rr.(type) {
	case *dnsmessage.A:
		ip = b.A
	case *dnsmessage.AAAA:
		ip = b.AAAA
	default:
		return c10Key{}, false
	}
	a, ok := netip.AddrFromSlice(ip)
	if !ok || a.IsUnspecified() {
		return c10Key{}, false
	}
	return c10AddrKey(a), true
}

type c10Stack struct {
	t       *rapid.T
	ctrl    *DnsController
	shadow  *c10Shadow
	table   map[string]bpfDomainRouting // lower-case name without dot → bitmap
	fqdnOf  map[string]string           // cache key → lower-case name without dot
	scopes  []c10Scope
	hist    []string
	classes map[string]bool
	nt      bool
	prev    map[string]c10Owner
	real    *ebpf.Map
}

func (s *c10Stack) key(nameIdx int, qtype uint16, scope c10Scope) (base, key string) {
	base = s.ctrl.cacheKey(c10Names[nameIdx]+".", qtype)
	key = s.ctrl.responseCacheKey(base, scope.req, scope.idx, scope.upstream)
	return
}

// liveOwners reads the oracle's ground truth out of dnsCache.
func (s *c10Stack) liveOwners() map[string]c10Owner {
	owners := map[string]c10Owner{}
	s.ctrl.dnsCache.Range(func(k, v any) bool {
		key := k.(string)
		cache := v.(*DnsCache)
		name, ok := s.fqdnOf[key]
		if !ok {
			s.t.Fatalf("harness: dnsCache holds key %q that was never inserted", key)
		}
		bm := s.table[name]
		if len(cache.DomainBitmap) != len(bm.Bitmap) {
			s.t.Fatalf("harness: entry %q carries a %d-word bitmap", key, len(cache.DomainBitmap))
		}
		for i, w := range cache.DomainBitmap {
			if w != bm.Bitmap[i] {
				s.t.Fatalf("harness: entry %q carries a bitmap that is not the matcher's", key)
			}
		}
		o := c10Owner{bitmap: bm, addrs: map[c10Key]bool{}}
		for _, rr := range cache.Answer {
			if a, ok := c10RRAddr(rr); ok {
				o.addrs[a] = true
			}
		}
		owners[key] = o
		return true
	})
	return owners
}

func (s *c10Stack) check() {
	synctest.Wait()
	if errs := s.shadow.takeErrs(); len(errs) > 0 {
		s.t.Fatalf("bad batch after %v:\n%s", s.hist, strings.Join(errs, "\n"))
	}
	owners := s.liveOwners()
	if d := c10Compare(s.shadow.snapshot(), owners); d != "" {
		s.t.Fatalf("domain routing table does not mirror the live DNS cache after %d steps\nhistory: %v\nlive cache entries:\n%s%s",
			len(s.hist), s.hist, c10OwnersString(owners), d)
	}
	if s.real != nil {
		real, err := c10DumpReal(s.real)
		if err != nil {
			s.t.Fatalf("harness: dump of the real map: %v", err)
		}
		if d := c10Compare(real, owners); d != "" {
			s.t.Fatalf("the kernel domain routing map does not mirror the live DNS cache after %d steps\nhistory: %v\nlive cache entries:\n%s%s",
				len(s.hist), s.hist, c10OwnersString(owners), d)
		}
	}
	partial, removed := c10Shrank(s.prev, owners)
	if partial {
		s.classes["owner_shrank"] = true
		s.nt = true
	}
	if removed {
		s.classes["owner_removed"] = true
		s.nt = true
	}
	if c10SharedDiff(owners) {
		s.classes["shared_addr_diff_bitmaps"] = true
		s.nt = true
	}
	shared := map[c10Key]int{}
	for _, o := range owners {
		for a := range o.addrs {
			shared[a]++
		}
	}
	for _, n := range shared {
		if n >= 2 {
			s.classes["shared_addr"] = true
		}
	}
	s.prev = owners
}

func (s *c10Stack) drawAnswers(t *rapid.T, preferType uint16) []c10Ans {
	pool := c10AnswerPool()
	n := rapid.IntRange(0, 4).Draw(t, "nans")
	var out []c10Ans
	if n > 0 && rapid.IntRange(0, 4).Draw(t, "cname_first") == 4 {
		out = append(out, c10Ans{kind: "CNAME"})
	}
	for i := 0; i < n; i++ {
		var cand []c10Ans
		// mostly records of the asked family, sometimes anything (an upstream may
		// answer whatever it likes; the cache stores the answer section as is).
		if rapid.IntRange(0, 5).Draw(t, "anyfam") != 5 {
			for _, a := range pool {
				if (preferType == dnsmessage.TypeA && a.kind == "A") || (preferType == dnsmessage.TypeAAAA && a.kind == "AAAA") {
					cand = append(cand, a)
				}
			}
		}
		if len(cand) == 0 {
			cand = pool
		}
		out = append(out, rapid.SampledFrom(cand).Draw(t, "ans"))
	}
	if rapid.IntRange(0, 9).Draw(t, "txt") == 9 {
		out = append(out, c10Ans{kind: "TXT"})
	}
	return out
}

// insert caches a response for (name, qtype, scope) the way dialSend does.
func (s *c10Stack) insert(nameIdx int, qtype uint16, scope c10Scope, answers []c10Ans, ttl uint32, how string, upper bool) {
	base, key := s.key(nameIdx, qtype, scope)
	_ = base
	qname := c10Names[nameIdx] + "."
	if upper {
		qname = strings.ToUpper(qname[:1]) + qname[1:]
	}
	var rrs []dnsmessage.RR
	owner := qname
	for _, a := range answers {
		rrs = append(rrs, c10RR(owner, a.kind, a.addr, ttl))
		if a.kind == "CNAME" {
			owner = "edge.cdn.example."
		}
	}
	s.hist = append(s.hist, fmt.Sprintf("insert[%s](%s ttl=%d %v)", how, key, ttl, answers))
	s.fqdnOf[key] = c10Names[nameIdx]
	switch how {
	case "ttlapi":
		// the bootstrap path (control_plane.go): unscoped key, records handed over directly.
		if err := s.ctrl.UpdateDnsCacheTtl(qname, qtype, rrs, nil, nil, int(ttl)); err != nil {
			s.t.Fatalf("UpdateDnsCacheTtl: %v", err)
		}
	default:
		q := new(dnsmessage.Msg)
		q.SetQuestion(qname, qtype)
		resp := new(dnsmessage.Msg)
		resp.SetReply(q)
		resp.Answer = rrs
		if how == "nxdomain" {
			resp.Rcode = dnsmessage.RcodeNameError
			resp.Answer = nil
		}
		wire, err := resp.Pack()
		if err != nil {
			s.t.Fatalf("harness: pack: %v", err)
		}
		got := new(dnsmessage.Msg)
		if err := got.Unpack(wire); err != nil {
			s.t.Fatalf("harness: unpack: %v", err)
		}
		if err := s.ctrl.NormalizeAndCacheDnsResp_(got, key); err != nil {
			s.t.Fatalf("NormalizeAndCacheDnsResp_: %v", err)
		}
	}
	for _, a := range answers {
		if a.addr == c10Unspec4 || a.addr == c10Unspec6 {
			s.classes["unspecified_answer"] = true
		}
	}
	if len(answers) == 0 {
		s.classes["empty_answer"] = true
	}
	if c10IsZero(s.table[c10Names[nameIdx]]) {
		s.classes["zero_bitmap_name"] = true
	}
}

func (s *c10Stack) liveKeys() []string {
	var keys []string
	s.ctrl.dnsCache.Range(func(k, _ any) bool {
		keys = append(keys, k.(string))
		return true
	})
	sort.Strings(keys)
	return keys
}

// decode a key produced by key() back into its generator coordinates.
func (s *c10Stack) coords(key string) (nameIdx int, qtype uint16, scope c10Scope, ok bool) {
	for i := range c10Names {
		for _, qt := range []uint16{dnsmessage.TypeA, dnsmessage.TypeAAAA} {
			for _, sc := range s.scopes {
				if _, k := s.key(i, qt, sc); k == key {
					return i, qt, sc, true
				}
			}
		}
	}
	return 0, 0, c10Scope{}, false
}

// c10NewPlane is the ControlPlane literal the production option is taken from:
// a core whose bpfObjects has a nil DomainRoutingMap, the matcher stand-in, and a
// fixed_domain_ttl entry.
func c10NewPlane(ctx context.Context, table map[string]bpfDomainRouting, presetTracker bool, real ...*ebpf.Map) *ControlPlane {
	log := c10Log()
	core := &controlPlaneCore{log: log}
	if presetTracker {
		core.domainRouting = newDomainRoutingTracker()
	}
	if len(real) > 0 && real[0] != nil {
		core.bpf.Store(&bpfObjects{bpfMaps: bpfMaps{DomainRoutingMap: real[0]}})
	} else {
		core.bpf.Store(&bpfObjects{}) // DomainRoutingMap == nil
	}
	plane := &ControlPlane{log: log, core: core, ctx: ctx}
	plane.routingMatcher = &RoutingMatcher{domainMatcher: &c10Matcher{table: table}}
	plane.dnsFixedDomainTtl = map[string]int{"fixed.example": 7}
	return plane
}

func c10StackCase(t *rapid.T) {
	const unit = "C10.stack"
	s := &c10Stack{
		t:       t,
		shadow:  c10NewShadow(),
		table:   map[string]bpfDomainRouting{},
		fqdnOf:  map[string]string{},
		scopes:  c10Scopes(),
		classes: map[string]bool{},
		prev:    map[string]c10Owner{},
	}
	var bmNames []string
	for i, n := range c10Names {
		name, bm := c10DrawBitmap(t, fmt.Sprintf("bitmap_%d", i))
		s.table[n] = bm
		bmNames = append(bmNames, n+"="+name)
	}
	maxCache := rapid.SampledFrom([]int{0, 0, 2, 3, 5}).Draw(t, "max_cache_size")
	optimistic := rapid.Bool().Draw(t, "optimistic_cache")
	optimisticTtl := rapid.SampledFrom([]int{0, 30, 60}).Draw(t, "optimistic_cache_ttl")
	presetTracker := rapid.Bool().Draw(t, "preset_tracker")

	verifSetHooks(&verifHooks{DomainRoutingSync: s.shadow.observe})
	defer verifSetHooks(nil)

	ctx, cancel := context.WithCancel(context.Background())
	defer cancel()
	if s.real = c10TryRealMap(unit); s.real != nil {
		defer s.real.Close()
		if rapid.Bool().Draw(t, "per_element_fallback") {
			c10ForceBatchMode(true)
			s.classes["real_map_per_element_fallback"] = true
		} else {
			c10ForceBatchMode(false)
			s.classes["real_map_kernel_batch_api"] = true
		}
	}
	plane := c10NewPlane(ctx, s.table, presetTracker, s.real)

	// exactly what NewControlPlane does with the option (control_plane.go:775-780).
	option := plane.dnsControllerOption()
	option.OptimisticCache = optimistic
	option.OptimisticCacheTtl = optimisticTtl
	option.MaxCacheSize = maxCache
	option.IpVersionPrefer = 0
	ctrl, err := NewDnsController(nil, option)
	if err != nil {
		t.Fatalf("NewDnsController: %v", err)
	}
	s.ctrl = ctrl
	defer func() {
		if err := ctrl.Close(); err != nil {
			panic(fmt.Sprintf("harness: DnsController.Close: %v", err))
		}
	}()

	qtypes := []uint16{dnsmessage.TypeA, dnsmessage.TypeAAAA}
	ttls := []uint32{0, 1, 5, 30, 120, 3600}
	drawCoords := func(t *rapid.T) (int, uint16, c10Scope) {
		return rapid.IntRange(0, len(c10Names)-1).Draw(t, "name"),
			rapid.SampledFrom(qtypes).Draw(t, "qtype"),
			s.scopes[rapid.IntRange(0, len(s.scopes)-1).Draw(t, "scope")]
	}
	pickLive := func(t *rapid.T) (string, bool) {
		keys := s.liveKeys()
		if len(keys) == 0 {
			return "", false
		}
		return rapid.SampledFrom(keys).Draw(t, "live_key"), true
	}

	t.Repeat(map[string]func(*rapid.T){
		"insert": func(t *rapid.T) {
			n, qt, sc := drawCoords(t)
			how := "resp"
			switch rapid.IntRange(0, 19).Draw(t, "how") {
			case 19:
				how = "nxdomain"
			case 17, 18:
				how = "ttlapi"
				sc = s.scopes[0]
			}
			s.insert(n, qt, sc, s.drawAnswers(t, qt), rapid.SampledFrom(ttls).Draw(t, "ttl"), how, rapid.IntRange(0, 7).Draw(t, "upper") == 7)
		},
		// a live entry is refreshed with a different address set derived from its own.
		"refresh": func(t *rapid.T) {
			key, ok := pickLive(t)
			if !ok {
				t.Skip("cache empty")
			}
			n, qt, sc, ok := s.coords(key)
			if !ok {
				t.Fatalf("harness: cannot decode key %q", key)
			}
			v, _ := s.ctrl.dnsCache.Load(key)
			var cur []c10Ans
			for _, rr := range v.(*DnsCache).Answer {
				switch b := rr.(type) {
				case *dnsmessage.A:
					a, _ := netip.AddrFromSlice(b.A)
					cur = append(cur, c10Ans{"A", a})
				case *dnsmessage.AAAA:
					a, _ := netip.AddrFromSlice(b.AAAA)
					cur = append(cur, c10Ans{"AAAA", a})
				}
			}
			var next []c10Ans
			switch rapid.IntRange(0, 3).Draw(t, "shape") {
			case 0: // drop one, keep the rest
				if len(cur) > 0 {
					d := rapid.IntRange(0, len(cur)-1).Draw(t, "drop")
					next = append(append([]c10Ans{}, cur[:d]...), cur[d+1:]...)
				}
			case 1: // keep, add some
				next = append(append([]c10Ans{}, cur...), s.drawAnswers(t, qt)...)
			case 2: // rotate (same set, other order)
				if len(cur) > 1 {
					next = append(append([]c10Ans{}, cur[1:]...), cur[0])
				} else {
					next = cur
				}
			default: // unrelated new set
				next = s.drawAnswers(t, qt)
			}
			s.classes["refresh"] = true
			s.insert(n, qt, sc, next, rapid.SampledFrom(ttls).Draw(t, "ttl"), "resp", false)
		},
		// another key (other name / type / scope) resolves to an address already listed.
		"share": func(t *rapid.T) {
			key, ok := pickLive(t)
			if !ok {
				t.Skip("cache empty")
			}
			v, _ := s.ctrl.dnsCache.Load(key)
			var cur []c10Ans
			for _, rr := range v.(*DnsCache).Answer {
				switch b := rr.(type) {
				case *dnsmessage.A:
					a, _ := netip.AddrFromSlice(b.A)
					cur = append(cur, c10Ans{"A", a})
				case *dnsmessage.AAAA:
					a, _ := netip.AddrFromSlice(b.AAAA)
					cur = append(cur, c10Ans{"AAAA", a})
				}
			}
			if len(cur) == 0 {
				t.Skip("entry lists nothing")
			}
			n, qt, sc := drawCoords(t)
			ans := append([]c10Ans{rapid.SampledFrom(cur).Draw(t, "shared")}, s.drawAnswers(t, qt)...)
			s.insert(n, qt, sc, ans, rapid.SampledFrom(ttls).Draw(t, "ttl"), "resp", false)
		},
		// request routing says reject: the whole (name, type) family goes.
		"reject": func(t *rapid.T) {
			var base string
			if key, ok := pickLive(t); ok && rapid.IntRange(0, 3).Draw(t, "live") != 0 {
				base = dnsCacheBaseKey(key)
			} else {
				n, qt, _ := drawCoords(t)
				base, _ = s.key(n, qt, s.scopes[0])
			}
			s.hist = append(s.hist, "reject("+base+")")
			s.classes["reject"] = true
			s.ctrl.RemoveDnsRespCacheFamily(base)
		},
		"remove_exact": func(t *rapid.T) {
			key, ok := pickLive(t)
			if !ok {
				t.Skip("cache empty")
			}
			s.hist = append(s.hist, "remove("+key+")")
			s.ctrl.RemoveDnsRespCache(key)
		},
		"lookup": func(t *rapid.T) {
			var key string
			var n int
			var qt uint16
			if k, ok := pickLive(t); ok && rapid.IntRange(0, 4).Draw(t, "live") != 0 {
				key = k
				n, qt, _, _ = s.coords(k)
			} else {
				var sc c10Scope
				n, qt, sc = drawCoords(t)
				_, key = s.key(n, qt, sc)
			}
			if rapid.Bool().Draw(t, "packed_path") {
				s.hist = append(s.hist, "lookup_("+key+")")
				q := new(dnsmessage.Msg)
				q.SetQuestion(c10Names[n]+".", qt)
				s.ctrl.LookupDnsRespCache_(q, key, false)
			} else {
				ign := rapid.Bool().Draw(t, "ignore_fixed_ttl")
				s.hist = append(s.hist, fmt.Sprintf("lookup(%s,%v)", key, ign))
				s.ctrl.LookupDnsRespCache(key, ign)
			}
		},
		"sleep": func(t *rapid.T) {
			d := rapid.SampledFrom([]time.Duration{
				time.Second, 5 * time.Second, 7 * time.Second, 29 * time.Second, 30 * time.Second, 31 * time.Second,
				61 * time.Second, 2 * time.Minute, time.Hour,
			}).Draw(t, "d")
			s.hist = append(s.hist, "sleep("+d.String()+")")
			before := len(s.liveKeys())
			time.Sleep(d)
			synctest.Wait()
			if len(s.liveKeys()) < before {
				s.classes["janitor_collected"] = true
			}
		},
		"": func(t *rapid.T) { s.check() },
	})

	if s.shadow.batches > s.shadow.nonNoop {
		s.classes["noop_sync_seen"] = true
	}
	if maxCache > 0 {
		s.classes["lru_bounded"] = true
	}
	key := ""
	if s.nt {
		key = strings.Join(bmNames, ",") + "#" + strings.Join(s.hist, ";")
	}
	cl := make([]string, 0, len(s.classes))
	for c := range s.classes {
		cl = append(cl, c)
	}
	sort.Strings(cl)
	hist := s.hist
	vkCase(unit, key, func() any {
		return map[string]any{"bitmaps": bmNames, "max_cache_size": maxCache, "history": hist}
	}, cl...)
}

func TestC10_Stack(tt *testing.T) {
	rapid.Check(tt, func(t *rapid.T) {
		var (
			pv       any
			panicked bool
			stack    []byte
		)
		synctest.Test(tt, func(_ *testing.T) {
			// rapid signals failure / invalid data by panicking; catch it inside the
			// bubble (after the deferred teardown in c10StackCase has run) and re-raise
			// it on rapid's goroutine.
			defer func() {
				if r := recover(); r != nil {
					pv, panicked = r, true
					stack = debug.Stack()
				}
			}()
			c10StackCase(t)
		})
		if !panicked {
			return
		}
		// rapid's shrinker recognises "the same failure" by the traceback of the
		// panic site, so the three kinds must be re-raised from three different
		// sites — otherwise an "invalid data: overrun" during shrinking is taken
		// for the failure being minimised.
		switch fmt.Sprintf("%T", pv) {
		case "rapid.invalidData":
			t.Skip(fmt.Sprint(pv))
		case "rapid.stopTest":
			panic(pv)
		default:
			panic(fmt.Sprintf("panic inside the bubble: %v\n%s", pv, stack))
		}
	})
}

package control

// C03 — generated packet histories on the real TC programs of tproxy.c (kernsim):
// a rapid state machine over a pool of four flows. Every frame is checked against the
// reference model of the statement (c03_model_test.go); at the end the whole history is
// replayed with the byte-load parsing path forced and must give the same outputs and
// the same map contents (metamorphic fast/slow check).

import (
	"bytes"
	"fmt"
	"net/netip"
	"sort"
	"strings"
	"testing"

	"pgregory.net/rapid"
)

const c03Unit = "C03.history"

func c03NewEnv(t ksTB, k *ksSim) *c03Env {
	return &c03Env{t: t, k: k, kc: k.Info().Consts, alive: map[uint32]bool{}, domains: map[netip.Addr]string{},
		bitmapKeys: map[netip.Addr][]byte{}, cls: map[string]int{}, lastWant: map[int]bpfRoutingResult{}}
}

func (e *c03Env) hookFor(f *c03Flow, reverse bool, viaLanEgress bool) (prog string, l2 bool, meta ksSkbMeta) {
	switch {
	case !reverse && f.lanSide():
		l2 = e.lanL2
		prog = map[bool]string{true: "tproxy_lan_ingress_l2", false: "tproxy_lan_ingress_l3"}[l2]
		meta = ksSkbMeta{Ifindex: c03LanIf, IngressIfindex: c03LanIf}
	case !reverse:
		l2 = e.wanL2
		prog = map[bool]string{true: "tproxy_wan_egress_l2", false: "tproxy_wan_egress_l3"}[l2]
		meta = ksSkbMeta{Ifindex: c03WanIf, IngressIfindex: 0, Cookie: f.Cookie}
		switch f.DaeKind {
		case 2:
			meta.Mark = e.sockMark
		case 3:
			meta.Mark = 0x100 | 0x2
		}
	case viaLanEgress:
		l2 = e.lanL2
		prog = map[bool]string{true: "tproxy_lan_egress_l2", false: "tproxy_lan_egress_l3"}[l2]
		meta = ksSkbMeta{Ifindex: c03LanIf, IngressIfindex: c03WanIf}
	default:
		l2 = e.wanL2
		prog = map[bool]string{true: "tproxy_wan_ingress_l2", false: "tproxy_wan_ingress_l3"}[l2]
		meta = ksSkbMeta{Ifindex: c03WanIf, IngressIfindex: c03WanIf}
	}
	return
}

var c03FlagNames = map[uint8]string{ksTCPSyn: "SYN", ksTCPSyn | ksTCPAck: "SYN-ACK", ksTCPAck: "ACK", ksTCPAck | 0x08: "PSH-ACK",
	ksTCPFin | ksTCPAck: "FIN-ACK", ksTCPRst: "RST", ksTCPRst | ksTCPAck: "RST-ACK", 0: "-"}

func (e *c03Env) genFrameOpts(t *rapid.T, f *c03Flow, reverse bool) c03FrameOpts {
	var o c03FrameOpts
	o.Reverse = reverse
	if f.TCP {
		kinds := []uint8{ksTCPSyn, ksTCPSyn | ksTCPAck, ksTCPAck, ksTCPAck | 0x08, ksTCPAck, ksTCPFin | ksTCPAck, ksTCPRst, ksTCPRst | ksTCPAck}
		if (!f.Tracked || e.aimProc) && !reverse {
			kinds = append(kinds, ksTCPSyn, ksTCPSyn, ksTCPSyn)
		}
		if reverse {
			// a bare SYN travelling against the flow means "the other side opens the connection":
			// only meaningful for the flows that model WAN-originated connections
			if f.Origin == c03OrigInLocal || f.Origin == c03OrigInLan {
				kinds = append(kinds, ksTCPSyn, ksTCPSyn)
			} else {
				kinds = kinds[1:]
			}
		}
		o.Flags = rapid.SampledFrom(kinds).Draw(t, "tcpflags")
		if reverse && !f.Tracked && (f.Origin == c03OrigInLocal || f.Origin == c03OrigInLan) && rapid.IntRange(0, 3).Draw(t, "open_from_wan") > 0 {
			o.Flags = ksTCPSyn // the remote client opens the connection
		}
	}
	o.Payload = rapid.SampledFrom([]int{0, 0, 1, 64, 120, 200, 600}).Draw(t, "payload")
	if o.Flags == ksTCPSyn|ksTCPAck && o.Payload >= 64 && vkKnown("F8") {
		// known finding F8: a SYN-ACK that reaches the direct-access parser (>= 128 bytes on the
		// wire) is mistaken for a new connection; keep SYN-ACKs short while it is listed
		o.Payload = 0
		e.f8Excluded++
	}
	switch rapid.IntRange(0, 19).Draw(t, "shape") {
	case 0:
		o.FragOff = uint16(rapid.SampledFrom([]int{1, 2, 185, 8191}).Draw(t, "fragoff"))
	case 1, 3:
		o.FragHdr = true // first fragment, in both size classes (the payload decides)
	case 2:
		o.Cut = rapid.IntRange(1, 110).Draw(t, "cut")
	}
	if e.forceTCP != 0 && f.TCP {
		o.Flags, o.FragOff, o.FragHdr, o.Cut = e.forceTCP, 0, false, 0
	}
	return o
}

// actConnWhileFull: a whole connection attempt while the state table is full - SYN,
// then one or two further segments of the same connection - on a TCP flow. What the
// datapath lets through of it must be treated consistently (a direct rule's mark on
// the SYN and on the segments that follow, or nothing).
func (e *c03Env) actConnWhileFull(t *rapid.T) {
	var tcp []*c03Flow
	for _, f := range e.flows {
		if f.TCP {
			tcp = append(tcp, f)
		}
	}
	if len(tcp) == 0 {
		t.Skip("no TCP flow")
	}
	f := tcp[rapid.IntRange(0, len(tcp)-1).Draw(t, "tcp_flow")]
	was := e.mapFull
	if !was {
		e.actMapFull(t)
	}
	e.forceTCP = ksTCPSyn
	e.forwardOne(t, f)
	for i, n := 0, rapid.IntRange(1, 2).Draw(t, "segments"); i < n; i++ {
		e.forceTCP = rapid.SampledFrom([]uint8{ksTCPAck, ksTCPAck | 0x08}).Draw(t, "segflags")
		e.forwardOne(t, f)
	}
	e.forceTCP = 0
	if !was {
		e.actMapFull(t)
	}
	e.class("connection_attempt_while_state_table_full")
}

func (e *c03Env) goAddrPorts(t *rapid.T, f *c03Flow) (netip.AddrPort, netip.AddrPort) {
	// the control plane sees IPv4 peers as 4-byte or v4-mapped addresses (dual-stack listener)
	src, dst := f.Pk.Src, f.Pk.Dst
	if !f.V6 {
		if rapid.Bool().Draw(t, "go_src_4in6") {
			src = netip.AddrPortFrom(netip.AddrFrom16(src.Addr().As16()), src.Port())
		}
		if rapid.Bool().Draw(t, "go_dst_4in6") {
			dst = netip.AddrPortFrom(netip.AddrFrom16(dst.Addr().As16()), dst.Port())
		}
	}
	return src, dst
}

func (e *c03Env) actForward(t *rapid.T) {
	f := e.flows[rapid.IntRange(0, len(e.flows)-1).Draw(t, "flow")]
	n := 1
	if !f.TCP && rapid.IntRange(0, 2).Draw(t, "burst") == 0 {
		n = rapid.IntRange(2, 3).Draw(t, "burst_len") // datagrams queue up before userspace reads any
	}
	for i := 0; i < n; i++ {
		e.forwardOne(t, f)
	}
	if rapid.IntRange(0, 2).Draw(t, "userspace_reads") == 0 {
		e.drain(nil)
	}
}

func (e *c03Env) forwardOne(t *rapid.T, f *c03Flow) {
	if f.TCP {
		e.drain(f) // a TCP flow may restart with this packet: what is queued is read first
	}
	e.disambiguate(f)
	o := e.genFrameOpts(t, f, false)
	prog, l2, meta := e.hookFor(f, false, false)
	o.HookL2 = l2
	frame, proto := e.frame(f, &o)
	meta.Protocol = proto
	linear := uint32(len(frame))
	if rapid.IntRange(0, 3).Draw(t, "partial_linear") == 0 {
		linear = uint32(rapid.IntRange(0, len(frame)).Draw(t, "linear"))
	}
	in := ksRunIn{Meta: meta, Frame: frame, LinearLen: linear}
	desc := fmt.Sprintf("t=%d.%09ds %s %v %s len=%d frag=%d cut=%d", e.now/c03Sec, e.now%c03Sec, prog, f, c03FlagNames[o.Flags], len(frame), o.FragOff, o.Cut)
	e.logf("%s", desc)
	var x c03Expect
	switch {
	case o.Malformed:
		x = c03Expect{Malformed: true, Why: "truncated inside the headers"}
		e.class("frame_truncated")
	case o.FragOff != 0:
		x = c03Expect{Pass: true, Why: "non-initial fragment"}
		if f.Tainted {
			x = c03Expect{Any: true}
		}
		e.class("frame_noninitial_fragment")
	default:
		x = e.forward(f, o.Flags)
		f.FwdPackets++
		if len(frame) >= 128 {
			e.class("frame_fastpath_eligible")
			if o.Flags == ksTCPSyn|ksTCPAck {
				e.class("frame_synack_ge128")
			}
		} else {
			e.class("frame_short_slowpath")
		}
		if len(f.Exts) > 0 || (o.FragHdr && f.V6) {
			e.class("frame_v6_exthdrs")
		}
		if o.FragHdr {
			e.class(map[bool]string{true: "frame_first_fragment_ge128", false: "frame_first_fragment_short"}[len(frame) >= 128])
		}
		if e.aimProc && !f.lanSide() {
			if f.Registered {
				e.class("wan_frame_known_process")
				e.lastWanKnown = true
			} else {
				e.class("wan_frame_unknown_process")
				if e.lastWanKnown {
					e.class("wan_unknown_process_right_after_known")
				}
				e.lastWanKnown = false
			}
		}
	}
	out := e.run(desc, prog, in)
	goSrc, goDst := e.goAddrPorts(t, f)
	e.checkForward(f, desc, in, out, x, goSrc, goDst)
	e.class("frames_forward")
	if x.Redirect && e.verdictName(out.Verdict) == "REDIRECT" {
		e.class("verdict_redirect")
	} else if x.Shot {
		e.class("verdict_drop")
	} else if x.Pass {
		e.class("verdict_pass")
	}
	// forwarded LAN traffic that was let through leaves by the WAN interface: the egress hook
	// must not look at it
	if f.lanSide() && x.Pass && !o.Malformed && e.verdictName(out.Verdict) == "OK" && rapid.IntRange(0, 3).Draw(t, "thru_wan") == 0 {
		o2 := o
		o2.HookL2, o2.Cut = e.wanL2, 0
		fr2, _ := e.frame(f, &o2)
		wprog := map[bool]string{true: "tproxy_wan_egress_l2", false: "tproxy_wan_egress_l3"}[e.wanL2]
		in2 := ksRunIn{Meta: ksSkbMeta{Protocol: proto, Ifindex: c03WanIf, IngressIfindex: c03LanIf, Mark: out.Mark}, Frame: fr2, LinearLen: uint32(len(fr2))}
		out2 := e.run("forwarded through wan_egress", wprog, in2)
		if e.verdictName(out2.Verdict) != "OK" || !bytes.Equal(out2.Frame, fr2) || out2.Mark != out.Mark {
			e.failf("%s: forwarded (not locally originated) frame at wan_egress: verdict %s, frame/mark changed=%v", desc, e.verdictName(out2.Verdict), !bytes.Equal(out2.Frame, fr2) || out2.Mark != out.Mark)
		}
		e.class("forwarded_through_wan_egress")
	}
}

func (e *c03Env) actReverse(t *rapid.T) {
	e.drain(nil)
	var cands []*c03Flow
	for _, f := range e.flows {
		if f.DaeKind == 0 {
			cands = append(cands, f)
		}
	}
	if len(cands) == 0 {
		return
	}
	f := cands[rapid.IntRange(0, len(cands)-1).Draw(t, "flow")]
	e.disambiguate(f)
	viaLanEgress := f.lanSide() && rapid.Bool().Draw(t, "lan_egress")
	o := e.genFrameOpts(t, f, true)
	prog, l2, meta := e.hookFor(f, true, viaLanEgress)
	o.HookL2 = l2
	frame, proto := e.frame(f, &o)
	meta.Protocol = proto
	in := ksRunIn{Meta: meta, Frame: frame, LinearLen: uint32(len(frame))}
	desc := fmt.Sprintf("t=%d.%09ds %s (reverse) %v %s len=%d frag=%d cut=%d", e.now/c03Sec, e.now%c03Sec, prog, f, c03FlagNames[o.Flags], len(frame), o.FragOff, o.Cut)
	e.logf("%s", desc)
	x := c03Expect{Pass: true, Why: "reverse-direction hook never decides"}
	switch {
	case o.Malformed:
		x = c03Expect{Malformed: true}
	case o.FragOff != 0:
	default:
		e.reverse(f, o.Flags)
		if len(frame) >= 128 {
			e.class("frame_fastpath_eligible")
		}
	}
	out := e.run(desc, prog, in)
	e.checkForward(f, desc, in, out, x, netip.AddrPort{}, netip.AddrPort{})
	e.class("frames_reverse")
}

var c03ClockSteps = []uint64{1, c03Sec / 2, c03Sec - 1, c03Sec, c03Sec + 1, 5 * c03Sec, 9 * c03Sec, 10*c03Sec + 1, 11 * c03Sec,
	60 * c03Sec, 119 * c03Sec, 120*c03Sec + 1, 121 * c03Sec, 300 * c03Sec}

func (e *c03Env) actClock(t *rapid.T) {
	e.drain(nil)
	d := rapid.SampledFrom(c03ClockSteps).Draw(t, "dt")
	if rapid.Bool().Draw(t, "small_step") {
		d = rapid.SampledFrom(c03ClockSteps[:5]).Draw(t, "dt_small")
	}
	e.setClock(e.now + d)
	e.logf("CLOCK +%d ns", d)
}

func (e *c03Env) actConnectivity(t *rapid.T) {
	e.drain(nil)
	var groups []uint8
	for name, id := range e.comp.Name2Id {
		if name != "direct" && name != "block" && id >= 2 {
			groups = append(groups, id)
		}
	}
	sort.Slice(groups, func(i, j int) bool { return groups[i] < groups[j] })
	// aim at the groups flows were sent to
	for _, f := range e.flows {
		if f.Tracked && f.HasDecision && f.Dec.Ob >= 2 && f.Dec.Ob < 6 {
			groups = append(groups, f.Dec.Ob, f.Dec.Ob)
		}
	}
	if len(groups) == 0 {
		return
	}
	ob := rapid.SampledFrom(groups).Draw(t, "group")
	tcp, v6 := rapid.Bool().Draw(t, "tcp"), rapid.Bool().Draw(t, "v6")
	alive := !e.alive[e.connKey(ob, tcp, v6)]
	e.setAlive(ob, tcp, v6, alive)
	e.logf("CONNECTIVITY outbound %d tcp=%v v6=%v -> alive=%v", ob, tcp, v6, alive)
	e.class("connectivity_flip")
}

func (e *c03Env) actRules(t *rapid.T) {
	e.drain(nil)
	e.installProgram(c03GenVariant(t, e.prog), false)
	e.class("rules_replaced")
}

func (e *c03Env) actDomain(t *rapid.T) {
	e.drain(nil)
	f := e.flows[rapid.IntRange(0, len(e.flows)-1).Draw(t, "flow")]
	a := f.Pk.Dst.Addr()
	d := ""
	if rapid.IntRange(0, 3).Draw(t, "forget") > 0 {
		d = vrGenDomain(t, vrDomainSeeds(e.prog))
	}
	e.domains[a] = d
	e.syncDomain(a)
	e.logf("DOMAIN of %v is now %q", a, d)
	e.class("domain_changed")
}

func (e *c03Env) actSocket(t *rapid.T) {
	e.drain(nil)
	f := e.flows[rapid.IntRange(0, len(e.flows)-1).Draw(t, "flow")]
	s := ksSock{ID: uint32(100 + len(e.socks)), Family: 4, LocalPort: f.Pk.Dst.Port()}
	if f.V6 {
		s.Family = 6
	}
	if rapid.Bool().Draw(t, "bound") {
		s.LocalIP = f.Pk.Dst.Addr().As16()
	}
	daes := e.sockMark != 0 && rapid.IntRange(0, 2).Draw(t, "daes_own") == 0
	if daes {
		s.Mark = e.sockMark
	}
	if f.TCP {
		s.Proto, s.State = 6, ksBpfTcpListen
	} else {
		s.Proto, s.State = 17, 7
	}
	e.socks = append(e.socks, s)
	e.pushSockets()
	if !f.TCP && !daes {
		// a local UDP service now answers this destination: the LAN hook may pass such traffic
		// to it (NAT loopback) - the statement does not say; both behaviours are accepted
		for _, g := range e.flows {
			if !g.TCP && g.lanSide() && g.V6 == f.V6 && g.Pk.Dst.Port() == f.Pk.Dst.Port() {
				g.Tainted = true
			}
		}
		e.class("local_udp_socket_added")
	} else {
		e.class("local_socket_without_effect_added")
	}
	e.logf("SOCKET %+v", s)
}

// actDaeTakesOver: the 5-tuple of a locally originated flow is now used by dae itself (the
// process that owned it went away; dae's socket is recognised by its pid, its socket mark
// or the mark bit). Whatever decision is still cached for the tuple, dae's packets pass.
func (e *c03Env) actDaeTakesOver(t *rapid.T) {
	e.drain(nil)
	var cands []*c03Flow
	for _, f := range e.flows {
		if f.Origin == c03OrigWan && f.DaeKind == 0 && !f.Tainted {
			if f.TCP && f.Tracked && f.HasDecision {
				// not generated: the TCP path identifies the sender only at the SYN (documented in
				// pid_is_control_plane: "we just use it for handshake"), so segments dae sends on a
				// tuple that still carries another process' cached decision follow that decision.
				// Reported to the coordinator as a candidate finding; UDP is checked in full.
				e.class("dae_takeover_of_tracked_tcp_tuple_not_generated")
				continue
			}
			cands = append(cands, f)
			if f.Tracked && f.HasDecision && f.Dec.Ob >= 2 {
				cands = append(cands, f, f, f) // aim at tuples with a cached proxy decision
			}
		}
	}
	if len(cands) == 0 {
		return
	}
	f := cands[rapid.IntRange(0, len(cands)-1).Draw(t, "flow")]
	kinds := []int{1, 3}
	if e.sockMark != 0 {
		kinds = append(kinds, 2, 2)
	}
	f.DaeKind = rapid.SampledFrom(kinds).Draw(t, "daekind")
	f.Cookie += 100 // a different socket
	f.Registered = false
	if f.DaeKind == 1 {
		f.Pid, f.ProcName = c03CpPid, "dae"
		e.registerProcess(f)
	}
	if f.Tracked && f.HasDecision {
		e.class("dae_takes_over_tuple_with_cached_decision")
		if f.Dec.Ob >= 2 {
			e.class(map[bool]string{true: "dae_takes_over_proxied_tcp_tuple", false: "dae_takes_over_proxied_udp_tuple"}[f.TCP])
		}
	}
	e.logf("DAE now owns %v (kind %d, cookie %d)", f, f.DaeKind, f.Cookie)
	// dae's first packets on the tuple follow at once
	for i, n := 0, rapid.IntRange(1, 2).Draw(t, "dae_packets"); i < n; i++ {
		e.forwardOne(t, f)
	}
}

func (e *c03Env) actMapFull(t *rapid.T) {
	e.drain(nil)
	e.mapFull = !e.mapFull
	n := e.connMax
	if e.mapFull {
		n = 0
	}
	e.exec("conn_state_map max_entries", func(k *ksSim, slow bool) []byte { return c03I32(k.SetMaxEntries("conn_state_map", n)) })
	e.logf("CONN_STATE_MAP full=%v", e.mapFull)
	e.class("map_full_toggled")
}

var c03DumpMaps = []string{"conn_state_map", "routing_handoff_map", "redirect_track", "cookie_pid_map", "bpf_stats_map"}

func c03Dumps(k *ksSim) map[string][]ksKV {
	out := map[string][]ksKV{}
	for _, m := range c03DumpMaps {
		out[m] = k.MapDump(m)
	}
	return out
}

// replaySlow: the same history with every frame forced through parse_transport_slow.
func (e *c03Env) replaySlow() {
	fast := c03Dumps(e.k)
	e.k.Reset()
	for i, op := range e.ops {
		d := op.fn(e.k, true)
		if !bytes.Equal(d, e.digests[i]) {
			e.failf("the verdict depends on the parsing path: step %d (%s) gives a different result when the frame is parsed with bpf_skb_load_bytes\n direct access: %s\n byte loads:    %s", i, op.label, e.digests[i], d)
		}
	}
	slow := c03Dumps(e.k)
	for _, m := range c03DumpMaps {
		a, b := fast[m], slow[m]
		same := len(a) == len(b)
		for i := 0; same && i < len(a); i++ {
			same = bytes.Equal(a[i].Key, b[i].Key) && bytes.Equal(a[i].Value, b[i].Value)
		}
		if !same {
			e.failf("the parsing path changes the state: map %s differs after the same history\n direct access: %s\n byte loads:    %s", m, c03KVs(a), c03KVs(b))
		}
	}
}

func c03KVs(kv []ksKV) string {
	var b strings.Builder
	for _, x := range kv {
		fmt.Fprintf(&b, "\n    %x = %x", x.Key, x.Value)
	}
	return b.String()
}

func c03History(t *rapid.T, unit string, aimProc bool) {
	k := ksGet(t)
	k.Reset()
	e := c03NewEnv(t, k)
	e.aimProc = aimProc
	e.connMax = c03MapInfo(k, "conn_state_map").MaxEntries
	e.lanL2, e.wanL2 = rapid.IntRange(0, 3).Draw(t, "lan_l3") > 0, rapid.IntRange(0, 3).Draw(t, "wan_l3") > 0
	sockMark := uint32(0)
	if rapid.Bool().Draw(t, "has_sockmark") {
		sockMark = 0x9000
	}
	if r, err := c03TryRealMaps(); err == nil {
		e.real = r
		defer r.Close()
		e.class("real_bpf_maps_layer_active")
	} else {
		e.class("real_bpf_maps_layer_skipped")
		vkNote(unit, "real eBPF map layer skipped (RetrieveRoutingResult not exercised): %v", err)
	}
	globalNextLpmIndex.Store(uint32(rapid.IntRange(0, 1023).Draw(t, "ring_start")))
	e.setup(rapid.Bool().Draw(t, "redirect_peer"), sockMark, rapid.Bool().Draw(t, "has_task_helper"))
	if aimProc {
		// rules dominated by pname() conditions (positive and negated) next to a few others
		e.installProgram(vrGenProgram(t, vrOpts{MaxRules: 6, Funcs: []string{"pname", "pname", "pname", "dport", "l4proto", "dip"}}), true)
	} else {
		e.installProgram(vrGenProgram(t, vrOpts{MaxRules: 8}), true)
	}
	c03GenFlows(t, e)
	// weights through repeated keys (rapid picks the key uniformly)
	acts := map[string]func(*rapid.T){"conn": e.actConnectivity, "rules": e.actRules, "domain": e.actDomain}
	for i := 0; i < 10; i++ {
		acts[fmt.Sprintf("fwd%d", i)] = e.actForward
	}
	for i := 0; i < 5; i++ {
		acts[fmt.Sprintf("rev%d", i)] = e.actReverse
	}
	for i := 0; i < 3; i++ {
		acts[fmt.Sprintf("clock%d", i)] = e.actClock
	}
	acts["dae"] = e.actDaeTakesOver
	acts["fullconn"] = e.actConnWhileFull
	acts["env"] = func(t *rapid.T) {
		switch rapid.IntRange(0, 3).Draw(t, "env") {
		case 0:
			e.actSocket(t)
		case 1:
			e.actMapFull(t)
		default:
			if e.mapFull {
				e.actMapFull(t) // the table does not stay full for long
			} else {
				e.actConnectivity(t)
			}
		}
	}
	t.Repeat(acts)
	e.drain(nil)
	nops := len(e.ops)
	e.replaySlow()
	for i := 0; i < e.prog.ExcludedF1; i++ {
		vkExcluded(unit, "F1")
	}
	for i := 0; i < e.prog.ExcludedF2; i++ {
		vkExcluded(unit, "F2")
	}
	for i := 0; i < e.f8Excluded; i++ {
		vkExcluded(unit, "F8")
	}
	for i := 0; i < e.f9Excluded; i++ {
		vkExcluded(unit, c03FindingUdpSticky)
	}
	nt := ""
	cl := []string{}
	for _, f := range e.flows {
		if f.FwdPackets >= 2 && f.FirstByRule {
			nt = e.text + "\x00" + strings.Join(e.trace, "\n")
		}
		if f.StickyProbed {
			cl = append(cl, "history_with_distinguishing_sticky_probe")
		}
	}
	for c, n := range e.cls {
		for i := 0; i < n; i++ {
			cl = append(cl, c)
		}
	}
	sort.Strings(cl)
	vkCase(unit, nt, func() any {
		tr := e.trace
		if len(tr) > 40 {
			tr = tr[:40]
		}
		return map[string]any{"config": strings.TrimSpace(e.text), "history": tr, "kernel_ops_replayed": nops}
	}, cl...)
}

func c03MapInfo(k *ksSim, name string) ksMapInfo {
	for _, m := range k.Info().Maps {
		if m.Name == name {
			return m
		}
	}
	ksHarnessFatal("map %s not found", name)
	return ksMapInfo{}
}

func TestC03_History(t *testing.T) {
	rapid.Check(t, func(t *rapid.T) { c03History(t, c03Unit, false) })
}

// Histories aimed at the process-name input of the WAN-egress hook: sockets of known
// processes and sockets nobody registered, back to back, under pname()-heavy rules
// ("a process name only when one is known").
func TestC03_ProcessNames(t *testing.T) {
	rapid.Check(t, func(t *rapid.T) { c03History(t, "C03.procname", true) })
}

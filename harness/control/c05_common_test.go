package control

// C05 — TCP relay integrity, half-close, harmless detection deadlines.
//
// Shared pieces: an in-memory duplex connection with real deadline / half-close
// semantics (usable inside a testing/synctest bubble), payload builders, the
// scenario type with its generator, the two entry points (the wrapper stack composed
// by calling the production functions in handleConn's order, and handleConn itself
// on a minimal ControlPlane literal), the peers that play client and upstream, and
// the oracle.

import (
	"bufio"
	"bytes"
	"context"
	"encoding/binary"
	"errors"
	"fmt"
	"io"
	"net"
	"os"
	"runtime/debug"
	"strings"
	"sync"
	"sync/atomic"
	"time"

	"github.com/daeuniverse/dae/common/consts"
	ob "github.com/daeuniverse/dae/component/outbound"
	componentdialer "github.com/daeuniverse/dae/component/outbound/dialer"
	"github.com/daeuniverse/dae/component/sniffing"
	"github.com/daeuniverse/outbound/netproxy"
	dnsmessage "github.com/miekg/dns"
	"github.com/sirupsen/logrus"
	"pgregory.net/rapid"
)

// ---------------------------------------------------------------------------
// in-memory duplex connection
// ---------------------------------------------------------------------------

// c05Pipe is one direction of a duplex connection: a bounded byte queue with the
// blocking behaviour of a socket buffer.
type c05Pipe struct {
	mu      sync.Mutex
	buf     []byte
	limit   int // 0 = unlimited
	wclosed bool
	rclosed bool
	rdl     time.Time
	wdl     time.Time
	wake    chan struct{}
}

func c05NewPipe(limit int) *c05Pipe { return &c05Pipe{limit: limit, wake: make(chan struct{})} }

func (p *c05Pipe) bcast() { close(p.wake); p.wake = make(chan struct{}) }

type c05MemConn struct {
	rd, wr       *c05Pipe
	laddr, raddr *net.TCPAddr
	closeCalls   atomic.Int32
	cwCalls      atomic.Int32
	// eofWithData: like crypto/tls or many proxy-protocol conns, hand out the last
	// bytes of the stream together with io.EOF in the same Read call (legal io.Reader).
	eofWithData bool
	eofDataHits atomic.Int32
}

// c05MemPair returns the two ends of an in-memory connection; a is the "accepted"
// end whose LocalAddr is dst (tproxy convention) and RemoteAddr is src.
func c05MemPair(limit int, src, dst *net.TCPAddr) (a, b *c05MemConn) {
	p1, p2 := c05NewPipe(limit), c05NewPipe(limit)
	a = &c05MemConn{rd: p1, wr: p2, laddr: dst, raddr: src}
	b = &c05MemConn{rd: p2, wr: p1, laddr: src, raddr: dst}
	return
}

func c05Wait(w <-chan struct{}, dl time.Time) {
	if dl.IsZero() {
		<-w
		return
	}
	tm := time.NewTimer(time.Until(dl))
	select {
	case <-w:
	case <-tm.C:
	}
	tm.Stop()
}

func (c *c05MemConn) Read(b []byte) (int, error) {
	p := c.rd
	for {
		p.mu.Lock()
		if p.rclosed {
			p.mu.Unlock()
			return 0, net.ErrClosed
		}
		// like the net poller: an expired deadline wins over available data
		if !p.rdl.IsZero() && !time.Now().Before(p.rdl) {
			p.mu.Unlock()
			return 0, os.ErrDeadlineExceeded
		}
		if len(b) == 0 {
			p.mu.Unlock()
			return 0, nil
		}
		if len(p.buf) > 0 {
			n := copy(b, p.buf)
			p.buf = p.buf[n:]
			if len(p.buf) == 0 {
				p.buf = nil
			}
			last := c.eofWithData && p.buf == nil && p.wclosed
			p.bcast()
			p.mu.Unlock()
			if last {
				c.eofDataHits.Add(1)
				return n, io.EOF
			}
			return n, nil
		}
		if p.wclosed {
			p.mu.Unlock()
			return 0, io.EOF
		}
		w, dl := p.wake, p.rdl
		p.mu.Unlock()
		c05Wait(w, dl)
	}
}

func (c *c05MemConn) Write(b []byte) (int, error) { return c.write(b, false) }

// WriteFin writes b and shuts down the write side in one step, so that a reader can
// find the final bytes and the end of stream together.
func (c *c05MemConn) WriteFin(b []byte) (int, error) {
	c.cwCalls.Add(1)
	return c.write(b, true)
}

func (c *c05MemConn) write(b []byte, fin bool) (int, error) {
	p := c.wr
	written := 0
	for {
		p.mu.Lock()
		if p.wclosed {
			p.mu.Unlock()
			return written, net.ErrClosed
		}
		if p.rclosed {
			p.mu.Unlock()
			return written, io.ErrClosedPipe
		}
		if !p.wdl.IsZero() && !time.Now().Before(p.wdl) {
			p.mu.Unlock()
			return written, os.ErrDeadlineExceeded
		}
		if written == len(b) {
			if fin {
				p.wclosed = true
				p.bcast()
			}
			p.mu.Unlock()
			return written, nil
		}
		space := len(b) - written
		if p.limit > 0 {
			if free := p.limit - len(p.buf); free < space {
				space = free
			}
		}
		if space > 0 {
			p.buf = append(p.buf, b[written:written+space]...)
			written += space
			if fin && written == len(b) {
				p.wclosed = true
				p.bcast()
				p.mu.Unlock()
				return written, nil
			}
			p.bcast()
			p.mu.Unlock()
			continue
		}
		w, dl := p.wake, p.wdl
		p.mu.Unlock()
		c05Wait(w, dl)
	}
}

func (c *c05MemConn) CloseWrite() error {
	c.cwCalls.Add(1)
	p := c.wr
	p.mu.Lock()
	p.wclosed = true
	p.bcast()
	p.mu.Unlock()
	return nil
}

func (c *c05MemConn) Close() error {
	c.closeCalls.Add(1)
	c.wr.mu.Lock()
	c.wr.wclosed = true
	c.wr.bcast()
	c.wr.mu.Unlock()
	c.rd.mu.Lock()
	c.rd.rclosed = true
	c.rd.buf = nil
	c.rd.bcast()
	c.rd.mu.Unlock()
	return nil
}

func (c *c05MemConn) LocalAddr() net.Addr  { return c.laddr }
func (c *c05MemConn) RemoteAddr() net.Addr { return c.raddr }
func (c *c05MemConn) SetDeadline(t time.Time) error {
	_ = c.SetReadDeadline(t)
	return c.SetWriteDeadline(t)
}
func (c *c05MemConn) SetReadDeadline(t time.Time) error {
	c.rd.mu.Lock()
	c.rd.rdl = t
	c.rd.bcast()
	c.rd.mu.Unlock()
	return nil
}
func (c *c05MemConn) SetWriteDeadline(t time.Time) error {
	c.wr.mu.Lock()
	c.wr.wdl = t
	c.wr.bcast()
	c.wr.mu.Unlock()
	return nil
}

// c05OpaqueConn hides the concrete type of a connection (as a proxy protocol
// connection returned by a dialer does) but still offers CloseWrite.
type c05OpaqueConn struct{ net.Conn }

func (c *c05OpaqueConn) CloseWrite() error {
	if wc, ok := c.Conn.(WriteCloser); ok {
		return wc.CloseWrite()
	}
	return nil
}

// c05NoCWConn is a connection that cannot half-close: only the net.Conn methods are
// visible, so the relay's dir.dst.(WriteCloser) assertion fails (typical for proxied
// outbound connections).
type c05NoCWConn struct{ net.Conn }

// ---------------------------------------------------------------------------
// payloads
// ---------------------------------------------------------------------------

// c05Fill returns n position-dependent pseudo random bytes (xorshift64*), so that a
// lost, duplicated or reordered stretch never compares equal by accident. The seed
// is a rapid draw; this only expands it.
func c05Fill(seed uint64, n int) []byte {
	if seed == 0 {
		seed = 0x9e3779b97f4a7c15
	}
	out := make([]byte, n)
	x := seed
	for i := 0; i < n; i += 8 {
		x ^= x >> 12
		x ^= x << 25
		x ^= x >> 27
		v := x * 2685821657736338717
		for j := 0; j < 8 && i+j < n; j++ {
			out[i+j] = byte(v >> (8 * j))
		}
	}
	return out
}

// c05ClientHello builds a syntactically complete TLS ClientHello record carrying
// sni, padded (padding extension with non-zero content) to about total bytes.
func c05ClientHello(sni string, total int, seed uint64) []byte {
	name := []byte(sni)
	var exts []byte
	put16 := func(b []byte, v int) []byte { return append(b, byte(v>>8), byte(v)) }
	// server_name
	exts = put16(exts, 0)
	exts = put16(exts, len(name)+5)
	exts = put16(exts, len(name)+3)
	exts = append(exts, 0)
	exts = put16(exts, len(name))
	exts = append(exts, name...)
	sid := c05Fill(seed^1, 32)
	suites := []byte{0x13, 0x01, 0x13, 0x02, 0xc0, 0x2b, 0xc0, 0x2f}
	fixed := 5 + 4 + 2 + 32 + 1 + len(sid) + 2 + len(suites) + 2 + 2
	pad := total - fixed - len(exts) - 4
	if pad < 0 {
		pad = 0
	}
	if pad > 60000 {
		pad = 60000
	}
	exts = put16(exts, 21)
	exts = put16(exts, pad)
	exts = append(exts, c05Fill(seed^2, pad)...)
	var body []byte
	body = append(body, 0x03, 0x03)
	body = append(body, c05Fill(seed^3, 32)...)
	body = append(body, byte(len(sid)))
	body = append(body, sid...)
	body = put16(body, len(suites))
	body = append(body, suites...)
	body = append(body, 1, 0)
	body = put16(body, len(exts))
	body = append(body, exts...)
	hs := []byte{1, byte(len(body) >> 16), byte(len(body) >> 8), byte(len(body))}
	hs = append(hs, body...)
	rec := []byte{0x16, 0x03, 0x01}
	rec = put16(rec, len(hs))
	return append(rec, hs...)
}

func c05HTTPHead(method, host string, extra int, seed uint64) []byte {
	var b bytes.Buffer
	fmt.Fprintf(&b, "%s /p%x HTTP/1.1\r\nHost: %s\r\nUser-Agent: c05\r\n", method, seed&0xffff, host)
	if extra > 0 {
		fmt.Fprintf(&b, "X-Pad: %s\r\n", strings.Repeat("p", extra))
	}
	b.WriteString("\r\n")
	return b.Bytes()
}

var c05Methods = []string{"get", "post", "head", "put", "delete", "options", "patch", "connect", "trace"}

// c05MethodToken draws an HTTP method spelled in lower or mixed case (at least one
// lower-case letter): it passes handleConn's case-insensitive prefix gate.
func c05MethodToken(t *rapid.T) string {
	w := []byte(rapid.SampledFrom(c05Methods).Draw(t, "methodWord"))
	switch rapid.IntRange(0, 2).Draw(t, "methodCase") {
	case 1: // Title
		w[0] -= 32
	case 2: // mixed, last letter stays lower
		for i := 0; i < len(w)-1; i++ {
			if rapid.Bool().Draw(t, "methodUp") {
				w[i] -= 32
			}
		}
	}
	return string(w)
}

// c05MethodWordFlight: a non-HTTP protocol whose first token happens to be an HTTP
// method word (memcached `get key`, beanstalkd `put 0 0 10 5`), followed by protocol bytes.
func c05MethodWordFlight(t *rapid.T, seed uint64) []byte {
	tok := c05MethodToken(t)
	line := rapid.SampledFrom([]string{" key_%x\r\n", " 0 0 10 5\r\nhello\r\n", " k%x 0 0 3\r\nabc\r\n", " *\r\n"}).Draw(t, "wordArgs")
	if strings.Contains(line, "%x") {
		line = fmt.Sprintf(line, seed&0xffff)
	}
	out := append([]byte(tok+line), c05Fill(seed^0x4d, rapid.IntRange(16, 300).Draw(t, "wordBody"))...)
	return out
}

// DNS-over-TCP framed *response* (QR set): handleTCPDnsFastPath must decline it.
func c05DNSResponseFrame(seed uint64) []byte {
	m := new(dnsmessage.Msg)
	m.SetQuestion(fmt.Sprintf("h%x.example.", seed&0xffff), dnsmessage.TypeA)
	m.Response = true
	raw, err := m.Pack()
	if err != nil {
		panic(err)
	}
	out := make([]byte, 2+len(raw))
	binary.BigEndian.PutUint16(out, uint16(len(raw)))
	copy(out[2:], raw)
	return out
}

// A frame whose body cannot be unpacked: the first question name is a compression
// pointer to itself. (A bare 12-byte header would unpack: miekg/dns accepts it.)
func c05DNSGarbageFrame(n int, seed uint64) []byte {
	if n < 14 {
		n = 14
	}
	body := c05Fill(seed, n)
	body[2] |= 0x80 // also flagged a response
	body[4], body[5] = 0xff, 0xff
	body[12], body[13] = 0xc0, 0x0c
	if new(dnsmessage.Msg).Unpack(body) == nil {
		panic("c05: harness: garbage DNS frame unpacks")
	}
	out := make([]byte, 2+n)
	binary.BigEndian.PutUint16(out, uint16(n))
	copy(out[2:], body)
	return out
}

// ---------------------------------------------------------------------------
// scenario
// ---------------------------------------------------------------------------

const (
	c05OpWrite      = iota // write N bytes of the peer's payload
	c05OpSleep             // virtual sleep D (bubble runs only)
	c05OpWaitRelay         // wait until the relay phase has begun
	c05OpWaitRecv          // wait until this peer has received >= N bytes
	c05OpWaitEOF           // wait until this peer has observed end of stream
	c05OpCloseWrite        // shut down the write side
)

type c05Step struct {
	Op int
	N  int
	D  time.Duration
}

func (s c05Step) String() string {
	switch s.Op {
	case c05OpWrite:
		return fmt.Sprintf("w%d", s.N)
	case c05OpSleep:
		return "z" + s.D.String()
	case c05OpWaitRelay:
		return "relay?"
	case c05OpWaitRecv:
		return fmt.Sprintf("recv>=%d", s.N)
	case c05OpWaitEOF:
		return "eof?"
	default:
		return "FIN"
	}
}

const (
	c05StackPlain  = "plain"  // no probe at all (sniffing not applicable to the flow)
	c05StackPort53 = "port53" // DNS-over-TCP detection declined the flow -> bufioConn
	c05StackSniff  = "sniff"  // prefetch (+ ConnSniffer when the prefix looks like HTTP/TLS)
)

const (
	c05OpenPrompt = "prompt"      // client speaks at once, everything the probe needs arrives in its window
	c05OpenLate   = "late-first"  // client silent longer than the window, then speaks
	c05OpenSlow   = "slow-prefix" // partial prefix, pause longer than the window, rest
	c05OpenServer = "server-first"
)

const (
	c05CloseClient      = "client-first"
	c05CloseServer      = "server-first"
	c05CloseBoth        = "simultaneous"
	c05CloseClientNever = "client-never" // server half-closes, client finishes but never closes
	c05CloseServerNever = "server-never"
)

type c05Scn struct {
	Mem          bool   // in-memory connections in a synctest bubble, else loopback TCP
	HandleConn   bool   // drive (*ControlPlane).handleConn instead of the composed stack
	Stack        string // see c05Stack*
	V6           bool
	RightOpaque  bool
	MemLimit     int
	ReadChunk    [2]int // read sizes of client / upstream
	SniffT       time.Duration
	DnsT         time.Duration
	FirstKind    string
	Open         string
	Close        string
	First        int // length of the client's first flight inside C2U
	C2U, U2C     []byte
	CSteps       []c05Step
	SSteps       []c05Step
	Wrapped      bool // by construction the relay's left side is a wrapper without CloseWrite
	ProbeTO      bool // by construction a probe runs into its deadline with bytes pending (finding shapes)
	HeldPrefix   bool // by construction >=1 byte sits in a prefix buffer when the relay starts
	TailAfterFin bool // a side keeps sending after it has seen the other side's end of stream
	// in-memory runs: the dae-side end reading the client's / the upstream's stream hands
	// out the final bytes together with io.EOF; the client / upstream writes its last
	// segment and FIN in one step.
	EOFWithData [2]bool
	FinAtomic   [2]bool
	// in-memory runs: the relay's left / right connection does not implement CloseWrite.
	// The other side's FIN then cannot be passed on; the grace period still bounds the flow.
	NoCW [2]bool
	// loopback runs: SO_SNDBUF/SO_RCVBUF forced small on all four sockets (0 = kernel
	// default with autotuning), so that writes into the peer are partial and the copy
	// paths see back-pressure (EAGAIN in the middle of a splice/writev round).
	SockBuf int
	// Another client connection passes through dae's detection phase (same production
	// functions, shared buffer pools) between this connection's detection and the
	// start of its relay - during the dial. "" = none.
	Intruder string
}

func (s *c05Scn) Summary() map[string]any {
	st := func(x []c05Step) string {
		p := make([]string, 0, len(x))
		for i, e := range x {
			if i >= 40 {
				p = append(p, "...")
				break
			}
			p = append(p, e.String())
		}
		return strings.Join(p, " ")
	}
	return map[string]any{
		"mem": s.Mem, "handleConn": s.HandleConn, "stack": s.Stack, "v6": s.V6, "rightOpaque": s.RightOpaque,
		"memLimit": s.MemLimit, "readChunk": s.ReadChunk, "sniffTimeout": s.SniffT.String(), "dnsTimeout": s.DnsT.String(),
		"firstKind": s.FirstKind, "open": s.Open, "close": s.Close, "firstFlight": s.First,
		"c2u": len(s.C2U), "u2c": len(s.U2C), "client": st(s.CSteps), "upstream": st(s.SSteps),
		"wrapped": s.Wrapped, "probeTimeout": s.ProbeTO, "eofWithData": s.EOFWithData, "finAtomic": s.FinAtomic, "sockBuf": s.SockBuf, "noCloseWrite": s.NoCW, "intruder": s.Intruder,
	}
}

var c05SegSizes = []int{1, 1, 2, 3, 4, 5, 6, 15, 16, 17, 100, 517, 1460, 4096, 16384, 32767, 32768, 32769, 65536, 100000}

// c05Cuts splits [0,n) into write sizes; must lists offsets that get a cut when they
// fall inside (boundary aiming).
func c05Cuts(t *rapid.T, label string, n int, must []int) []int {
	if n == 0 {
		return nil
	}
	cut := map[int]bool{}
	for _, m := range must {
		if m > 0 && m < n && rapid.Bool().Draw(t, label+"_must") {
			cut[m] = true
		}
	}
	switch rapid.IntRange(0, 3).Draw(t, label+"_style") {
	case 0: // one write (plus the aimed cuts)
	case 1: // byte-wise head
		k := rapid.IntRange(1, 24).Draw(t, label+"_bytes")
		for i := 1; i <= k && i < n; i++ {
			cut[i] = true
		}
	default:
		pos := 0
		for len(cut) < 28 {
			pos += rapid.SampledFrom(c05SegSizes).Draw(t, label+"_sz")
			if pos >= n {
				break
			}
			cut[pos] = true
		}
	}
	var sizes []int
	last := 0
	for i := 1; i < n; i++ {
		if cut[i] {
			sizes = append(sizes, i-last)
			last = i
		}
	}
	return append(sizes, n-last)
}

func c05GenSize(t *rapid.T, label string, big bool) int {
	switch rapid.IntRange(0, 9).Draw(t, label+"_class") {
	case 0:
		return 0
	case 1, 2, 3:
		return rapid.IntRange(1, 64).Draw(t, label)
	case 4, 5, 6:
		return rapid.IntRange(65, 5000).Draw(t, label)
	case 7, 8:
		return rapid.IntRange(5001, 70000).Draw(t, label)
	default:
		if big {
			return rapid.IntRange(70001, 300<<10).Draw(t, label)
		}
		return rapid.IntRange(5001, 70000).Draw(t, label)
	}
}

// gaps used between body writes in bubble runs: around every window the code knows
// (sniff timeout, 5 s DNS detection, 10 s half-close grace, 60 s) and far beyond.
var c05IdleGaps = []time.Duration{time.Millisecond, 99 * time.Millisecond, 101 * time.Millisecond, 999 * time.Millisecond,
	4900 * time.Millisecond, 5100 * time.Millisecond, 9900 * time.Millisecond, 10100 * time.Millisecond, 61 * time.Second,
	11 * time.Minute, 3 * time.Hour}

type c05GenOpt struct {
	Mem        bool
	HandleConn bool
	KnownF6    bool // sniffer replays a stored timeout error (slow prefix cut)
	KnownDL    bool // DNS-detection read deadline stays armed on port 53 flows
	KnownCW    bool // wrapper stacks do not pass the upstream's FIN on to the client
	KnownDR    bool // a well-formed DNS message that is not a query is consumed by the detection and lost
	ForcePlain bool // plain *net.TCPConn on both sides of the relay (splice path), no wrapper
	Big        bool
}

// c05GenScn draws one scenario. Everything random is a rapid draw.
func c05GenScn(t *rapid.T, o c05GenOpt, excludedCase func(id string)) *c05Scn {
	s := &c05Scn{Mem: o.Mem, HandleConn: o.HandleConn}
	seenEx := map[string]bool{}
	excluded := func(id string) { // once per case
		if !seenEx[id] {
			seenEx[id] = true
			excludedCase(id)
		}
	}
	stacks := []string{c05StackPlain, c05StackSniff, c05StackSniff, c05StackSniff}
	if o.Mem || !o.HandleConn {
		// port 53 needs the accepted socket's local port to be 53: in-memory addresses,
		// or the composed stack (which does not look at addresses).
		stacks = append(stacks, c05StackPort53, c05StackPort53)
	}
	s.Stack = rapid.SampledFrom(stacks).Draw(t, "stack")
	s.V6 = rapid.Bool().Draw(t, "v6")
	s.RightOpaque = rapid.IntRange(0, 3).Draw(t, "rightOpaque") == 0
	if o.ForcePlain {
		s.Stack, s.RightOpaque = c05StackPlain, false
	}
	if !o.Mem {
		s.SockBuf = rapid.SampledFrom([]int{0, 0, 4096, 16384, 65536}).Draw(t, "sockBuf")
	}
	if o.Mem {
		s.MemLimit = rapid.SampledFrom([]int{0, 0, 1, 7, 4096, 65536}).Draw(t, "memLimit")
		s.EOFWithData = [2]bool{rapid.Bool().Draw(t, "eofWithDataL"), rapid.Bool().Draw(t, "eofWithDataR")}
		s.FinAtomic = [2]bool{rapid.Bool().Draw(t, "finAtomicC"), rapid.Bool().Draw(t, "finAtomicS")}
		s.NoCW = [2]bool{rapid.IntRange(0, 3).Draw(t, "noCloseWriteL") == 0, rapid.IntRange(0, 3).Draw(t, "noCloseWriteR") == 0}
	}
	s.Intruder = rapid.SampledFrom([]string{"", "", "random", "tls", "http", "dns-too-small"}).Draw(t, "intruder")
	chunks := []int{1, 3, 512, 4096, 65536, 65536}
	s.ReadChunk = [2]int{rapid.SampledFrom(chunks).Draw(t, "crd"), rapid.SampledFrom(chunks).Draw(t, "srd")}
	s.DnsT = TCPDNSFirstReadTimeout
	if o.Mem {
		s.SniffT = rapid.SampledFrom([]time.Duration{100 * time.Millisecond, 100 * time.Millisecond, 30 * time.Millisecond, time.Second}).Draw(t, "sniffT")
	} else {
		// loopback: a probe either ends by data (window far away) or by its deadline
		// (window short, the client demonstrably waits for the relay) — never a race.
		s.SniffT = time.Hour
		s.DnsT = time.Hour
	}
	shortWindows := func() {
		if !s.Mem {
			s.SniffT, s.DnsT = 30*time.Millisecond, 30*time.Millisecond
		}
	}

	// ---- opening
	opens := []string{c05OpenPrompt, c05OpenPrompt, c05OpenPrompt, c05OpenServer}
	if s.Stack != c05StackPlain {
		opens = append(opens, c05OpenLate, c05OpenSlow)
	}
	s.Open = rapid.SampledFrom(opens).Draw(t, "open")
	if s.Stack == c05StackPort53 && s.Open != c05OpenPrompt && o.KnownDL {
		// every way of running into the 5 s DNS window leaves an expired deadline behind
		excluded("F-C05-1")
		s.Open = c05OpenPrompt
	}
	if s.Stack == c05StackSniff && s.Open == c05OpenSlow && o.KnownF6 {
		excluded("F6")
		s.Open = c05OpenPrompt
	}
	if s.Open != c05OpenPrompt {
		shortWindows()
	}
	seed := rapid.Uint64().Draw(t, "seed")
	var first []byte
	var must []int
	slowCut := 0 // bytes of the first flight sent before the long pause (slow-prefix)
	switch s.Stack {
	case c05StackPort53:
		kinds := []string{"dns-too-small", "dns-response", "dns-garbage", "dns-oversize", "dns-length-edge", "tls", "method-word"}
		if s.Open == c05OpenSlow {
			kinds = []string{"dns-one-byte", "dns-short-frame", "ssh-banner", "tls-short"}
		}
		s.FirstKind = rapid.SampledFrom(kinds).Draw(t, "firstKind")
		if s.FirstKind == "dns-response" && o.KnownDR {
			excluded("F-C05-3")
			s.FirstKind = "dns-garbage"
		}
		switch s.FirstKind {
		case "dns-too-small":
			first = append([]byte{0, byte(rapid.IntRange(0, 11).Draw(t, "smallLen"))}, c05Fill(seed, rapid.IntRange(0, 40).Draw(t, "smallTail"))...)
			must = []int{1, 2}
		case "dns-response":
			first = c05DNSResponseFrame(seed)
			must = []int{1, 2, 3, 14, len(first) - 1}
		case "dns-garbage":
			first = c05DNSGarbageFrame(rapid.IntRange(14, 1500).Draw(t, "garbageLen"), seed)
			must = []int{1, 2, 3, len(first) - 1}
		case "dns-oversize": // declared length beyond bufio's 4096: ErrBufferFull once 4096 bytes are in
			first = c05DNSGarbageFrame(rapid.IntRange(4095, 9000).Draw(t, "oversize"), seed)
			must = []int{1, 2, 4095, 4096, 4097}
		case "dns-length-edge": // declared frame length at the edges of the 16-bit field and of bufio's 4096-byte buffer
			edges := []int{0xffff, 0xfffe, 0xfffd, 0x8000, 0x7fff, 4097, 4096, 4095}
			if o.Mem {
				// frames that fit the 4096-byte buffer make the detection wait for the rest
				// (up to its 5 s window): virtual clock only, loopback runs stay short
				edges = append(edges, 4094, 4093)
			}
			declared := rapid.SampledFrom(edges).Draw(t, "edgeLen")
			first = make([]byte, 2, 2+5000)
			binary.BigEndian.PutUint16(first, uint16(declared))
			first = append(first, c05Fill(seed, rapid.IntRange(0, 5000).Draw(t, "edgeTail"))...)
			if len(first) >= 16 {
				first[4] |= 0x80 // QR=1 should the frame be complete: never a query dae would answer itself
				first[6], first[7] = 0xff, 0xff
			}
			must = []int{1, 2, 3}
		case "method-word": // two letters as a length: far beyond the buffer
			first = c05MethodWordFlight(t, seed)
			must = []int{1, 2, 3, 4, 16, 17}
		case "tls": // 0x1603 = 5635 > 4096
			first = c05ClientHello("c05.example", rapid.IntRange(4200, 6000).Draw(t, "helloLen"), seed)
			must = []int{1, 2, 5, 4096}
		case "dns-one-byte":
			first = c05DNSResponseFrame(seed)
			slowCut = 1
		case "dns-short-frame":
			first = c05DNSGarbageFrame(rapid.IntRange(40, 900).Draw(t, "garbageLen"), seed)
			slowCut = rapid.IntRange(2, len(first)-1).Draw(t, "slowCut")
		case "ssh-banner":
			first = []byte("SSH-2.0-OpenSSH_9.6\r\n")
			slowCut = len(first)
		case "tls-short":
			first = c05ClientHello("c05.example", rapid.IntRange(200, 1800).Draw(t, "helloLen"), seed)
			slowCut = len(first)
		}
	case c05StackSniff:
		kinds := []string{"tls", "tls", "http", "random", "tls-bad", "http-nohost", "http-lower", "method-word", "method-word"}
		if s.Open == c05OpenSlow {
			kinds = []string{"tls", "tls", "http-short"}
		}
		s.FirstKind = rapid.SampledFrom(kinds).Draw(t, "firstKind")
		switch s.FirstKind {
		case "tls":
			sz := rapid.SampledFrom([]int{180, 517, 1503, 2900, 4091, 4096, 4200, 9000}).Draw(t, "helloLen")
			first = c05ClientHello(fmt.Sprintf("h%x.c05.example", seed&0xfff), sz, seed)
			must = []int{1, 2, 3, 4, 5, 6, 15, 16, 17, 100, len(first) - 1}
			if s.Open == c05OpenSlow {
				slowCut = rapid.SampledFrom([]int{1, 4, 5, 6, 16, 17, 100, len(first) - 1}).Draw(t, "slowCut")
			}
		case "tls-bad": // looks like TLS to the prefix gate, the sniffer rejects it
			first = c05ClientHello("x.c05.example", 300, seed)
			first[5] = 2 // not a ClientHello
			must = []int{1, 5, 16, 17}
		case "http":
			first = c05HTTPHead(rapid.SampledFrom([]string{"GET", "POST", "CONNECT", "OPTIONS"}).Draw(t, "method"),
				fmt.Sprintf("h%x.c05.example", seed&0xfff), rapid.SampledFrom([]int{0, 10, 600, 5000}).Draw(t, "hpad"), seed)
			must = []int{1, 3, 4, 15, 16, 17, len(first) - 2, len(first) - 1}
		case "http-nohost":
			first = []byte("GET / HTTP/1.0\r\nAccept: */*\r\n\r\n")
			must = []int{4, 16, 17}
		case "http-lower": // a real HTTP head whose method is spelled in lower / mixed case
			first = c05HTTPHead(c05MethodToken(t), fmt.Sprintf("h%x.c05.example", seed&0xfff), rapid.SampledFrom([]int{0, 10, 600}).Draw(t, "hpad"), seed)
			must = []int{1, 3, 4, 7, 8, 15, 16, 17, len(first) - 1}
		case "method-word":
			first = c05MethodWordFlight(t, seed)
			must = []int{1, 3, 4, 7, 8, 15, 16, 17}
		case "http-short": // whole first flight fits the 16-byte prefetch
			first = []byte(rapid.SampledFrom([]string{"GET /\r\n", "get k\r\n", "put 0 0 1 1\r\n", "Head /\r\n"}).Draw(t, "shortFlight"))
			slowCut = len(first)
		case "random":
			first = c05Fill(seed, rapid.IntRange(1, 600).Draw(t, "rndLen"))
			first[0] = byte(rapid.IntRange(0, 15).Draw(t, "rnd0")) // neither 0x16 nor a letter
			must = []int{1, 15, 16, 17}
		}
	default:
		s.FirstKind = rapid.SampledFrom([]string{"tls", "http", "random", "none", "http-lower", "method-word"}).Draw(t, "firstKind")
		switch s.FirstKind {
		case "http-lower":
			first = c05HTTPHead(c05MethodToken(t), "p.c05.example", 0, seed)
		case "method-word":
			first = c05MethodWordFlight(t, seed)
		case "tls":
			first = c05ClientHello("p.c05.example", 517, seed)
		case "http":
			first = c05HTTPHead("GET", "p.c05.example", 0, seed)
		case "random":
			first = c05Fill(seed, rapid.IntRange(1, 600).Draw(t, "rndLen"))
		}
		must = []int{1, 16, 17}
	}
	s.First = len(first)
	capN := func(n int) int { // tiny socket buffers: enough for many partial rounds, not minutes of them
		switch {
		case s.SockBuf > 0 && s.SockBuf <= 4096:
			return min(n, 48<<10)
		case s.SockBuf > 0 && s.SockBuf <= 16384:
			return min(n, 128<<10)
		}
		return n
	}
	tail := c05Fill(seed^0xabcdef, capN(c05GenSize(t, "c2uTail", o.Big)))
	s.C2U = append(append([]byte{}, first...), tail...)
	s.U2C = c05Fill(seed^0x123457, capN(c05GenSize(t, "u2c", o.Big)))

	window := s.SniffT
	if s.Stack == c05StackPort53 {
		window = s.DnsT
	}
	over := func(label string) time.Duration { // a pause that certainly outlasts the window(s)
		return 2*window + rapid.SampledFrom([]time.Duration{time.Millisecond, time.Second, time.Minute}).Draw(t, label)
	}
	var cs []c05Step
	gate := func(label string) { // "longer than the window": virtual sleep, or wait for the relay on loopback
		if s.Mem {
			cs = append(cs, c05Step{Op: c05OpSleep, D: over(label)})
		} else {
			cs = append(cs, c05Step{Op: c05OpWaitRelay})
		}
	}
	within := window // remaining budget for pauses inside the first flight (bubble)
	if s.Stack == c05StackPort53 && o.KnownDL {
		within = time.Second
	}
	pause := func(label string) {
		if !s.Mem || within <= 4*time.Millisecond || rapid.IntRange(0, 2).Draw(t, label+"_p") != 0 {
			return
		}
		d := time.Duration(rapid.Int64Range(1, int64(within/2-1)).Draw(t, label))
		within -= d
		cs = append(cs, c05Step{Op: c05OpSleep, D: d})
	}
	firstSegs := func(from, to int, label string) {
		var m []int
		for _, x := range must {
			m = append(m, x-from)
		}
		for i, n := range c05Cuts(t, label, to-from, m) {
			if i > 0 {
				pause(label + "_gap")
			}
			cs = append(cs, c05Step{Op: c05OpWrite, N: n})
		}
	}
	switch s.Open {
	case c05OpenPrompt:
		if rapid.IntRange(0, 3).Draw(t, "lead") == 0 {
			pause("leadPause")
		}
		firstSegs(0, len(first), "first")
	case c05OpenLate:
		gate("late")
		firstSegs(0, len(first), "first")
	case c05OpenSlow:
		firstSegs(0, slowCut, "slowA")
		gate("slow")
		firstSegs(slowCut, len(first), "slowB")
	case c05OpenServer:
		need := 1
		if len(s.U2C) == 0 {
			s.U2C = c05Fill(seed^0x77, rapid.IntRange(1, 200).Draw(t, "greeting"))
		}
		cs = append(cs, c05Step{Op: c05OpWaitRecv, N: need})
		firstSegs(0, len(first), "first")
	}
	switch {
	case s.Stack == c05StackPort53:
		s.Wrapped = true
		s.ProbeTO = s.Open != c05OpenPrompt
		s.HeldPrefix = s.Open == c05OpenPrompt || s.Open == c05OpenSlow
	case s.Stack == c05StackSniff:
		s.Wrapped = len(first) > 0 && (s.Open == c05OpenPrompt || s.Open == c05OpenSlow)
		s.ProbeTO = s.Open == c05OpenSlow
		s.HeldPrefix = s.Wrapped
	}

	// ---- bodies and closing
	s.Close = rapid.SampledFrom([]string{c05CloseClient, c05CloseClient, c05CloseServer, c05CloseServer, c05CloseBoth}).Draw(t, "close")
	if s.Mem && rapid.IntRange(0, 4).Draw(t, "never") == 0 {
		if s.Stack == c05StackPort53 && o.KnownDL {
			excluded("F-C05-1") // the armed 5 s deadline would end the flow before the 10 s grace does
		} else {
			s.Close = rapid.SampledFrom([]string{c05CloseClientNever, c05CloseServerNever}).Draw(t, "neverWho")
		}
	}
	port53Budget := 3 * time.Second // with the armed 5 s deadline known, keep port-53 flows shorter than it
	idle := func(label string) (c05Step, bool) {
		if !s.Mem || rapid.IntRange(0, 2).Draw(t, label+"_has") != 0 {
			return c05Step{}, false
		}
		d := rapid.SampledFrom(c05IdleGaps).Draw(t, label)
		if s.Stack == c05StackPort53 && o.KnownDL {
			if d > port53Budget/2 {
				d = port53Budget / 2
				excluded("F-C05-1")
			}
			if d <= 0 {
				return c05Step{}, false
			}
			port53Budget -= d
		}
		return c05Step{Op: c05OpSleep, D: d}, true
	}
	grace := func(label string) (c05Step, bool) { // a pause strictly inside the half-close grace period
		if !s.Mem || rapid.Bool().Draw(t, label+"_has") {
			return c05Step{}, false
		}
		d := rapid.SampledFrom([]time.Duration{time.Millisecond, time.Second, 4900 * time.Millisecond, 9900 * time.Millisecond}).Draw(t, label)
		if !(s.Stack == c05StackPort53 && o.KnownDL) && rapid.IntRange(0, 7).Draw(t, label+"_edge") == 0 {
			// at and around the expiry: the model says what is due
			return c05Step{Op: c05OpSleep, D: relayHalfCloseTimeout + rapid.SampledFrom([]time.Duration{-time.Millisecond, -1, 0, 1, time.Millisecond, time.Minute}).Draw(t, label+"_edgeD")}, true
		}
		if s.Stack == c05StackPort53 && o.KnownDL {
			if d > port53Budget/2 {
				d = port53Budget / 2
			}
			if d <= 0 {
				return c05Step{}, false
			}
			port53Budget -= d
		}
		return c05Step{Op: c05OpSleep, D: d}, true
	}
	cRest := len(s.C2U) - len(first)
	cTail, sTail := 0, 0 // bytes held back until the peer's end of stream has been seen
	firstCloser := "client"
	switch s.Close {
	case c05CloseServer, c05CloseClientNever:
		firstCloser = "server"
	case c05CloseBoth:
		firstCloser = ""
	}
	if firstCloser == "client" && len(s.U2C) > 0 {
		sTail = rapid.IntRange(0, len(s.U2C)).Draw(t, "sTail")
		if s.Open == c05OpenServer && sTail == len(s.U2C) {
			sTail = len(s.U2C) - 1 // the greeting must come before
		}
	}
	// A "slow" opening whose long pause comes after the whole first flight (banner, then
	// silence): the pause may or may not be spent inside a probe, so nobody may half-close
	// before the client is past it — otherwise the pause alone outlasts the 10 s grace
	// period the statement grants, and the relay may rightfully end the flow (at an
	// instant that can even tie with the client's own FIN). The first closer therefore
	// waits for a byte written after the pause; if there is none, the client closes first.
	gateAtEnd := s.Open == c05OpenSlow && slowCut == len(first)
	if gateAtEnd && cRest == 0 && firstCloser != "client" {
		if s.Close == c05CloseClientNever {
			s.Close = c05CloseServerNever
		} else {
			s.Close = c05CloseClient
		}
		firstCloser = "client"
		if len(s.U2C) > 0 {
			sTail = rapid.IntRange(0, len(s.U2C)).Draw(t, "sTail")
		}
	}
	if firstCloser == "server" && cRest > 0 {
		hi := cRest
		if gateAtEnd {
			hi = cRest - 1 // keep >= 1 body byte after the pause for the upstream to wait for
		}
		cTail = rapid.IntRange(0, hi).Draw(t, "cTail")
	}
	cBody := c05Cuts(t, "cBody", cRest-cTail, nil)
	sBody := c05Cuts(t, "sBody", len(s.U2C)-sTail, nil)
	// the second closer may still be writing when the first one closes: the first
	// closer waits only for the peer's body up to segment j; later segments have no gaps.
	var ss []c05Step
	if s.Open != c05OpenServer && len(first) > 0 && rapid.Bool().Draw(t, "reqresp") {
		ss = append(ss, c05Step{Op: c05OpWaitRecv, N: rapid.IntRange(1, len(first)).Draw(t, "reqN")})
	}
	build := func(dst *[]c05Step, body []int, label string, gapsUpTo int) (cum []int) {
		n := 0
		for i, sz := range body {
			if i < gapsUpTo || gapsUpTo < 0 {
				if st, ok := idle(label + "_idle"); ok {
					*dst = append(*dst, st)
				}
			}
			*dst = append(*dst, c05Step{Op: c05OpWrite, N: sz})
			n += sz
			cum = append(cum, n)
		}
		return
	}
	closeSecond := func(dst *[]c05Step, tailN int, wrappedNoEOF bool, all int, never bool, label string) {
		if wrappedNoEOF {
			// known: the client is not told about the upstream's FIN; it goes on once it
			// has everything the upstream sent.
			*dst = append(*dst, c05Step{Op: c05OpWaitRecv, N: all})
		} else {
			*dst = append(*dst, c05Step{Op: c05OpWaitEOF})
		}
		budget := relayHalfCloseTimeout - 50*time.Millisecond
		if tailN > 0 {
			s.TailAfterFin = true
		}
		for _, sz := range c05Cuts(t, label+"_tail", tailN, nil) {
			if st, ok := grace(label + "_grace"); ok && (st.D < budget || st.D >= relayHalfCloseTimeout-time.Millisecond) {
				budget -= st.D // an edge pause (at/after the expiry) uses the budget up
				*dst = append(*dst, st)
			}
			*dst = append(*dst, c05Step{Op: c05OpWrite, N: sz})
		}
		if !never {
			if st, ok := grace(label + "_graceFin"); ok && (st.D < budget || st.D >= relayHalfCloseTimeout-time.Millisecond) {
				*dst = append(*dst, st)
			}
			*dst = append(*dst, c05Step{Op: c05OpCloseWrite})
		}
	}
	switch firstCloser {
	case "client":
		// upstream: body with gaps only before segment j, then tail after EOF
		jDraw := rapid.IntRange(0, len(sBody)).Draw(t, "sGapUpTo")
		sCum := build(&ss, sBody, "sBody", jDraw)
		build(&cs, cBody, "cBody", -1)
		base := 0
		if jDraw > 0 {
			base = sCum[jDraw-1]
		}
		if base > 0 {
			cs = append(cs, c05Step{Op: c05OpWaitRecv, N: base})
		}
		if st, ok := idle("cPreFin"); ok {
			cs = append(cs, st)
		}
		cs = append(cs, c05Step{Op: c05OpCloseWrite})
		closeSecond(&ss, sTail, false, 0, s.Close == c05CloseServerNever, "s2")
	case "server":
		jLo := 0
		if gateAtEnd {
			jLo = 1
		}
		jDraw := rapid.IntRange(jLo, len(cBody)).Draw(t, "cGapUpTo")
		cCum := build(&cs, cBody, "cBody", jDraw)
		build(&ss, sBody, "sBody", -1)
		base := len(first)
		if jDraw > 0 {
			base += cCum[jDraw-1]
		}
		ss = append(ss, c05Step{Op: c05OpWaitRecv, N: base})
		noEOF := s.Wrapped && o.KnownCW
		if noEOF {
			// the client cannot be gated on the FIN it is not told about; keep the two
			// closes within one grace period of each other instead.
			excluded("F-C05-2")
		} else if st, ok := idle("sPreFin"); ok {
			ss = append(ss, st)
		}
		ss = append(ss, c05Step{Op: c05OpCloseWrite})
		closeSecond(&cs, cTail, noEOF, len(s.U2C), s.Close == c05CloseClientNever, "c2")
	default:
		// simultaneous: both just finish and close. The half-close grace bounds how long
		// the slower side may take after the faster one closed, so gaps stay small here.
		build(&cs, cBody, "cBody", 0)
		build(&ss, sBody, "sBody", 0)
		if len(first) > 0 {
			// (a client that is slow to start must not find the grace period already running)
			n := len(first)
			if gateAtEnd {
				n++ // cRest > 0 here
			}
			ss = append(ss, c05Step{Op: c05OpWaitRecv, N: n})
		}
		cs = append(cs, c05Step{Op: c05OpCloseWrite})
		ss = append(ss, c05Step{Op: c05OpCloseWrite})
	}
	s.CSteps, s.SSteps = cs, ss
	// byte-wise reading of a large payload only costs time
	minChunk := 0
	if n := max(len(s.C2U), len(s.U2C)); n > 64<<10 {
		minChunk = 4096
	} else if n > 8<<10 {
		minChunk = 512
	}
	for i := range s.ReadChunk {
		s.ReadChunk[i] = max(s.ReadChunk[i], minChunk)
	}
	if s.MemLimit > 0 && s.MemLimit < minChunk {
		s.MemLimit = minChunk // a 1-byte pipe under 300 KiB is 300 000 goroutine hand-overs
	}
	return s
}

// ---------------------------------------------------------------------------
// peers (client and upstream)
// ---------------------------------------------------------------------------

type c05WriteEv struct {
	at  time.Time
	end int // cumulative bytes of the payload covered once this write is done
}

type c05Peer struct {
	wr        []c05WriteEv
	finAtomic bool
	name      string
	conn      net.Conn
	send      []byte
	steps     []c05Step
	chunk     int

	mu      sync.Mutex
	recv    []byte
	eof     bool
	eofAt   time.Time
	rerr    error
	rerrAt  time.Time
	wake    chan struct{}
	sent    int
	werr    error
	finAt   time.Time // when this peer shut down its write side
	finDone bool
	lastWr  time.Time
	aborted string
}

func (p *c05Peer) bcast() { close(p.wake); p.wake = make(chan struct{}) }

func (p *c05Peer) reader(done chan<- struct{}) {
	defer close(done)
	buf := make([]byte, p.chunk)
	for {
		n, err := p.conn.Read(buf)
		p.mu.Lock()
		if n > 0 {
			p.recv = append(p.recv, buf[:n]...)
		}
		if err != nil {
			if err == io.EOF {
				p.eof, p.eofAt = true, time.Now()
			} else {
				p.rerr, p.rerrAt = err, time.Now()
			}
		}
		p.bcast()
		p.mu.Unlock()
		if err != nil {
			return
		}
	}
}

// waitFor blocks until cond (evaluated under p.mu) holds; false when the run is torn
// down or the stream ended without the condition becoming true.
func (p *c05Peer) waitFor(stop <-chan struct{}, cond func() bool) bool {
	for {
		p.mu.Lock()
		ok := cond()
		ended := p.eof || p.rerr != nil
		w := p.wake
		p.mu.Unlock()
		if ok {
			return true
		}
		if ended {
			return false
		}
		select {
		case <-w:
		case <-stop:
			return false
		}
	}
}

func (p *c05Peer) script(mem bool, stop, relayStarted <-chan struct{}, done chan<- struct{}) {
	defer close(done)
	for i, st := range p.steps {
		select {
		case <-stop:
			p.aborted = "stopped"
			return
		default:
		}
		switch st.Op {
		case c05OpWrite:
			var n int
			var err error
			p.mu.Lock()
			p.wr = append(p.wr, c05WriteEv{at: time.Now(), end: p.sent + st.N})
			p.mu.Unlock()
			if mc, ok := p.conn.(*c05MemConn); ok && p.finAtomic && i+1 < len(p.steps) && p.steps[i+1].Op == c05OpCloseWrite {
				p.mu.Lock()
				p.finAt, p.finDone = time.Now(), true
				p.mu.Unlock()
				n, err = mc.WriteFin(p.send[p.sent : p.sent+st.N])
			} else {
				n, err = p.conn.Write(p.send[p.sent : p.sent+st.N])
			}
			p.mu.Lock()
			p.sent += n
			p.lastWr = time.Now()
			p.mu.Unlock()
			if err != nil {
				p.mu.Lock()
				p.werr = fmt.Errorf("step %d write(%d): wrote %d: %w", i, st.N, n, err)
				p.mu.Unlock()
				return
			}
		case c05OpSleep:
			if mem {
				tm := time.NewTimer(st.D)
				select {
				case <-tm.C:
				case <-stop:
					tm.Stop()
					p.aborted = "stopped"
					return
				}
			}
		case c05OpWaitRelay:
			select {
			case <-relayStarted:
			case <-stop:
				p.aborted = "stopped"
				return
			}
		case c05OpWaitRecv:
			if !p.waitFor(stop, func() bool { return len(p.recv) >= st.N }) {
				p.aborted = fmt.Sprintf("step %d: stream ended before %d bytes were received", i, st.N)
				return
			}
		case c05OpWaitEOF:
			if !p.waitFor(stop, func() bool { return p.eof }) {
				p.aborted = fmt.Sprintf("step %d: no end of stream observed", i)
				return
			}
		case c05OpCloseWrite:
			p.mu.Lock()
			already := p.finDone // done together with the last write
			if !already {
				p.finAt, p.finDone = time.Now(), true
			}
			p.mu.Unlock()
			if already {
				continue
			}
			if wc, ok := p.conn.(WriteCloser); ok {
				_ = wc.CloseWrite()
			}
		}
	}
}

// ---------------------------------------------------------------------------
// the dae side: composed stack, or handleConn
// ---------------------------------------------------------------------------

type c05Dae struct {
	relayStarted chan struct{}
	startOnce    sync.Once
	startAt      time.Time
	stackKind    string // what the relay got as its left side
	dnsErr       error
	dnsHandled   bool
	prefetched   int
	sniffErr     error
	domain       string
	relayErr     error
	endAt        time.Time
	up, down     atomic.Int64
	dialed       atomic.Int32
	panicked     string
	intruded     bool
}

func (d *c05Dae) markStart() {
	d.startOnce.Do(func() { d.startAt = time.Now(); close(d.relayStarted) })
}

// c05Composed builds the relay's left side exactly as handleConn does (tcp.go
// 144-218), by calling the same production functions in the same order, then relays.
func (d *c05Dae) composed(s *c05Scn, lConn net.Conn, rConn netproxy.Conn) {
	defer func() { _ = rConn.Close() }()
	lRelayConn, cleanup, ok := d.buildLeft(s, lConn)
	defer cleanup()
	d.markStart()
	if !ok {
		d.endAt = time.Now()
		return
	}
	d.intrude(s) // handleConn dials here
	d.relayErr = RelayTCPContextWithRecords(context.Background(), lRelayConn, rConn,
		func(n int64) { d.down.Add(n) }, func(n int64) { d.up.Add(n) })
	d.endAt = time.Now()
}

// buildLeft is handleConn's wiring of the client side between accept and dial
// (tcp.go 144-218): the same production functions, in the same order.
func (d *c05Dae) buildLeft(s *c05Scn, lConn net.Conn) (lRelayConn netproxy.Conn, cleanup func(), ok bool) {
	var closers []func()
	cleanup = func() {
		for i := len(closers) - 1; i >= 0; i-- {
			closers[i]()
		}
	}
	closers = append(closers, func() { _ = lConn.Close() })
	d.stackKind = "conn"
	if s.Stack == c05StackPort53 {
		bufReader := bufio.NewReader(lConn)
		msg, _, err := readDnsMsgFromBufio(bufReader, s.DnsT, lConn)
		d.dnsErr = err
		if err == nil && !msg.Response {
			d.dnsHandled = true // a query: DNS fast path territory, not a relay
			return nil, cleanup, false
		}
		lConn = &bufioConn{Conn: lConn, reader: bufReader}
		d.stackKind = "bufioConn"
	}
	lRelayConn = lConn
	if s.Stack == c05StackSniff {
		probeConn, prefetched, ready, probeErr := prefetchForTcpSniff(lConn, s.SniffT, tcpSniffPrefetchBytes)
		if probeErr != nil {
			d.relayErr = probeErr
			return nil, cleanup, false
		}
		d.prefetched = len(prefetched)
		switch {
		case !ready:
			lRelayConn = probeConn
		case !isLikelyHttpOrTLSPrefix(prefetched):
			lRelayConn = probeConn
			d.stackKind = "prefixedConn"
		default:
			sniffer := sniffing.NewConnSniffer(probeConn, s.SniffT)
			closers = append(closers, func() { _ = sniffer.Close() })
			lRelayConn = sniffer
			d.stackKind = "ConnSniffer"
			d.domain, d.sniffErr = sniffer.SniffTcp()
		}
	}
	return lRelayConn, cleanup, true
}

type c05Dialer struct {
	d    *c05Dae
	conn netproxy.Conn
	s    *c05Scn
}

func (f *c05Dialer) DialContext(context.Context, string, string) (netproxy.Conn, error) {
	f.d.dialed.Add(1)
	f.d.markStart()
	if f.s != nil {
		f.d.intrude(f.s)
	}
	return f.conn, nil
}

// intrude lets a second client connection go through the detection phase (port-53
// peek or sniff prefetch + sniffer, the production functions of buildLeft) and go
// away again, while the connection under test sits between its own detection and
// its relay. Whatever the first connection retained (prefix, sniffer buffer) must
// be its own copy: the intruder's bytes are all 0xEE-patterned and recognisable.
func (d *c05Dae) intrude(s *c05Scn) {
	if s.Intruder == "" {
		return
	}
	var first []byte
	stack := c05StackSniff
	switch s.Intruder {
	case "tls":
		first = c05ClientHello("intruder.c05.example", 600, 0xeeee)
	case "http":
		first = c05HTTPHead("GET", "intruder.c05.example", 0, 0xee)
	case "dns-too-small":
		stack = c05StackPort53
		first = append([]byte{0, 7}, bytes.Repeat([]byte{0xee}, 64)...)
	default:
		first = bytes.Repeat([]byte{0xee}, 96)
		first[0] = 0x01
	}
	a, b := net.Pipe()
	wdone := make(chan struct{})
	go func() {
		defer close(wdone)
		_, _ = b.Write(first)
		_ = b.Close()
	}()
	s2 := &c05Scn{Stack: stack, SniffT: time.Hour, DnsT: time.Hour}
	d2 := &c05Dae{}
	lr, cleanup, ok := d2.buildLeft(s2, a)
	if ok && lr != nil {
		// the intruder's relay would now read its stream back out of the wrappers
		_, _ = io.Copy(io.Discard, lr)
	}
	cleanup()
	<-wdone
	d.intruded = true
}

type c05NoDomains struct{}

func (c05NoDomains) AddSet(int, []string, consts.RoutingDomainKey) {}
func (c05NoDomains) Build() error                                  { return nil }
func (c05NoDomains) MatchDomainBitmap(string) []uint32             { return nil }

func c05Logger() *logrus.Logger {
	l := logrus.New()
	l.SetOutput(io.Discard)
	l.SetLevel(logrus.PanicLevel)
	return l
}

// c05ControlPlane is the smallest ControlPlane on which handleConn runs: no eBPF
// objects (routing tuple lookup misses -> userspace routing), one fallback rule to
// one user group with one fake dialer.
func c05ControlPlane(s *c05Scn, dialer netproxy.Dialer) (*ControlPlane, *componentdialer.Dialer) {
	log := c05Logger()
	gopt := &componentdialer.GlobalOption{Log: log, CheckInterval: time.Hour}
	dd := componentdialer.NewDialer(dialer, gopt, componentdialer.InstanceOption{DisableCheck: true}, &componentdialer.Property{})
	group := ob.NewDialerGroup(gopt, "c05", []*componentdialer.Dialer{dd}, []*componentdialer.Annotation{{}},
		ob.DialerSelectionPolicy{Policy: consts.DialerSelectionPolicy_Fixed, FixedIndex: 0},
		func(bool, *componentdialer.NetworkType, bool) {})
	outbounds := make([]*ob.DialerGroup, int(consts.OutboundUserDefinedMin)+1)
	outbounds[consts.OutboundUserDefinedMin] = group
	cp := &ControlPlane{
		log: log,
		controlPlaneGenerationState: controlPlaneGenerationState{
			outbounds: outbounds,
			dialMode:  consts.DialMode_DomainPlus,
			routingMatcher: &RoutingMatcher{
				domainMatcher:   c05NoDomains{},
				compiledMatches: []compiledRoutingMatch{{matchType: consts.MatchType_Fallback, outbound: consts.OutboundUserDefinedMin}},
			},
		},
		soMarkFromDae:   0x100,
		sniffingTimeout: s.SniffT,
	}
	if s.Stack == c05StackPlain {
		cp.dialMode = consts.DialMode_Ip // sniffing not applicable
	}
	return cp, dd
}

func (d *c05Dae) viaHandleConn(s *c05Scn, lConn net.Conn, rConn netproxy.Conn) {
	cp, dd := c05ControlPlane(s, &c05Dialer{d: d, conn: rConn, s: s})
	defer func() { _ = dd.Close() }()
	d.stackKind = "handleConn"
	d.relayErr = cp.handleConn(context.Background(), lConn)
	d.markStart()
	d.endAt = time.Now()
}

// ---------------------------------------------------------------------------
// one run
// ---------------------------------------------------------------------------

type c05Conns struct {
	client, left, right, upstream net.Conn
	cleanup                       func()
}

type c05Result struct {
	s        *c05Scn
	dae      *c05Dae
	cli, srv *c05Peer
	t0       time.Time
	hung     bool
	conns    *c05Conns
}

// c05Execute runs the scenario on the given connections and returns the raw
// observations. wait(done, d) must block until done is closed or d elapsed (virtual
// or real) and report whether done was closed.
func c05Execute(s *c05Scn, cn *c05Conns, limit time.Duration) *c05Result {
	d := &c05Dae{relayStarted: make(chan struct{})}
	stop := make(chan struct{})
	cli := &c05Peer{name: "client", conn: cn.client, send: s.C2U, steps: s.CSteps, chunk: s.ReadChunk[0], wake: make(chan struct{})}
	cli.finAtomic = s.FinAtomic[0]
	srv := &c05Peer{finAtomic: s.FinAtomic[1], name: "upstream", conn: cn.upstream, send: s.U2C, steps: s.SSteps, chunk: s.ReadChunk[1], wake: make(chan struct{})}
	res := &c05Result{s: s, dae: d, cli: cli, srv: srv, conns: cn, t0: time.Now()}
	var right netproxy.Conn = cn.right
	if s.NoCW[1] {
		right = &c05NoCWConn{Conn: cn.right}
	} else if s.RightOpaque {
		right = &c05OpaqueConn{Conn: cn.right}
	}
	left := cn.left
	if s.NoCW[0] {
		left = &c05NoCWConn{Conn: cn.left}
	}
	daeDone := make(chan struct{})
	go func() {
		defer close(daeDone)
		defer func() {
			if r := recover(); r != nil {
				d.panicked = fmt.Sprintf("%v\n%s", r, debug.Stack())
				d.markStart()
				d.endAt = time.Now()
				// the production code died: nobody will close its two sockets, so
				// release the peers instead of waiting for the case limit.
				_ = cn.left.Close()
				_ = cn.right.Close()
			}
		}()
		if s.HandleConn {
			d.viaHandleConn(s, left, right)
		} else {
			d.composed(s, left, right)
		}
	}()
	dones := []chan struct{}{make(chan struct{}), make(chan struct{}), make(chan struct{}), make(chan struct{})}
	go cli.reader(dones[0])
	go srv.reader(dones[1])
	go cli.script(s.Mem, stop, d.relayStarted, dones[2])
	go srv.script(s.Mem, stop, d.relayStarted, dones[3])
	all := make(chan struct{})
	go func() {
		<-daeDone
		for _, c := range dones {
			<-c
		}
		close(all)
	}()
	tm := time.NewTimer(limit)
	select {
	case <-all:
		tm.Stop()
	case <-tm.C:
		res.hung = true
	}
	// tear down: unblocks whatever is left (nothing, unless hung)
	close(stop)
	_ = cn.client.Close()
	_ = cn.upstream.Close()
	_ = cn.left.Close()
	_ = cn.right.Close()
	<-all
	return res
}

// ---------------------------------------------------------------------------
// oracle
// ---------------------------------------------------------------------------

func c05Diverge(got, want []byte) string {
	n := len(got)
	if len(want) < n {
		n = len(want)
	}
	for i := 0; i < n; i++ {
		if got[i] != want[i] {
			return fmt.Sprintf("first divergence at offset %d (got 0x%02x want 0x%02x), got %d bytes, sent %d", i, got[i], want[i], len(got), len(want))
		}
	}
	return fmt.Sprintf("no divergence in the common prefix; got %d bytes, sent %d", len(got), len(want))
}

type c05Verdict struct {
	// loopback only: the case could not be judged without depending on real time
	inconclusive string
	fail         string
	classes      []string
	nt           bool
}

func c05IsTimeout(err error) bool {
	var ne net.Error
	return err != nil && (errors.Is(err, os.ErrDeadlineExceeded) || errors.Is(err, context.DeadlineExceeded) || (errors.As(err, &ne) && ne.Timeout()))
}

// c05Judge applies the property to the observations. exact enables the virtual-time
// assertions (bubble runs only).
func c05Judge(r *c05Result, o c05GenOpt, exact bool) c05Verdict {
	s, d := r.s, r.dae
	var v c05Verdict
	cls := func(c string) { v.classes = append(v.classes, c) }
	cls("stack_" + s.Stack)
	cls("left_" + d.stackKind)
	cls("open_" + s.Open)
	cls("close_" + s.Close)
	cls("first_" + s.FirstKind)
	if s.RightOpaque {
		cls("right_opaque")
	}
	if d.intruded {
		cls("intruder_" + s.Intruder + "_between_detection_and_relay")
	}
	if l, ok := r.conns.left.(*c05MemConn); ok && l.eofDataHits.Load() > 0 {
		cls("eof_with_data_from_client_side")
	}
	if rc, ok := r.conns.right.(*c05MemConn); ok && rc.eofDataHits.Load() > 0 {
		cls("eof_with_data_from_upstream_side")
	}
	if d.domain != "" {
		cls("sniffed_domain")
	}
	if d.sniffErr != nil {
		switch {
		case c05IsTimeout(d.sniffErr):
			cls("sniff_timeout")
		case errors.Is(d.sniffErr, sniffing.ErrNotFound):
			cls("sniff_notfound")
		case errors.Is(d.sniffErr, sniffing.ErrNotApplicable):
			cls("sniff_notapplicable")
		default:
			cls("sniff_othererr")
		}
	}
	if d.dnsErr != nil {
		if c05IsTimeout(d.dnsErr) {
			cls("dns_probe_timeout")
		} else {
			cls("dns_probe_declined")
		}
	}
	if len(s.C2U) > 32<<10 || len(s.U2C) > 32<<10 {
		cls("payload_gt32k")
	}
	failf := func(f string, a ...any) c05Verdict {
		v.fail = fmt.Sprintf(f, a...) + fmt.Sprintf("\nscenario: %v\nobserved: left=%s dnsErr=%v prefetched=%d sniffErr=%v domain=%q relayErr=%v relayStart=+%v relayEnd=+%v\nclient: sent %d/%d recv %d eof=%v(+%v) rerr=%v werr=%v aborted=%q\nupstream: sent %d/%d recv %d eof=%v(+%v) rerr=%v werr=%v aborted=%q",
			s.Summary(), d.stackKind, d.dnsErr, d.prefetched, d.sniffErr, d.domain, d.relayErr, d.startAt.Sub(r.t0), d.endAt.Sub(r.t0),
			r.cli.sent, len(s.C2U), len(r.cli.recv), r.cli.eof, r.cli.eofAt.Sub(r.t0), r.cli.rerr, r.cli.werr, r.cli.aborted,
			r.srv.sent, len(s.U2C), len(r.srv.recv), r.srv.eof, r.srv.eofAt.Sub(r.t0), r.srv.rerr, r.srv.werr, r.srv.aborted)
		return v
	}
	hardFailf := failf
	// Loopback runs use the real clock, and the relay's 10 s half-close grace is real
	// time there. No verdict may depend on how fast the machine is, so (loopback only):
	//  - if the relay ended >= 10 s after the harness sent the first FIN, a grace expiry
	//    may have cut the slower direction rightfully (the relay sees the FIN no earlier
	//    than it was sent, so a rightful cut always satisfies this inequality on the
	//    monotonic clock): everything except stream integrity is INCONCLUSIVE;
	//  - the watchdog that ends a case which does not finish is INCONCLUSIVE as well.
	// The timing rules themselves are asserted exactly on the virtual clock instead.
	if !exact {
		var firstFin time.Time
		for _, p := range []*c05Peer{r.cli, r.srv} {
			if p.finDone && (firstFin.IsZero() || p.finAt.Before(firstFin)) {
				firstFin = p.finAt
			}
		}
		graceMaybe := !firstFin.IsZero() && d.endAt.Sub(firstFin) >= relayHalfCloseTimeout
		failf = func(f string, a ...any) c05Verdict {
			switch {
			case r.hung:
				v.inconclusive = "watchdog"
			case graceMaybe:
				v.inconclusive = "realtime_grace"
			default:
				return hardFailf(f, a...)
			}
			v.classes = append(v.classes, "inconclusive_"+v.inconclusive)
			return v
		}
	}
	if d.panicked != "" {
		return hardFailf("panic on the relay path: %s", d.panicked)
	}
	if d.dnsHandled {
		cls("dns_query_consumed")
		return v
	}
	// integrity, unconditionally: what arrived is a prefix of what was sent
	if !bytes.HasPrefix(s.C2U, r.srv.recv) {
		return hardFailf("client->upstream stream altered: %s", c05Diverge(r.srv.recv, s.C2U))
	}
	if !bytes.HasPrefix(s.U2C, r.cli.recv) {
		return hardFailf("upstream->client stream altered: %s", c05Diverge(r.cli.recv, s.U2C))
	}
	if r.hung {
		return failf("the connection neither completed nor was torn down (hang)")
	}
	// harmless detection: the relay phase begins within the detection window(s)
	if exact {
		var bound time.Duration
		switch s.Stack {
		case c05StackPort53:
			bound = s.DnsT
		case c05StackSniff:
			bound = 2 * s.SniffT // prefetch window, then the sniffer's own window
		}
		if s.HandleConn {
			bound += time.Duration(tcpRoutingLookupRetryAttempts) * tcpRoutingLookupRetryDelay
		}
		if got := d.startAt.Sub(r.t0); got > bound {
			return failf("relay began %v after accept, detection window allows %v", got, bound)
		}
	}
	// The grace model (virtual clock only). Once one direction has ended — its source's
	// FIN seen by the relay at T1 = max(FIN, relay start) — the statement promises the
	// opposite direction only "the relay's bounded grace period": bytes the other side
	// writes strictly before D = T1 + grace must arrive; what it writes (or its FIN) at
	// or after D may be cut, and the relay then ends at exactly D. Everything else is
	// the healthy-connection oracle.
	maxT := func(a, b time.Time) time.Time {
		if a.After(b) {
			return a
		}
		return b
	}
	reqC, reqS := len(s.C2U), len(s.U2C) // bytes of the client's / the upstream's stream that must arrive
	lateC, lateS := false, false         // that side acted at/after D (or never closed)
	var graceEnd time.Time
	if exact {
		tc, ts := maxT(r.cli.finAt, d.startAt), maxT(r.srv.finAt, d.startAt)
		before := func(p *c05Peer, lim time.Time) int {
			n := 0
			for _, ev := range p.wr {
				if ev.at.Before(lim) {
					n = ev.end
				}
			}
			return n
		}
		switch {
		case r.cli.finDone && (!r.srv.finDone || !tc.After(ts)):
			graceEnd = tc.Add(relayHalfCloseTimeout)
			if !r.srv.finDone || !ts.Before(graceEnd) {
				lateS, reqS = true, before(r.srv, graceEnd)
			}
		case r.srv.finDone:
			graceEnd = ts.Add(relayHalfCloseTimeout)
			if !r.cli.finDone || !tc.Before(graceEnd) {
				lateC, reqC = true, before(r.cli, graceEnd)
			}
		}
		if lateC || lateS {
			cls("grace_expired_on_slow_side")
		}
	}
	if len(r.srv.recv) < reqC {
		return failf("client->upstream truncated (%d bytes were due): %s", reqC, c05Diverge(r.srv.recv, s.C2U))
	}
	if len(r.cli.recv) < reqS {
		return failf("upstream->client truncated (%d bytes were due): %s", reqS, c05Diverge(r.cli.recv, s.U2C))
	}
	if (r.cli.werr != nil && !lateC) || (r.srv.werr != nil && !lateS) {
		return failf("a peer's write failed on a healthy connection")
	}
	if (r.cli.aborted != "" && !lateC) || (r.srv.aborted != "" && !lateS) {
		return failf("a peer could not finish its script")
	}
	// half-close is passed on as end of stream (not as an error)
	never := s.Close == c05CloseClientNever || s.Close == c05CloseServerNever
	if !exact && !never {
		if !r.srv.eof {
			return failf("upstream did not observe end of stream after the client shut down its write side (err %v)", r.srv.rerr)
		}
		if !r.cli.eof && !(s.Wrapped && o.KnownCW) {
			return failf("client did not observe end of stream after the upstream shut down its write side (err %v)", r.cli.rerr)
		}
	}
	if !s.HandleConn {
		if got := d.up.Load(); got != int64(len(r.srv.recv)) {
			return failf("upload recorder counted %d bytes, %d were relayed", got, len(r.srv.recv))
		}
		if got := d.down.Load(); got != int64(len(r.cli.recv)) {
			return failf("download recorder counted %d bytes, %d were relayed", got, len(r.cli.recv))
		}
	}
	if s.HandleConn && s.Mem {
		if l := r.conns.left.(*c05MemConn); l.closeCalls.Load() == 0 {
			return failf("handleConn returned without closing the client connection")
		}
		if rc := r.conns.right.(*c05MemConn); rc.closeCalls.Load() == 0 {
			return failf("handleConn returned without closing the upstream connection")
		}
	}
	if s.NoCW[0] {
		cls("left_without_CloseWrite")
	}
	if s.NoCW[1] {
		cls("right_without_CloseWrite")
	}
	if exact {
		endOf := func(p *c05Peer) time.Time {
			if p.eof {
				return p.eofAt
			}
			return p.rerrAt
		}
		wantEnd := maxT(maxT(r.cli.finAt, r.srv.finAt), d.startAt)
		if lateC || lateS {
			wantEnd = graceEnd
		}
		// a FIN inside the model reaches the other side, as end of stream, at the instant
		// that is possible; a side that is cut by the grace expiry sees its stream end then.
		// Where the relay's destination cannot half-close, the FIN cannot be passed on:
		// that side's stream ends when the relay ends (grace expiry, or both FINs seen).
		if r.cli.finDone && !lateC {
			want := maxT(r.cli.finAt, d.startAt)
			if s.NoCW[1] {
				if !endOf(r.srv).Equal(wantEnd) {
					return failf("right side cannot half-close: upstream's stream ended at +%v, expected the relay's end at +%v", endOf(r.srv).Sub(r.t0), wantEnd.Sub(r.t0))
				}
			} else if !r.srv.eof || !r.srv.eofAt.Equal(want) {
				return failf("upstream saw the client's end of stream at +%v (eof=%v err=%v), expected +%v", r.srv.eofAt.Sub(r.t0), r.srv.eof, r.srv.rerr, want.Sub(r.t0))
			}
		}
		if r.srv.finDone && !lateS && !(s.Wrapped && o.KnownCW) {
			want := maxT(r.srv.finAt, d.startAt)
			if s.NoCW[0] {
				if !endOf(r.cli).Equal(wantEnd) {
					return failf("left side cannot half-close: client's stream ended at +%v, expected the relay's end at +%v", endOf(r.cli).Sub(r.t0), wantEnd.Sub(r.t0))
				}
			} else if !r.cli.eof || !r.cli.eofAt.Equal(want) {
				return failf("client saw the upstream's end of stream at +%v (eof=%v err=%v), expected +%v", r.cli.eofAt.Sub(r.t0), r.cli.eof, r.cli.rerr, want.Sub(r.t0))
			}
		}
		if lateC && !endOf(r.srv).Equal(graceEnd) {
			return failf("the client did not finish inside the grace period that ended at +%v, but the upstream's read side ended at +%v", graceEnd.Sub(r.t0), endOf(r.srv).Sub(r.t0))
		}
		if lateS && !endOf(r.cli).Equal(graceEnd) && !(s.Wrapped && o.KnownCW) {
			return failf("the upstream did not finish inside the grace period that ended at +%v, but the client's read side ended at +%v", graceEnd.Sub(r.t0), endOf(r.cli).Sub(r.t0))
		}
		// the half-close grace period is the only bounded wait
		if lateC || lateS {
			if !d.endAt.Equal(graceEnd) {
				return failf("relay ended at +%v; one side half-closed and the other did not finish in time: expected the grace period to end at +%v", d.endAt.Sub(r.t0), graceEnd.Sub(r.t0))
			}
		} else {
			last := maxT(maxT(r.cli.finAt, r.srv.finAt), d.startAt)
			if !d.endAt.Equal(last) {
				return failf("relay ended at +%v, both sides had closed by +%v", d.endAt.Sub(r.t0), last.Sub(r.t0))
			}
		}
	}
	tailAfterFin := s.TailAfterFin
	if s.HeldPrefix && (d.stackKind == "bufioConn" || d.stackKind == "prefixedConn" || d.stackKind == "ConnSniffer" || s.HandleConn) {
		cls("held_prefix")
		v.nt = true
	}
	if tailAfterFin {
		cls("data_after_halfclose")
		v.nt = true
	}
	return v
}

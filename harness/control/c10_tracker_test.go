package control

// C10 level (a): the tracker alone. Histories of syncOwner(owner, snapshot) and
// removals (syncOwner with an empty snapshot, exactly what
// BatchRemoveDomainRouting issues) over 5 owners × 6 addresses × the bitmap
// vocabulary, with a nil map: the batches are seen through the verif observer.

import (
	"fmt"
	"sort"
	"strings"
	"testing"

	"pgregory.net/rapid"
)

var c10TrackerOwners = []string{
	"a.example.1",
	"a.example.28",
	"a.example.1|upstream@udp://8.8.8.8:53",
	"b.example.1",
	"cdn.example.28|asis@9.9.9.9:53",
}

func c10DrawKeySubset(t *rapid.T, label string, pool []c10Key, allowEmpty bool) map[c10Key]struct{} {
	out := map[c10Key]struct{}{}
	for i, k := range pool {
		if rapid.IntRange(0, 2).Draw(t, fmt.Sprintf("%s_%d", label, i)) == 0 {
			out[k] = struct{}{}
		}
	}
	if len(out) == 0 && !allowEmpty && len(pool) > 0 {
		out[pool[rapid.IntRange(0, len(pool)-1).Draw(t, label+"_one")]] = struct{}{}
	}
	return out
}

func c10SetString(s map[c10Key]struct{}) string {
	var as []string
	for k := range s {
		as = append(as, c10KeyString(k))
	}
	sort.Strings(as)
	return "[" + strings.Join(as, " ") + "]"
}

func TestC10_Tracker(t *testing.T) {
	const unit = "C10.tracker"
	six := c10SixKeys()
	rapid.Check(t, func(t *rapid.T) {
		shadow := c10NewShadow()
		verifSetHooks(&verifHooks{DomainRoutingSync: shadow.observe})
		defer verifSetHooks(nil)

		tr := newDomainRoutingTracker()
		// model: what each owner last synced (owners with nothing to contribute
		// are simply not live).
		model := map[string]c10Owner{}
		var hist []string
		classes := map[string]bool{}
		nt := false
		m := c10TryRealMap(unit)
		if m != nil {
			defer m.Close()
			if rapid.Bool().Draw(t, "per_element_fallback") {
				c10ForceBatchMode(true)
				classes["real_map_per_element_fallback"] = true
			} else {
				c10ForceBatchMode(false)
				classes["real_map_kernel_batch_api"] = true
			}
		}

		apply := func(owner string, bmName string, bm bpfDomainRouting, ips map[c10Key]struct{}, op string) {
			before := make(map[string]c10Owner, len(model))
			for k, v := range model {
				before[k] = v
			}
			snap := domainRoutingOwnerSnapshot{bitmap: bm}
			if len(ips) > 0 {
				snap.ips = make(map[c10Key]struct{}, len(ips))
				for k := range ips {
					snap.ips[k] = struct{}{}
				}
			}
			hist = append(hist, fmt.Sprintf("%s(%s,%s,%s)", op, owner, bmName, c10SetString(ips)))
			if err := tr.syncOwner(m, owner, snap); err != nil {
				t.Fatalf("syncOwner(%q) failed: %v", owner, err)
			}
			if len(ips) == 0 {
				delete(model, owner)
			} else {
				o := c10Owner{bitmap: bm, addrs: map[c10Key]bool{}}
				for k := range ips {
					o.addrs[k] = true
				}
				model[owner] = o
			}
			if c10IsZero(bm) && len(ips) > 0 {
				classes["zero_bitmap_with_addrs"] = true
			}
			if !c10IsZero(bm) && len(ips) == 0 && op == "sync" {
				classes["bitmap_without_addrs"] = true
			}
			partial, removed := c10Shrank(before, model)
			if partial {
				classes["owner_shrank"] = true
				nt = true
			}
			if removed {
				classes["owner_removed"] = true
				nt = true
			}
			if c10SharedDiff(model) {
				classes["shared_addr_diff_bitmaps"] = true
				nt = true
			}
		}

		drawOwner := func() string { return rapid.SampledFrom(c10TrackerOwners).Draw(t, "owner") }
		liveOwner := func() (string, bool) {
			var live []string
			for k := range model {
				live = append(live, k)
			}
			if len(live) == 0 {
				return "", false
			}
			sort.Strings(live)
			return rapid.SampledFrom(live).Draw(t, "live_owner"), true
		}

		t.Repeat(map[string]func(*rapid.T){
			"sync": func(t *rapid.T) {
				name, bm := c10DrawBitmap(t, "bitmap")
				apply(drawOwner(), name, bm, c10DrawKeySubset(t, "ip", six, true), "sync")
			},
			"remove": func(t *rapid.T) {
				apply(drawOwner(), "zero", bpfDomainRouting{}, nil, "remove")
			},
			"remove_live": func(t *rapid.T) {
				o, ok := liveOwner()
				if !ok {
					t.Skip("no live owner")
				}
				apply(o, "zero", bpfDomainRouting{}, nil, "remove")
			},
			// same owner, same bitmap, strict subset of its addresses.
			"shrink": func(t *rapid.T) {
				o, ok := liveOwner()
				if !ok || len(model[o].addrs) < 2 {
					t.Skip("nothing to shrink")
				}
				var cur []c10Key
				for _, k := range six {
					if model[o].addrs[k] {
						cur = append(cur, k)
					}
				}
				drop := rapid.IntRange(0, len(cur)-1).Draw(t, "drop")
				ips := map[c10Key]struct{}{}
				for i, k := range cur {
					if i != drop && (rapid.Bool().Draw(t, "keep") || len(ips) == 0) {
						ips[k] = struct{}{}
					}
				}
				bmName := "same"
				apply(o, bmName, model[o].bitmap, ips, "shrink")
			},
			// same owner, same addresses, other bitmap.
			"rebit": func(t *rapid.T) {
				o, ok := liveOwner()
				if !ok {
					t.Skip("no live owner")
				}
				ips := map[c10Key]struct{}{}
				for k := range model[o].addrs {
					ips[k] = struct{}{}
				}
				name, bm := c10DrawBitmap(t, "bitmap")
				apply(o, name, bm, ips, "rebit")
			},
			// another owner joins an address that is already in the table.
			"join": func(t *rapid.T) {
				o, ok := liveOwner()
				if !ok {
					t.Skip("no live owner")
				}
				var cur []c10Key
				for _, k := range six {
					if model[o].addrs[k] {
						cur = append(cur, k)
					}
				}
				if len(cur) == 0 {
					t.Skip("owner lists nothing")
				}
				ips := c10DrawKeySubset(t, "ip", six, true)
				ips[cur[rapid.IntRange(0, len(cur)-1).Draw(t, "shared")]] = struct{}{}
				name, bm := c10DrawBitmap(t, "bitmap")
				apply(drawOwner(), name, bm, ips, "join")
			},
			"empty_owner_key": func(t *rapid.T) {
				before := shadow.snapshot()
				if err := tr.syncOwner(m, "", domainRoutingOwnerSnapshot{bitmap: c10Bits(0), ips: map[c10Key]struct{}{six[0]: {}}}); err == nil {
					t.Fatalf("syncOwner with an empty owner key did not fail")
				}
				after := shadow.snapshot()
				if len(before) != len(after) {
					t.Fatalf("a rejected syncOwner changed the table")
				}
				hist = append(hist, "empty_owner_key")
			},
			"": func(t *rapid.T) {
				if errs := shadow.takeErrs(); len(errs) > 0 {
					t.Fatalf("bad batch after %v:\n%s", hist, strings.Join(errs, "\n"))
				}
				if d := c10Compare(shadow.snapshot(), model); d != "" {
					t.Fatalf("table does not mirror the owners after %d steps\nhistory: %v\nlive owners:\n%s%s", len(hist), hist, c10OwnersString(model), d)
				}
				if m != nil {
					real, err := c10DumpReal(m)
					if err != nil {
						t.Fatalf("harness: dump of the real map: %v", err)
					}
					if d := c10Compare(real, model); d != "" {
						t.Fatalf("the kernel map does not mirror the owners after %d steps\nhistory: %v\nlive owners:\n%s%s", len(hist), hist, c10OwnersString(model), d)
					}
				}
			},
		})

		key := ""
		if nt {
			key = strings.Join(hist, ";")
		}
		cl := make([]string, 0, len(classes))
		for c := range classes {
			cl = append(cl, c)
		}
		sort.Strings(cl)
		vkCase(unit, key, func() any {
			return map[string]any{"history": hist}
		}, cl...)
	})
}

package control

// Deterministic reproductions of the findings that belong to C09.
//
//   F4       no path compares the question of an upstream answer with the request.
//   F-C09-1  evictIdleDnsForwarders closes an idle forwarder without marking the cached
//            entry retired, so a holder of the entry can still begin an operation on it.
//
// While a finding is listed as known the test asserts that it still reproduces (and
// reports it); once it is no longer listed the test asserts the correct behaviour.

import (
	"context"
	"net/netip"
	"strings"
	"testing"
	"testing/synctest"
	"time"

	"github.com/daeuniverse/dae/common/consts"
	componentdialer "github.com/daeuniverse/dae/component/outbound/dialer"
	dnsmessage "github.com/miekg/dns"
)

// c09F4Controller: one client asks a.c09.test/A; the upstream answers b.c09.test/A under
// the right ID. Returns a description of what went wrong ("" if dae behaved).
func c09F4Controller(t *testing.T) (bad []string) {
	env, err := c09NewCtlEnv("udp")
	if err != nil {
		t.Fatalf("harness: %v", err)
	}
	defer env.teardown()
	mk := func(idx int, id uint16) *c09Client {
		cl := &c09Client{idx: idx, name: "a.c09.test.", lname: "a.c09.test.", qtype: dnsmessage.TypeA, id: id,
			realDst: netip.MustParseAddrPort("192.0.2.53:53"), w: &c09Writer{}}
		m := new(dnsmessage.Msg)
		m.Id = id
		m.RecursionDesired = true
		m.Question = []dnsmessage.Question{{Name: cl.name, Qtype: cl.qtype, Qclass: dnsmessage.ClassINET}}
		cl.msg = m
		return cl
	}
	first := mk(0, 0x1234)
	env.startClient(first)
	synctest.Wait()
	parked := env.w.parked()
	if len(parked) != 1 {
		t.Fatalf("harness: expected one parked upstream call, have %d", len(parked))
	}
	env.w.release(parked[0], c09Action{kind: c09ActForeign, ansKind: c09AnsAddr, respID: parked[0].req.Id,
		foreign: dnsmessage.Question{Name: "b.c09.test.", Qtype: dnsmessage.TypeA, Qclass: dnsmessage.ClassINET}})
	synctest.Wait()
	if d, _ := first.isDone(); !d {
		t.Fatalf("harness: first client did not finish")
	}
	if err := c09CheckClientReplies(first); err != nil {
		bad = append(bad, "reply to the asking client: "+firstLine(err.Error()))
	}
	env.c.dnsCache.Range(func(k, v any) bool {
		for _, rr := range v.(*DnsCache).Answer {
			if err := c09CheckRR(rr, "a.c09.test.", dnsmessage.TypeA); err != nil {
				bad = append(bad, "cache key "+k.(string)+": "+firstLine(err.Error()))
			}
		}
		return true
	})
	// a second client, later: is it served the foreign records from the cache?
	second := mk(1, 0x2222)
	before := len(env.w.calls)
	env.startClient(second)
	synctest.Wait()
	if d, _ := second.isDone(); d && len(env.w.calls) == before {
		if err := c09CheckClientReplies(second); err != nil {
			bad = append(bad, "later client served from the cache: "+firstLine(err.Error()))
		}
	}
	return bad
}

func firstLine(s string) string {
	if i := strings.IndexByte(s, '\n'); i >= 0 {
		return s[:i]
	}
	return s
}

// c09F4UDP: real DoUDP, one pooled socket. Request 0 (a.c09.test, ID 7) times out;
// its answer arrives late; request 1 (b.c09.test, ID 7) borrows the same socket.
func c09F4UDP(t *testing.T) (bad []string) {
	reqs := []*c09TReq{
		{idx: 0, name: "a.c09.test.", qtype: dnsmessage.TypeA, id: 7, timeout: 2 * time.Second},
		{idx: 1, name: "b.c09.test.", qtype: dnsmessage.TypeA, id: 7, timeout: 2 * time.Second},
	}
	for _, r := range reqs {
		r.data = c09BuildQuery(r.idx, r.name, r.qtype, r.id)
	}
	nw := &c09UDPNet{reqs: reqs, target: netip.MustParseAddrPort("10.9.0.1:53")}
	d := &DoUDP{
		dialArgument: dialArgument{l4proto: consts.L4ProtoStr_UDP, ipversion: consts.IpVersionStr_4, bestTarget: nw.target},
		profile: UdpLifecycleProfile{Kind: UdpLifecycleKindDnsTransactional, HealthDomain: componentdialer.UdpHealthDomainDns,
			PooledConnIdleTTL: dnsUdpDirectPoolMaxIdleTime},
		pool: newUdpConnPool(1, 1, nw.dial),
	}
	defer func() { _ = d.Close() }()
	c09StartTReq(reqs[0], d)
	synctest.Wait()
	time.Sleep(3 * time.Second) // request 0 times out, the socket goes back to the pool
	synctest.Wait()
	if !reqs[0].isDone() || len(nw.sent) != 1 {
		t.Fatalf("harness: request 0 should have timed out")
	}
	late := c09BuildAnswer(nw.sent[0].msg.Question[0], 7, c09AnsAddr)
	raw, _ := late.Pack()
	c := nw.sent[0].conn
	c.mu.Lock()
	c.queue = append(c.queue, c09Dgram{raw: raw, id: 7})
	c.mu.Unlock()
	c09StartTReq(reqs[1], d)
	synctest.Wait()
	time.Sleep(3 * time.Second)
	synctest.Wait()
	if !reqs[1].isDone() {
		t.Fatalf("harness: request 1 did not return")
	}
	if len(nw.sent) == 2 && nw.sent[1].conn != c {
		return nil // socket was not reused: shape not reached
	}
	if err := c09CheckTReqResult(reqs[1], true, true); err != nil {
		bad = append(bad, "DoUDP, late answer on a reused socket: "+firstLine(err.Error()))
	}
	return bad
}

// c09F4TCP: real DoTCP. Request 0 is answered; the server sends the same answer a second
// time while request 1 (another name) holds the re-used pipeline ID.
func c09F4TCP(t *testing.T) (bad []string) {
	reqs := []*c09TReq{
		{idx: 0, name: "a.c09.test.", qtype: dnsmessage.TypeA, id: 7, timeout: 2 * time.Second},
		{idx: 1, name: "b.c09.test.", qtype: dnsmessage.TypeA, id: 8, timeout: 2 * time.Second},
	}
	for _, r := range reqs {
		r.data = c09BuildQuery(r.idx, r.name, r.qtype, r.id)
	}
	nw := &c09TCPNet{reqs: reqs}
	d := &DoTCP{dialArgument: dialArgument{l4proto: consts.L4ProtoStr_TCP, ipversion: consts.IpVersionStr_4, bestTarget: netip.MustParseAddrPort("10.9.0.1:53")}}
	d.getOrInit(func() *connPool { return newConnPool(1, nw.dial) })
	defer func() { _ = d.Close() }()
	c09StartTReq(reqs[0], d)
	synctest.Wait()
	nw.collect()
	if len(nw.frames) != 1 {
		t.Fatalf("harness: expected one frame, have %d", len(nw.frames))
	}
	f0 := nw.frames[0]
	ans := c09BuildAnswer(f0.msg.Question[0], f0.msg.Id, c09AnsAddr)
	raw, _ := ans.Pack()
	f0.conn.send(raw)
	synctest.Wait()
	if !reqs[0].isDone() || reqs[0].err != nil {
		t.Fatalf("harness: request 0 should have been answered: %v", reqs[0].err)
	}
	c09StartTReq(reqs[1], d)
	synctest.Wait()
	nw.collect()
	if len(nw.frames) != 2 {
		t.Fatalf("harness: expected two frames, have %d", len(nw.frames))
	}
	if nw.frames[1].msg.Id != f0.msg.Id || nw.frames[1].conn != f0.conn {
		return nil // the pipeline ID was not reused: shape not reached
	}
	f0.conn.send(raw) // the duplicate
	synctest.Wait()
	time.Sleep(3 * time.Second)
	synctest.Wait()
	if !reqs[1].isDone() {
		t.Fatalf("harness: request 1 did not return")
	}
	if err := c09CheckTReqResult(reqs[1], false, true); err != nil {
		bad = append(bad, "DoTCP pipeline, duplicated answer on a reused ID: "+firstLine(err.Error()))
	}
	return bad
}

func TestC09_Finding_F4(tt *testing.T) {
	var bad []string
	synctest.Test(tt, func(t *testing.T) {
		c09ResetGlobals()
		bad = append(bad, c09F4Controller(t)...)
	})
	synctest.Test(tt, func(t *testing.T) {
		c09ResetGlobals()
		bad = append(bad, c09F4UDP(t)...)
	})
	synctest.Test(tt, func(t *testing.T) {
		c09ResetGlobals()
		bad = append(bad, c09F4TCP(t)...)
	})
	if vkKnown("F4") {
		if len(bad) > 0 {
			vkKnownReproduced("F4")
			tt.Logf("known finding F4 still reproduces:\n  %s", strings.Join(bad, "\n  "))
		} else {
			tt.Logf("known finding F4 no longer reproduces on this tree")
		}
		vkCase("C09.finding", "F4", nil, "F4")
		return
	}
	if len(bad) > 0 {
		tt.Fatalf("C09 violated (an upstream answer to a different question reached a client / the cache):\n  %s", strings.Join(bad, "\n  "))
	}
	vkCase("C09.finding", "F4", nil, "F4")
}

func TestC09_Finding_F_C09_1(tt *testing.T) {
	const id = "F-C09-1"
	var reproduced bool
	var detail string
	synctest.Test(tt, func(t *testing.T) {
		c09ResetGlobals()
		w := c09NewWorld()
		ctl, err := NewDnsController(nil, c09LifeOption())
		if err != nil {
			t.Fatalf("harness: %v", err)
		}
		orig := dnsForwarderFactory
		dnsForwarderFactory = w.factory
		defer func() {
			w.abort()
			synctest.Wait()
			w.mu.Lock()
			w.shutdown = true
			w.mu.Unlock()
			_ = ctl.Close()
			dnsForwarderFactory = orig
		}()
		k := c09LifeKeys()[0]
		// a request goroutine has looked its forwarder up ...
		entry, err := ctl.getOrCreateDnsForwarder(k.up, k.da)
		if err != nil {
			t.Fatalf("harness: %v", err)
		}
		fwd := entry.forwarder.(*c09Fwd)
		// ... the janitor finds the entry idle and evicts it ...
		time.Sleep(dnsForwarderIdleTTL + time.Second)
		ctl.evictIdleDnsForwarders(time.Now())
		synctest.Wait()
		w.mu.Lock()
		closedNow := fwd.closeCalls
		w.mu.Unlock()
		if closedNow != 1 {
			t.Fatalf("harness: the idle forwarder should have been evicted (closed %d times)", closedNow)
		}
		// ... and the request goroutine goes on.
		ok := entry.beginUse()
		if ok {
			reproduced = true
			detail = "beginUse() on the evicted entry returned true although its forwarder had been closed: the operation runs on a closed forwarder"
			go func() {
				_, _ = entry.forwarder.ForwardDNS(context.Background(), c09BuildQuery(0, "a.c09.test.", dnsmessage.TypeA, 1))
				entry.endUse()
			}()
			synctest.Wait()
			for _, c := range w.parked() {
				w.release(c, c09Action{kind: c09ActOK, respID: 1})
			}
			synctest.Wait()
			w.takeViolations()
		}
	})
	if vkKnown(id) {
		if reproduced {
			vkKnownReproduced(id)
			tt.Logf("known finding %s still reproduces: %s", id, detail)
		} else {
			tt.Logf("known finding %s no longer reproduces on this tree", id)
		}
		vkCase("C09.finding", id, nil, id)
		return
	}
	if reproduced {
		tt.Fatalf("C09 violated (idle eviction): %s", detail)
	}
	vkCase("C09.finding", id, nil, id)
}

// Code generated from harness/component/sniffing/c06_gen_test.go (package clause rewritten); DO NOT EDIT — edit the original and run harness/control/c06_sync.sh.
package control

// C06 — generators (TLS ClientHello structure, HTTP/1 request-head grammar, host
// names) and the strict reference parsers used as oracle for mutated inputs and
// inside the native fuzz targets. Everything is written from RFC 8446 §4.1.2,
// RFC 6066 §3, RFC 9112 §3 — it shares no code with tls.go / http.go.

import (
	"bytes"
	"context"
	"crypto/tls"
	"encoding/binary"
	"fmt"
	"io"
	"net"
	"strings"
	"sync"

	"pgregory.net/rapid"
)

// ---------------------------------------------------------------- names

var c06Labels = []string{"a", "example", "com", "net", "www", "xn--p1ai", "co", "uk", "cdn-1", "a_b", "0", "9z", "api", "x", "internal", "video"}

// lower-case non-ASCII labels whose upper/lower mapping is 1:1 (so that a
// case-insensitive comparison is unambiguous).
var c06IDNLabels = []string{"bücher", "例え", "яндекс", "ñandú", "ελ"}

const c06Decoy = "decoy.invalid"

func c06MangleCase(t *rapid.T, s string) string {
	switch rapid.IntRange(0, 5).Draw(t, "casemode") {
	case 0:
		return strings.ToUpper(s)
	case 1:
		b := []byte(s)
		for i := range b {
			if b[i] >= 'a' && b[i] <= 'z' && rapid.Bool().Draw(t, "up") {
				b[i] -= 32
			}
		}
		return string(b)
	}
	return s
}

// c06GenHostName returns the name as put on the wire (maybe upper case, maybe
// with one trailing dot, maybe with UTF-8 labels).
func c06GenHostName(t *rapid.T) string {
	n := rapid.IntRange(1, 5).Draw(t, "nlabels")
	parts := make([]string, n)
	for i := range parts {
		switch rapid.IntRange(0, 19).Draw(t, "labelkind") {
		case 0:
			parts[i] = rapid.SampledFrom(c06IDNLabels).Draw(t, "idn")
		case 1:
			parts[i] = strings.Repeat("q", rapid.IntRange(40, 63).Draw(t, "longlabel"))
		default:
			parts[i] = rapid.SampledFrom(c06Labels).Draw(t, "label")
		}
	}
	s := c06MangleCase(t, strings.Join(parts, "."))
	if rapid.IntRange(0, 9).Draw(t, "trailingdot") == 0 {
		s += "."
	}
	return s
}

// c06SameName is the comparison the property allows: case-insensitive, one
// trailing dot ignored.
func c06SameName(got, want string) bool {
	return strings.EqualFold(strings.TrimSuffix(got, "."), strings.TrimSuffix(want, "."))
}

// ---------------------------------------------------------------- TLS ClientHello

type c06SNIEntry struct {
	Typ  byte
	Data []byte
}

type c06Ext struct {
	Typ  uint16
	Data []byte
}

type c06Hello struct {
	HS      []byte // handshake message: type(1) len(3) body
	Want    string // first host_name entry as encoded; "" = the hello carries none
	Entries []c06SNIEntry
	HasSNI  bool
	NExt    int
	NoExt   bool // the hello ends after the compression methods (no extension block at all)
	Classes []string
}

var c06Grease = []uint16{0x0a0a, 0x1a1a, 0x2a2a, 0x3a3a, 0x4a4a, 0x5a5a, 0x6a6a, 0x7a7a, 0x8a8a, 0x9a9a, 0xaaaa, 0xbaba, 0xcaca, 0xdada, 0xeaea, 0xfafa}
var c06Suites = []uint16{0x1301, 0x1302, 0x1303, 0xc02b, 0xc02f, 0xc02c, 0xc030, 0xcca9, 0xcca8, 0xc013, 0xc014, 0x009c, 0x009d, 0x002f, 0x0035, 0x000a, 0x00ff, 0x5600}

func c06U16(v int) []byte { return []byte{byte(v >> 8), byte(v)} }

func c06Bytes(t *rapid.T, label string, min, max int) []byte {
	return rapid.SliceOfN(rapid.Byte(), min, max).Draw(t, label)
}

// c06FakeSNI is a byte string that looks exactly like a server_name extension
// carrying the decoy name; it is planted inside opaque extension bodies so that a
// walker that loses alignment finds it.
func c06FakeSNI() []byte {
	n := []byte(c06Decoy)
	b := []byte{0, 0}
	b = append(b, c06U16(len(n)+5)...)
	b = append(b, c06U16(len(n)+3)...)
	b = append(b, 0)
	b = append(b, c06U16(len(n))...)
	return append(b, n...)
}

func c06EncodeSNI(entries []c06SNIEntry) []byte {
	var list []byte
	for _, e := range entries {
		list = append(list, e.Typ)
		list = append(list, c06U16(len(e.Data))...)
		list = append(list, e.Data...)
	}
	return append(c06U16(len(list)), list...)
}

func c06GenExt(t *rapid.T, kind string, quic bool) c06Ext {
	opaque := func(label string, min, max int) []byte {
		b := c06Bytes(t, label, min, max)
		if rapid.IntRange(0, 3).Draw(t, "plantdecoy") == 0 {
			b = append(b, c06FakeSNI()...)
		}
		return b
	}
	switch kind {
	case "grease":
		d := []byte{}
		if rapid.Bool().Draw(t, "greasebody") {
			d = []byte{0}
		}
		return c06Ext{rapid.SampledFrom(c06Grease).Draw(t, "greasetype"), d}
	case "groups":
		return c06Ext{10, []byte{0, 8, 0x0a, 0x0a, 0x00, 0x1d, 0x00, 0x17, 0x00, 0x18}}
	case "ecpf":
		return c06Ext{11, []byte{1, 0}}
	case "sigalgs":
		return c06Ext{13, []byte{0, 8, 4, 3, 8, 4, 4, 1, 5, 3}}
	case "alpn":
		var l []byte
		for _, p := range rapid.SliceOfN(rapid.SampledFrom([]string{"h2", "http/1.1", "h3", c06Decoy, "hq-interop"}), 1, 4).Draw(t, "alpn") {
			l = append(l, byte(len(p)))
			l = append(l, p...)
		}
		return c06Ext{16, append(c06U16(len(l)), l...)}
	case "status":
		return c06Ext{5, []byte{1, 0, 0, 0, 0}}
	case "sct":
		return c06Ext{18, nil}
	case "padding":
		n := rapid.IntRange(0, 300).Draw(t, "padlen")
		if rapid.IntRange(0, 19).Draw(t, "bigpad") >= 17 {
			n = rapid.IntRange(1000, 4200).Draw(t, "bigpadlen")
		}
		return c06Ext{21, make([]byte, n)}
	case "bigpadding":
		return c06Ext{0x4a4b, make([]byte, rapid.IntRange(2500, 5000).Draw(t, "bigpaddinglen"))}
	case "ems":
		return c06Ext{23, nil}
	case "compcert":
		return c06Ext{27, []byte{2, 0, 2}}
	case "ticket":
		if rapid.Bool().Draw(t, "emptyticket") {
			return c06Ext{35, nil}
		}
		return c06Ext{35, opaque("ticket", 16, 200)}
	case "versions":
		return c06Ext{43, []byte{6, 0x0a, 0x0a, 3, 4, 3, 3}}
	case "pskmodes":
		return c06Ext{45, []byte{1, 1}}
	case "keyshare":
		var l []byte
		if rapid.Bool().Draw(t, "greaseshare") {
			l = append(l, 0x0a, 0x0a, 0, 1, 0)
		}
		if rapid.IntRange(0, 3).Draw(t, "pqshare") == 0 {
			l = append(l, 0x11, 0xec)
			l = append(l, c06U16(1216)...)
			l = append(l, c06Bytes(t, "pq", 1216, 1216)...)
		}
		l = append(l, 0, 0x1d, 0, 32)
		l = append(l, c06Bytes(t, "x25519", 32, 32)...)
		return c06Ext{51, append(c06U16(len(l)), l...)}
	case "reneg":
		return c06Ext{0xff01, []byte{0}}
	case "ech":
		return c06Ext{0xfe0d, opaque("ech", 40, 300)}
	case "quictp":
		return c06Ext{0x39, opaque("quictp", 10, 80)}
	case "alps":
		return c06Ext{0x4469, []byte{0, 3, 2, 'h', '2'}}
	case "psk":
		return c06Ext{41, opaque("psk", 40, 120)}
	case "earlydata":
		return c06Ext{42, nil}
	}
	panic("c06GenExt: " + kind)
}

var c06ExtKinds = []string{"grease", "groups", "ecpf", "sigalgs", "alpn", "status", "sct", "padding", "ems", "compcert", "ticket", "versions", "pskmodes", "keyshare", "reneg", "ech", "alps", "psk", "earlydata", "grease"}

// c06GenHello draws a structurally valid ClientHello handshake message.
func c06GenHello(t *rapid.T, quic bool) *c06Hello {
	h := &c06Hello{}
	ver := rapid.SampledFrom([]int{0x0303, 0x0303, 0x0303, 0x0302, 0x0301}).Draw(t, "legacyversion")
	body := c06U16(ver)
	body = append(body, c06Bytes(t, "random", 32, 32)...)
	var sid []byte
	switch rapid.IntRange(0, 3).Draw(t, "sidkind") {
	case 0:
	case 1:
		sid = c06Bytes(t, "sid", 1, 31)
	default:
		sid = c06Bytes(t, "sid32", 32, 32)
	}
	body = append(body, byte(len(sid)))
	body = append(body, sid...)
	nsuites := rapid.IntRange(1, 40).Draw(t, "nsuites")
	body = append(body, c06U16(2*nsuites)...)
	for i := 0; i < nsuites; i++ {
		s := rapid.SampledFrom(c06Suites).Draw(t, "suite")
		if rapid.IntRange(0, 9).Draw(t, "greasesuite") == 0 {
			s = rapid.SampledFrom(c06Grease).Draw(t, "gs")
		}
		body = append(body, c06U16(int(s))...)
	}
	comp := rapid.SampledFrom([][]byte{{0}, {0}, {0}, {1, 0}, {0, 1, 64}}).Draw(t, "compression")
	body = append(body, byte(len(comp)))
	body = append(body, comp...)

	// A hello without extension block / with an empty one is legal TLS 1.2 syntax; no
	// QUIC client emits it, but it is a complete hello that can never yield a name.
	shape := rapid.IntRange(0, 29).Draw(t, "noextensions")
	if shape == 17 {
		h.NoExt = true
		h.Classes = append(h.Classes, "tls:no_extension_block")
	} else if shape == 23 {
		body = append(body, 0, 0)
		h.Classes = append(h.Classes, "tls:empty_extension_block")
	} else {
		kinds := rapid.SliceOfNDistinct(rapid.SampledFrom(c06ExtKinds), 0, 14, func(s string) string { return s }).Draw(t, "extkinds")
		if quic {
			kinds = append(kinds, "quictp")
		}
		if rapid.IntRange(0, 15).Draw(t, "bighello") == 11 {
			kinds = append(kinds, "bigpadding")
		}
		h.HasSNI = rapid.IntRange(0, 9).Draw(t, "hassni") != 7
		if h.HasSNI {
			kinds = append(kinds, "sni")
		}
		kinds = rapid.Permutation(kinds).Draw(t, "extorder")
		var exts []byte
		for _, k := range kinds {
			var e c06Ext
			if k == "sni" {
				n := rapid.SampledFrom([]int{1, 1, 1, 1, 1, 1, 2, 2, 3, 0}).Draw(t, "nentries")
				for i := 0; i < n; i++ {
					if rapid.IntRange(0, 5).Draw(t, "othertype") == 3 {
						h.Entries = append(h.Entries, c06SNIEntry{byte(rapid.IntRange(1, 255).Draw(t, "nametype")), []byte(c06Decoy)})
					} else {
						h.Entries = append(h.Entries, c06SNIEntry{0, []byte(c06GenHostName(t))})
					}
				}
				e = c06Ext{0, c06EncodeSNI(h.Entries)}
			} else {
				e = c06GenExt(t, k, quic)
			}
			exts = append(exts, c06U16(int(e.Typ))...)
			exts = append(exts, c06U16(len(e.Data))...)
			exts = append(exts, e.Data...)
		}
		h.NExt = len(kinds)
		body = append(body, c06U16(len(exts))...)
		body = append(body, exts...)
		if len(kinds) > 0 && kinds[len(kinds)-1] == "sni" {
			h.Classes = append(h.Classes, "tls:sni_is_last_ext")
		}
		if len(kinds) > 0 && kinds[0] == "sni" {
			h.Classes = append(h.Classes, "tls:sni_is_first_ext")
		}
	}
	nhost := 0
	for _, e := range h.Entries {
		if e.Typ == 0 {
			if nhost == 0 {
				h.Want = string(e.Data)
			}
			nhost++
		}
	}
	switch {
	case !h.HasSNI:
		h.Classes = append(h.Classes, "tls:no_sni_ext")
	case len(h.Entries) == 0:
		h.Classes = append(h.Classes, "tls:sni_empty_list")
	case nhost == 0:
		h.Classes = append(h.Classes, "tls:sni_only_other_types")
	case len(h.Entries) > 1 && h.Entries[0].Typ != 0:
		h.Classes = append(h.Classes, "tls:sni_other_type_first")
	case nhost > 1:
		h.Classes = append(h.Classes, "tls:sni_two_host_names")
	case len(h.Entries) > 1:
		h.Classes = append(h.Classes, "tls:sni_host_then_other")
	default:
		h.Classes = append(h.Classes, "tls:sni_single")
	}
	if len(body) > 4096 {
		h.Classes = append(h.Classes, "tls:hello_gt_4096")
	}
	h.HS = append([]byte{1, byte(len(body) >> 16), byte(len(body) >> 8), byte(len(body))}, body...)
	return h
}

// c06Records wraps a handshake message into TLS records cut at the given offsets
// (no cuts = one record).
func c06Records(hs []byte, recVer int, cuts []int) []byte {
	var out []byte
	prev := 0
	for _, c := range append(append([]int(nil), cuts...), len(hs)) {
		frag := hs[prev:c]
		out = append(out, 22, byte(recVer>>8), byte(recVer))
		out = append(out, c06U16(len(frag))...)
		out = append(out, frag...)
		prev = c
	}
	return out
}

// ---------------------------------------------------------------- strict TLS reference

type c06RefResult struct {
	WellFormed bool   // a complete ClientHello that satisfies every structural rule below
	HasName    bool   // ... with exactly one host_name entry whose bytes are plain ASCII name characters
	Name       string // that entry
	Len        int    // bytes of the handshake message (4 + body)
	NoExt      bool   // well-formed, ends after the compression methods
}

func c06PlainName(b []byte) bool {
	if len(b) == 0 || len(b) > 255 || b[0] == '.' {
		return false
	}
	for i, c := range b {
		switch {
		case c >= 'a' && c <= 'z', c >= 'A' && c <= 'Z', c >= '0' && c <= '9', c == '-', c == '_':
		case c == '.':
			if i > 0 && b[i-1] == '.' {
				return false
			}
		default:
			return false
		}
	}
	return true
}

// c06RefHello parses a handshake message strictly (RFC 8446 §4.1.2, RFC 6066 §3).
// Anything it does not accept is simply "not known to be well-formed"; the oracle
// then demands nothing but memory safety, replay and name-is-in-the-input.
func c06RefHello(b []byte) (r c06RefResult) {
	if len(b) < 4 || b[0] != 1 {
		return
	}
	n := int(b[1])<<16 | int(b[2])<<8 | int(b[3])
	if len(b) < 4+n {
		return
	}
	r.Len = 4 + n
	p := b[4 : 4+n]
	take := func(k int) []byte {
		if k < 0 || len(p) < k {
			p = nil
			return nil
		}
		x := p[:k]
		p = p[k:]
		return x
	}
	v := take(2)
	if v == nil || v[0] != 3 || v[1] < 1 || v[1] > 3 {
		return
	}
	if take(32) == nil {
		return
	}
	l := take(1)
	if l == nil || l[0] > 32 || take(int(l[0])) == nil && l[0] != 0 {
		return
	}
	l = take(2)
	if l == nil {
		return
	}
	sl := int(binary.BigEndian.Uint16(l))
	if sl < 2 || sl%2 != 0 || take(sl) == nil {
		return
	}
	l = take(1)
	if l == nil || l[0] < 1 || take(int(l[0])) == nil {
		return
	}
	if len(p) == 0 {
		r.WellFormed, r.NoExt = true, true // no extension block at all
		return
	}
	l = take(2)
	if l == nil || int(binary.BigEndian.Uint16(l)) != len(p) {
		return
	}
	seen := map[uint16]bool{}
	var names [][]byte
	for len(p) > 0 {
		hd := take(4)
		if hd == nil {
			return
		}
		typ := binary.BigEndian.Uint16(hd)
		data := take(int(binary.BigEndian.Uint16(hd[2:])))
		if data == nil && binary.BigEndian.Uint16(hd[2:]) != 0 {
			return
		}
		if seen[typ] {
			return
		}
		seen[typ] = true
		if typ != 0 {
			continue
		}
		if len(data) < 2 || int(binary.BigEndian.Uint16(data)) != len(data)-2 {
			return
		}
		d := data[2:]
		types := map[byte]bool{}
		for len(d) > 0 {
			if len(d) < 3 {
				return
			}
			nl := int(binary.BigEndian.Uint16(d[1:]))
			if len(d) < 3+nl || nl == 0 {
				return
			}
			if types[d[0]] {
				return
			}
			types[d[0]] = true
			if d[0] == 0 {
				names = append(names, d[3:3+nl])
			}
			d = d[3+nl:]
		}
	}
	r.WellFormed = true
	if len(names) == 1 && c06PlainName(names[0]) {
		r.HasName = true
		r.Name = string(names[0])
	} else if len(names) > 0 {
		r.WellFormed = false // a name we do not want to reason about
	}
	return
}

// c06RefTLSStream: the stream starts with one TLS record that holds exactly one
// complete, strictly well-formed ClientHello.
func c06RefTLSStream(s []byte) (r c06RefResult, recLen int) {
	if len(s) < 5 || s[0] != 22 || s[1] != 3 || s[2] < 1 || s[2] > 3 {
		return
	}
	n := int(binary.BigEndian.Uint16(s[3:]))
	if n > 16384 || len(s) < 5+n {
		return
	}
	r = c06RefHello(s[5 : 5+n])
	if r.Len != n {
		return c06RefResult{}, 0
	}
	return r, 5 + n
}

// ---------------------------------------------------------------- HTTP/1 request head

var c06Methods = []string{"GET", "POST", "PUT", "DELETE", "HEAD", "OPTIONS", "PATCH", "CONNECT", "TRACE", "COPY", "LINK", "UNLINK", "PURGE", "LOCK", "UNLOCK", "PROPFIND"}

type c06HTTPHead struct {
	Head                   []byte
	Want                   string // host without port/brackets; "" = no Host header
	HostLineStart, HostEnd int    // [start of the Host line, index just after its CRLF)
	ValStart, ValEnd       int    // trimmed value
	Classes                []string
}

func c06GenHostValue(t *rapid.T) (value, want string, class string) {
	port := ""
	if rapid.Bool().Draw(t, "hasport") {
		port = fmt.Sprintf(":%d", rapid.SampledFrom([]int{80, 8080, 443, 1, 65535}).Draw(t, "port"))
	}
	switch rapid.IntRange(0, 9).Draw(t, "hostkind") {
	case 0:
		ip := rapid.SampledFrom([]string{"1.2.3.4", "192.168.0.1", "10.0.0.255"}).Draw(t, "ip4")
		return ip + port, ip, "http:host_ipv4"
	case 1:
		ip := c06MangleCase(t, rapid.SampledFrom([]string{"::1", "2001:db8::1", "fe80::a:b:c:d", "2606:4700:20::681a:d1f"}).Draw(t, "ip6"))
		return "[" + ip + "]" + port, ip, "http:host_ipv6"
	default:
		n := c06GenHostName(t)
		if port != "" {
			return n + port, n, "http:host_name_port"
		}
		return n, n, "http:host_name"
	}
}

func c06GenHTTP(t *rapid.T) *c06HTTPHead {
	h := &c06HTTPHead{}
	method := rapid.SampledFrom(c06Methods).Draw(t, "method")
	hasHost := rapid.IntRange(0, 9).Draw(t, "hashost") != 0
	value, want, hostClass := "", "", "http:no_host_header"
	if hasHost {
		value, want, hostClass = c06GenHostValue(t)
	}
	target := rapid.SampledFrom([]string{"/", "/index.html?q=host:%20x", "/a/b/c", "*"}).Draw(t, "target")
	if method == "CONNECT" && hasHost {
		target = value
	} else if hasHost && rapid.IntRange(0, 7).Draw(t, "absform") == 0 {
		target = "http://" + value + "/p?x=1"
	}
	ver := rapid.SampledFrom([]string{"HTTP/1.1", "HTTP/1.1", "HTTP/1.1", "HTTP/1.0"}).Draw(t, "httpver")
	pool := []string{
		"User-Agent: curl/8.5.0", "Accept: */*", "Accept-Encoding: gzip, deflate", "Connection: keep-alive",
		"X-Forwarded-Host: " + c06Decoy, "Hostname: " + c06Decoy, "X-Host: " + c06Decoy,
		"Referer: http://" + c06Decoy + "/a?host: x", "Origin: http://" + c06Decoy + ":8080", "Content-Length: 0",
		"Ho: st", "Hos: t", "Cookie: k=" + strings.Repeat("v", rapid.IntRange(0, 1500).Draw(t, "cookielen")),
	}
	others := rapid.SliceOfN(rapid.SampledFrom(pool), 0, 8).Draw(t, "headers")
	pos := rapid.IntRange(0, len(others)).Draw(t, "hostpos")
	var b bytes.Buffer
	fmt.Fprintf(&b, "%s %s %s\r\n", method, target, ver)
	for i := 0; i <= len(others); i++ {
		if i == pos && hasHost {
			key := rapid.SampledFrom([]string{"Host", "Host", "host", "HOST", "hOsT"}).Draw(t, "hostkey")
			pre := rapid.SampledFrom([]string{" ", " ", "", "  ", "\t"}).Draw(t, "ows1")
			post := rapid.SampledFrom([]string{"", "", " ", "\t"}).Draw(t, "ows2")
			h.HostLineStart = b.Len()
			b.WriteString(key + ":" + pre)
			h.ValStart = b.Len()
			b.WriteString(value)
			h.ValEnd = b.Len()
			b.WriteString(post + "\r\n")
			h.HostEnd = b.Len()
			h.Classes = append(h.Classes, fmt.Sprintf("http:host_at_%d_of_%d", min(pos, 3), min(len(others), 3)))
		}
		if i < len(others) {
			b.WriteString(others[i] + "\r\n")
		}
	}
	b.WriteString("\r\n")
	h.Head = b.Bytes()
	h.Want = want
	h.Classes = append(h.Classes, hostClass, "http:"+method)
	return h
}

// c06RefHTTP: strict reading of RFC 9112 §3 for the *prefix* of a stream. ok is
// true only when a complete, unambiguous request head (one of the nine methods,
// exactly one Host field with a plain value) is contained in b.
func c06RefHTTP(b []byte) (ok bool, want string, headLen int) {
	end := bytes.Index(b, []byte("\r\n\r\n"))
	if end < 0 {
		return
	}
	lines := strings.Split(string(b[:end]), "\r\n")
	rl := strings.Split(lines[0], " ")
	if len(rl) != 3 || rl[1] == "" || (rl[2] != "HTTP/1.1" && rl[2] != "HTTP/1.0") {
		return
	}
	okm := false
	for _, m := range c06Methods {
		okm = okm || m == rl[0]
	}
	if !okm {
		return
	}
	for _, c := range []byte(rl[1]) {
		if c <= ' ' || c >= 0x7f {
			return
		}
	}
	nhost := 0
	for _, ln := range lines[1:] {
		k, v, found := strings.Cut(ln, ":")
		if !found || k == "" {
			return
		}
		for _, c := range []byte(k) {
			if !(c >= 'a' && c <= 'z' || c >= 'A' && c <= 'Z' || c >= '0' && c <= '9' || strings.IndexByte("!#$%&'*+-.^_`|~", c) >= 0) {
				return
			}
		}
		for _, c := range []byte(v) {
			if c == '\r' || c == '\n' || c == 0 {
				return
			}
		}
		if strings.EqualFold(k, "host") {
			nhost++
			v = strings.Trim(v, " \t")
			hostpart := v
			switch {
			case strings.HasPrefix(v, "["):
				i := strings.IndexByte(v, ']')
				if i < 0 {
					return
				}
				hostpart = v[1:i]
				rest := v[i+1:]
				if rest != "" && !strings.HasPrefix(rest, ":") {
					return
				}
				for _, c := range []byte(hostpart) {
					if !(c >= '0' && c <= '9' || c >= 'a' && c <= 'f' || c >= 'A' && c <= 'F' || c == ':' || c == '.') {
						return
					}
				}
				for _, c := range []byte(strings.TrimPrefix(rest, ":")) {
					if c < '0' || c > '9' {
						return
					}
				}
			default:
				if i := strings.IndexByte(v, ':'); i >= 0 {
					hostpart = v[:i]
					for _, c := range []byte(v[i+1:]) {
						if c < '0' || c > '9' {
							return
						}
					}
				}
				if !c06PlainName([]byte(hostpart)) {
					return
				}
			}
			if hostpart == "" {
				return
			}
			want = hostpart
		}
	}
	if nhost != 1 {
		return false, "", 0
	}
	return true, want, end + 4
}

// ---------------------------------------------------------------- "the name is in the input"

// c06NameCarried reports whether a sniffed name can have come from the input at
// all: some substring of the input normalises (case folding, brackets, port, dot —
// what NormalizeDomain documents) to it. This is the only demand made for inputs
// that are not known to be well-formed.
func c06NameCarried(name string, inputs ...[]byte) bool {
	if name == "" {
		return true
	}
	fold := func(b []byte) []byte {
		o := make([]byte, len(b))
		for i, c := range b {
			if c >= 'A' && c <= 'Z' {
				c += 32
			}
			o[i] = c
		}
		return o
	}
	for _, in := range inputs {
		if bytes.Contains(fold(in), []byte(name)) {
			return true
		}
	}
	// Unicode lower-casing may change byte lengths (and maps a few non-ASCII runes to
	// ASCII): compare every window of plausible width.
	maxw := 3*len(name) + 8
	for _, in := range inputs {
		if len(in) > 1<<15 {
			return true // too large for the quadratic fallback: undecided, never an alarm
		}
		for i := 0; i < len(in); i++ {
			for w := 1; w <= maxw && i+w <= len(in); w++ {
				if strings.ToLower(string(in[i:i+w])) == name {
					return true
				}
			}
		}
	}
	return false
}

// ---------------------------------------------------------------- hellos made by crypto/tls itself

type c06RealKey struct {
	name    string
	variant int
}

var (
	c06RealMu    sync.Mutex
	c06RealCache = map[c06RealKey][]byte{}
)

// c06RealHello returns the first flight of a crypto/tls client (one or more TLS
// records holding its ClientHello). Key material inside comes from crypto/rand; it
// has no influence on any verdict (only the structure is parsed).
func c06RealHello(name string, variant int) []byte {
	c06RealMu.Lock()
	defer c06RealMu.Unlock()
	k := c06RealKey{name, variant}
	if b, ok := c06RealCache[k]; ok {
		return b
	}
	cfg := &tls.Config{ServerName: name, InsecureSkipVerify: true}
	switch variant {
	case 1:
		cfg.MaxVersion = tls.VersionTLS12
	case 2:
		cfg.CurvePreferences = []tls.CurveID{tls.X25519}
		cfg.NextProtos = []string{"h2", "http/1.1"}
	case 3:
		cfg.MinVersion = tls.VersionTLS13
		cfg.NextProtos = []string{c06Decoy}
		cfg.SessionTicketsDisabled = true
	}
	cl, sv := net.Pipe()
	done := make(chan struct{})
	go func() {
		defer close(done)
		_ = tls.Client(cl, cfg).Handshake()
		_ = cl.Close()
	}()
	var out []byte
	hdr := make([]byte, 5)
	need := -1
	for need != 0 {
		if _, err := io.ReadFull(sv, hdr); err != nil {
			break
		}
		body := make([]byte, int(hdr[3])<<8|int(hdr[4]))
		if _, err := io.ReadFull(sv, body); err != nil {
			break
		}
		out = append(append(out, hdr...), body...)
		if need < 0 && len(body) >= 4 {
			need = 4 + (int(body[1])<<16 | int(body[2])<<8 | int(body[3]))
		}
		need -= len(body)
		if need < 0 {
			need = 0
		}
	}
	_ = sv.Close()
	<-done
	c06RealCache[k] = out
	return out
}

// c06RealQuicHello returns the ClientHello handshake message crypto/tls emits for a
// QUIC client (no record layer).
func c06RealQuicHello(name string) []byte {
	c06RealMu.Lock()
	defer c06RealMu.Unlock()
	k := c06RealKey{name, 100}
	if b, ok := c06RealCache[k]; ok {
		return b
	}
	q := tls.QUICClient(&tls.QUICConfig{TLSConfig: &tls.Config{ServerName: name, InsecureSkipVerify: true, MinVersion: tls.VersionTLS13, NextProtos: []string{"h3"}}})
	q.SetTransportParameters([]byte{0x01, 0x02, 0x67, 0x10, 0x0f, 0x00})
	var out []byte
	if err := q.Start(context.Background()); err == nil {
		for {
			ev := q.NextEvent()
			if ev.Kind == tls.QUICNoEvent {
				break
			}
			if ev.Kind == tls.QUICWriteData && ev.Level == tls.QUICEncryptionLevelInitial {
				out = append(out, ev.Data...)
			}
		}
	}
	_ = q.Close()
	c06RealCache[k] = out
	return out
}

var c06RealNames = []string{"example.com", "www.example.net", "a.b.c.d.e.example", "xn--p1ai.example"}

package control

// C08 — DNS cache: scope, TTL truth, stale window, LRU.
//
// A rapid state machine drives a DnsController made by NewDnsController inside a
// testing/synctest bubble. Entries are created only through the production insert
// path (NormalizeAndCacheDnsResp_ -> UpdateDnsCacheTtlWithKey, UpdateDnsCacheTtl),
// read through LookupDnsRespCache_, aged by the real janitor goroutine (virtual
// clock) and by explicit evictExpiredDnsCache, and carried over a reload by
// CloneCacheForReload + RestoreReloadCache into a fresh controller. The oracle is
// a model map keyed by (lower-cased name, qtype, scope).

import (
	"fmt"
	"io"
	"net"
	"net/netip"
	"sort"
	"strings"
	"testing"
	"testing/synctest"
	"time"

	"github.com/daeuniverse/dae/common/consts"
	componentdns "github.com/daeuniverse/dae/component/dns"
	dnsmessage "github.com/miekg/dns"
	"github.com/sirupsen/logrus"
	"pgregory.net/rapid"
)

const (
	c08Unit = "C08.cache"
	// documented approximation slack: 15 s ("TTL is refreshed when difference exceeds
	// ttlRefreshThresholdSeconds (15 seconds by default)", control/dns_control.go and
	// dns_cache.go) plus one second of rounding (a sub-second remainder is shown as
	// 1). Deliberately not tied to the constant, so that widening it is noticed.
	c08Slack = (15 + 1) * time.Second
	// the longest single clock advance (keeps the number of janitor ticks bounded)
	c08MaxAdvance = 2 * time.Hour
)

var (
	c08Names = []string{"a.test", "b.a.test", "fx.test", "xn--c08.test"}
	// A/AAAA/TXT (weighted), other common types, and types chosen to collide when a
	// cache key derives the type from a table slip or from fewer than 16 bits:
	// 64/65 (neighbours), 257/513/65281 (low byte 1 = A), 272 (low byte 16 = TXT),
	// 255/65535 (low byte 255), 256 (low byte 0).
	c08Qtypes = []uint16{1, 1, 28, 28, 16, 16, 5, 15, 33, 64, 65, 255, 256, 257, 272, 513, 65281, 65535}
)

type c08Key struct {
	Name  int
	Qtype uint16
	Scope int
}

func (k c08Key) String() string {
	return fmt.Sprintf("%s/%d/s%d", c08Names[k.Name], k.Qtype, k.Scope)
}

type c08Scope struct {
	tag string
	req *udpRequest
	idx consts.DnsRequestOutboundIndex
	up  *componentdns.Upstream
}

func c08Scopes() []c08Scope {
	return []c08Scope{
		{"asis@1.1.1.1", &udpRequest{realDst: netip.MustParseAddrPort("1.1.1.1:53")}, consts.DnsRequestOutboundIndex_AsIs, nil},
		{"asis@8.8.8.8", &udpRequest{realDst: netip.MustParseAddrPort("8.8.8.8:53")}, consts.DnsRequestOutboundIndex_AsIs, nil},
		{"unscoped", nil, 0, nil},
		// pool of upstream servers; a generation (controller config) routes to 2-3 of
		// them, the routing index of one is its position in that generation's list.
		// The scope identity of the model is the server (URL), never the index.
		{"upstream@udp://dns.test:53", nil, 0, &componentdns.Upstream{Scheme: componentdns.UpstreamScheme_UDP, Hostname: "dns.test", Port: 53}},
		{"upstream@tcp://dns.test:53", nil, 0, &componentdns.Upstream{Scheme: componentdns.UpstreamScheme_TCP, Hostname: "dns.test", Port: 53}},
		{"upstream@udp://dns2.test:5353", nil, 0, &componentdns.Upstream{Scheme: componentdns.UpstreamScheme_UDP, Hostname: "dns2.test", Port: 5353}},
		{"upstream@https://doh.test:443/dns-query", nil, 0, &componentdns.Upstream{Scheme: componentdns.UpstreamScheme_HTTPS, Hostname: "doh.test", Port: 443, Path: "/dns-query"}},
		// same server, another DoH path (per-profile endpoints) / another scheme: distinct upstreams
		{"upstream@https://doh.test:443/profile-b", nil, 0, &componentdns.Upstream{Scheme: componentdns.UpstreamScheme_HTTPS, Hostname: "doh.test", Port: 443, Path: "/profile-b"}},
		{"upstream@h3://doh.test:443/dns-query", nil, 0, &componentdns.Upstream{Scheme: componentdns.UpstreamScheme_H3, Hostname: "doh.test", Port: 443, Path: "/dns-query"}},
	}
}

const c08FirstUpstreamScope = 3

// c08GenUpstreams draws a generation's upstream list: 2-3 servers of the pool in
// some order (so a reload can replace, reorder, add or remove upstreams).
func c08GenUpstreams(t *rapid.T) []int {
	pool := []int{c08FirstUpstreamScope, c08FirstUpstreamScope + 1, c08FirstUpstreamScope + 2, c08FirstUpstreamScope + 3, c08FirstUpstreamScope + 4, c08FirstUpstreamScope + 5}
	if rapid.IntRange(0, 2).Draw(t, "doh_family") == 0 {
		// only the three endpoints on doh.test:443 (they differ in path or scheme alone)
		pool = pool[3:]
	}
	perm := rapid.Permutation(pool).Draw(t, "upstreams")
	return perm[:rapid.IntRange(2, 3).Draw(t, "nUpstreams")]
}

type c08Cfg struct {
	Opt    bool
	OptTtl int
	Max    int
	Fixed  map[string]int
}

// window is the stale window in seconds the controller is documented to use
// (0 = never expire). optimistic_cache_ttl=0 together with max_cache_size=0 is
// normalised to 60 s by NewDnsController (normalizeDnsRuntimeBehavior); the
// model follows that (listed as an assumption).
func (c c08Cfg) window() int {
	if c.OptTtl == 0 && c.Max == 0 {
		return 60
	}
	return c.OptTtl
}

func (c c08Cfg) String() string {
	ks := []string{}
	for k, v := range c.Fixed {
		ks = append(ks, fmt.Sprintf("%s:%d", k, v))
	}
	sort.Strings(ks)
	return fmt.Sprintf("opt=%v optttl=%d max=%d fixed=[%s]", c.Opt, c.OptTtl, c.Max, strings.Join(ks, ","))
}

func c08GenCfg(t *rapid.T) c08Cfg {
	c := c08Cfg{Fixed: map[string]int{}}
	c.Opt = rapid.IntRange(0, 2).Draw(t, "optimistic") > 0
	c.OptTtl = rapid.SampledFrom([]int{0, 1, 2, 30, 60, 60, 61, 300}).Draw(t, "optimistic_cache_ttl")
	c.Max = rapid.SampledFrom([]int{0, 0, 1, 3, 3, 8}).Draw(t, "max_cache_size")
	for _, n := range c08Names {
		if rapid.IntRange(0, 2).Draw(t, "fixed?") == 0 {
			c.Fixed[n] = rapid.SampledFrom([]int{0, 1, 10, 16, 120, 3600}).Draw(t, "fixed_ttl")
		}
	}
	return c
}

type c08Entry struct {
	K        c08Key
	CacheKey string
	Answers  []string
	Deadline time.Time
	Fixed0   bool // fixed_domain_ttl 0: docs say "not cached", statement says stale-served: both accepted
	Cloned   bool // went through CloneForReload since its insert
	Flagged  bool // a stale hit was already flagged for refresh
	AccLo    int64
	AccHi    int64
}

type c08State struct {
	c        *DnsController
	cfg      c08Cfg
	scopes   []c08Scope
	ups      []int // scope ids of the current generation's upstreams, by routing index
	upsMoved bool  // some reload changed the upstream list
	model    map[c08Key]*c08Entry
	nextTick time.Time
	counter  int
	knownF3  bool
	knownFx  bool
	knownRe  bool
	reuses   int // ReuseForReload calls since the store was created by NewDnsController
	log      *logrus.Logger
	trace    strings.Builder
	nt       int
	classes  map[string]bool
}

func c08Logger() *logrus.Logger {
	l := logrus.New()
	l.SetOutput(io.Discard)
	l.SetLevel(logrus.PanicLevel)
	return l
}

func c08NewController(log *logrus.Logger, cfg c08Cfg) (*DnsController, error) {
	return NewDnsController(nil, c08Option(log, cfg))
}

func c08Option(log *logrus.Logger, cfg c08Cfg) *DnsControllerOption {
	fixed := map[string]int{}
	for k, v := range cfg.Fixed {
		fixed[k] = v
	}
	return &DnsControllerOption{
		Log:                log,
		OptimisticCache:    cfg.Opt,
		OptimisticCacheTtl: cfg.OptTtl,
		MaxCacheSize:       cfg.Max,
		FixedDomainTtl:     fixed,
		// same shape as ControlPlane.dnsControllerOption's NewCache (no domain matcher here)
		NewCache: func(fqdn string, answers, ns, extra []dnsmessage.RR, deadline time.Time, originalDeadline time.Time) (*DnsCache, error) {
			return &DnsCache{Answer: answers, NS: ns, Extra: extra, Deadline: deadline, OriginalDeadline: originalDeadline}, nil
		},
	}
}

// c08InBubble runs f in a synctest bubble; a panic (rapid failure, invalid data)
// raised inside is carried out of the bubble and re-raised on the caller.
func c08InBubble(t *testing.T, f func()) {
	var caught any
	synctest.Test(t, func(_ *testing.T) {
		defer func() { caught = recover() }()
		f()
	})
	if caught == nil {
		return
	}
	// rapid's shrinker recognises "the same failure" by the traceback alone, so a
	// generator overrun must not be re-raised from the same place as a failure.
	if fmt.Sprintf("%T", caught) == "rapid.invalidData" {
		c08ReraiseInvalid(caught)
	}
	c08ReraiseFailure(caught)
}

//go:noinline
func c08ReraiseInvalid(p any) { panic(p) }

//go:noinline
func c08ReraiseFailure(p any) { panic(p) }

func (s *c08State) cls(c string) { s.classes[c] = true }

func (s *c08State) sortedKeys() []c08Key {
	ks := make([]c08Key, 0, len(s.model))
	for k := range s.model {
		ks = append(ks, k)
	}
	sort.Slice(ks, func(i, j int) bool {
		a, b := ks[i], ks[j]
		if a.Name != b.Name {
			return a.Name < b.Name
		}
		if a.Qtype != b.Qtype {
			return a.Qtype < b.Qtype
		}
		return a.Scope < b.Scope
	})
	return ks
}

func (s *c08State) actualKeys() map[string]bool {
	m := map[string]bool{}
	s.c.dnsCache.Range(func(k, _ any) bool {
		m[k.(string)] = true
		return true
	})
	return m
}

// prodKey is the production cache key for a client name (any case, with or without
// the trailing dot) in a scope: cacheKey + responseCacheKey, as HandleWithResponseWriter_ does.
func (s *c08State) prodKey(qname string, k c08Key) string {
	sc := s.scopes[k.Scope]
	idx := sc.idx
	if sc.up != nil {
		pos := s.routeIndex(k.Scope)
		if pos < 0 {
			panic(fmt.Sprintf("c08 harness: scope %s is not routable in this generation", sc.tag))
		}
		idx = consts.DnsRequestOutboundIndex(pos)
	}
	// responseCacheKey -> responseCacheScope of the current generation's facade
	return s.c.responseCacheKey(s.c.cacheKey(qname, k.Qtype), sc.req, idx, sc.up)
}

// routeIndex: the routing index of an upstream scope in the current generation, -1
// if this generation does not route to that server (or the scope is not an upstream).
func (s *c08State) routeIndex(scope int) int {
	for i, u := range s.ups {
		if u == scope {
			return i
		}
	}
	return -1
}

func (s *c08State) routable(scope int) bool {
	return scope < c08FirstUpstreamScope || s.routeIndex(scope) >= 0
}

func (s *c08State) genScope(t *rapid.T) int {
	cands := append([]int{0, 1, 2}, s.ups...)
	cands = append(cands, s.ups...) // upstream scopes twice as likely
	return rapid.SampledFrom(cands).Draw(t, "scope")
}

func (s *c08State) changeUpstreams(t *rapid.T, how string) {
	if !rapid.Bool().Draw(t, "newUpstreams") {
		return
	}
	nu := c08GenUpstreams(t)
	same := len(nu) == len(s.ups)
	for i := 0; same && i < len(nu); i++ {
		same = nu[i] == s.ups[i]
	}
	s.ups = nu
	if !same {
		s.upsMoved = true
		s.cls("upstreams_changed_at_" + how)
	}
	fmt.Fprintf(&s.trace, "UP(%v);", nu)
}

func c08Mangle(t *rapid.T, n string) (string, bool) {
	switch rapid.IntRange(0, 3).Draw(t, "case") {
	case 0:
		return n, false
	case 1:
		return strings.ToUpper(n), true
	}
	b := []byte(n)
	changed := false
	for i := range b {
		if b[i] >= 'a' && b[i] <= 'z' && rapid.Bool().Draw(t, "up") {
			b[i] -= 32
			changed = true
		}
	}
	return string(b), changed
}

// c08Siblings: the other pool types that share t's low byte or differ from it by one.
func c08Siblings(t uint16) []uint16 {
	var out []uint16
	seen := map[uint16]bool{t: true}
	for _, o := range c08Qtypes {
		if seen[o] {
			continue
		}
		if o&0xff == t&0xff || o == t+1 || o+1 == t {
			seen[o] = true
			out = append(out, o)
		}
	}
	return out
}

func (s *c08State) genKey(t *rapid.T, preferPresent bool) c08Key {
	ks := s.sortedKeys()
	if len(ks) > 0 && preferPresent && rapid.IntRange(0, 9).Draw(t, "present?") < 7 {
		k := rapid.SampledFrom(ks).Draw(t, "presentKey")
		switch rapid.IntRange(0, 6).Draw(t, "neighbour") {
		case 0: // same name/type, another scope
			k.Scope = s.genScope(t)
		case 1, 2: // same name/scope, a type that shares the low byte or is adjacent
			if sib := c08Siblings(k.Qtype); len(sib) > 0 {
				k.Qtype = rapid.SampledFrom(sib).Draw(t, "siblingType")
			} else {
				k.Qtype = rapid.SampledFrom(c08Qtypes).Draw(t, "qtype")
			}
		case 3: // same name/scope, any other type
			k.Qtype = rapid.SampledFrom(c08Qtypes).Draw(t, "qtype")
		}
		if !s.routable(k.Scope) { // cached for a server this generation does not route to
			k.Scope = s.genScope(t)
		}
		return k
	}
	return c08Key{
		Name:  rapid.IntRange(0, len(c08Names)-1).Draw(t, "name"),
		Qtype: rapid.SampledFrom(c08Qtypes).Draw(t, "qtype"),
		Scope: s.genScope(t),
	}
}

func (s *c08State) effWindowEnd(e *c08Entry) (end time.Time, infinite bool) {
	w := s.cfg.window()
	if w == 0 {
		return time.Time{}, true
	}
	return e.Deadline.Add(time.Duration(w) * time.Second), false
}

func (s *c08State) inWindow(e *c08Entry, now time.Time) bool {
	end, inf := s.effWindowEnd(e)
	return inf || !now.After(end)
}

func (s *c08State) servable(e *c08Entry, now time.Time) bool {
	if now.Before(e.Deadline) {
		return true
	}
	return s.cfg.Opt && s.inWindow(e, now) && !e.Fixed0
}

// f3Shape: the exact shape of known finding F3 — an entry whose deadlineNano was
// never set (made by the production insert path and not cloned since), looked up
// after its deadline inside a positive stale window with optimistic caching on.
func (s *c08State) f3Shape(e *c08Entry, now time.Time) bool {
	if e == nil || e.Cloned || !s.cfg.Opt || s.cfg.window() == 0 {
		return false
	}
	return !now.Before(e.Deadline) && s.inWindow(e, now)
}

func c08RRData(rr dnsmessage.RR) string {
	switch b := rr.(type) {
	case *dnsmessage.A:
		return "A:" + b.A.String()
	case *dnsmessage.AAAA:
		return "AAAA:" + b.AAAA.String()
	case *dnsmessage.TXT:
		return "TXT:" + strings.Join(b.Txt, "|")
	case *dnsmessage.CNAME:
		return "CNAME:" + b.Target
	case *dnsmessage.MX:
		return fmt.Sprintf("MX:%d %s", b.Preference, b.Mx)
	case *dnsmessage.SRV:
		return fmt.Sprintf("SRV:%d %d %d %s", b.Priority, b.Weight, b.Port, b.Target)
	case *dnsmessage.SVCB:
		return fmt.Sprintf("SVCB:%d %s", b.Priority, b.Target)
	case *dnsmessage.HTTPS:
		return fmt.Sprintf("HTTPS:%d %s", b.Priority, b.Target)
	case *dnsmessage.URI:
		return fmt.Sprintf("URI:%d %d %s", b.Priority, b.Weight, b.Target)
	case *dnsmessage.CAA:
		return fmt.Sprintf("CAA:%d %s %s", b.Flag, b.Tag, b.Value)
	case *dnsmessage.RFC3597:
		return fmt.Sprintf("TYPE%d:%s", b.Hdr.Rrtype, strings.ToLower(b.Rdata))
	default:
		return fmt.Sprintf("%T(%d):%s", rr, rr.Header().Rrtype, strings.TrimPrefix(rr.String(), rr.Header().String()))
	}
}

// c08AnswerType is the record type an answer to qtype carries (ANY is answered with TXT).
func c08AnswerType(qtype uint16) uint16 {
	if qtype == dnsmessage.TypeANY {
		return dnsmessage.TypeTXT
	}
	return qtype
}

func (s *c08State) makeAnswers(fq string, qtype uint16, ttl uint32, n int) ([]dnsmessage.RR, []string) {
	var rrs []dnsmessage.RR
	var data []string
	for i := 0; i < n; i++ {
		s.counter++
		at := c08AnswerType(qtype)
		hdr := dnsmessage.RR_Header{Name: fq, Rrtype: at, Class: dnsmessage.ClassINET, Ttl: ttl}
		host := fmt.Sprintf("h%d.test.", s.counter)
		n16 := uint16(s.counter)
		var rr dnsmessage.RR
		switch at {
		case dnsmessage.TypeA:
			rr = &dnsmessage.A{Hdr: hdr, A: net.IPv4(10, byte(s.counter>>16), byte(s.counter>>8), byte(s.counter)).To4()}
		case dnsmessage.TypeAAAA:
			ip := net.ParseIP("2001:db8::1")
			ip[13], ip[14], ip[15] = byte(s.counter>>16), byte(s.counter>>8), byte(s.counter)
			rr = &dnsmessage.AAAA{Hdr: hdr, AAAA: ip}
		case dnsmessage.TypeTXT:
			rr = &dnsmessage.TXT{Hdr: hdr, Txt: []string{fmt.Sprintf("v=%d", s.counter)}}
		case dnsmessage.TypeCNAME:
			rr = &dnsmessage.CNAME{Hdr: hdr, Target: host}
		case dnsmessage.TypeMX:
			rr = &dnsmessage.MX{Hdr: hdr, Preference: n16, Mx: host}
		case dnsmessage.TypeSRV:
			rr = &dnsmessage.SRV{Hdr: hdr, Priority: 1, Weight: 2, Port: n16, Target: host}
		case dnsmessage.TypeSVCB:
			rr = &dnsmessage.SVCB{Hdr: hdr, Priority: 1, Target: host}
		case dnsmessage.TypeHTTPS:
			rr = &dnsmessage.HTTPS{SVCB: dnsmessage.SVCB{Hdr: hdr, Priority: 1, Target: host}}
		case dnsmessage.TypeURI:
			rr = &dnsmessage.URI{Hdr: hdr, Priority: 1, Weight: n16, Target: "u" + host}
		case dnsmessage.TypeCAA:
			rr = &dnsmessage.CAA{Hdr: hdr, Flag: 0, Tag: "issue", Value: host}
		default: // types the DNS library has no structure for: opaque RFC 3597 data
			rr = &dnsmessage.RFC3597{Hdr: hdr, Rdata: fmt.Sprintf("%08x", s.counter)}
		}
		rrs = append(rrs, rr)
		data = append(data, c08RRData(rr))
	}
	sort.Strings(data)
	return rrs, data
}

var c08TTLs = []uint32{0, 1, 1, 2, 14, 15, 16, 17, 30, 31, 60, 120, 120, 3600, 0xFFFFFFFF}

// insert creates (or replaces) the entry of k through the production path.
func (s *c08State) insert(t *rapid.T, k c08Key) {
	name := c08Names[k.Name]
	variant, mixed := c08Mangle(t, name)
	fixed, isFixed := s.cfg.Fixed[name]
	if isFixed && mixed && s.knownFx {
		// known finding F-C08-1: fixed_domain_ttl is looked up with the case the
		// answer's question carries; keep away from it while it is listed.
		vkExcluded(c08Unit, "F-C08-1")
		variant, mixed = name, false
	}
	fq := variant + "."
	ttl := rapid.SampledFrom(c08TTLs).Draw(t, "ttl")
	nans := rapid.SampledFrom([]int{1, 1, 1, 2, 3, 0}).Draw(t, "nanswers")
	answers, data := s.makeAnswers(fq, k.Qtype, ttl, nans)
	if nans >= 2 && ttl < 0x7fffffff && rapid.IntRange(0, 2).Draw(t, "mixed_ttls") == 0 {
		// records of one answer need not share a TTL (CNAME chains, merged RRsets). The
		// first record carries the smallest one here, so "its TTL" is unambiguous: the
		// entry must not outlive it.
		for _, rr := range answers[1:] {
			rr.Header().Ttl = ttl + rapid.SampledFrom([]uint32{1, 16, 300, 86400}).Draw(t, "later_ttl_extra")
		}
		s.cls("insert_later_records_longer_ttl")
	}
	var ns, extra []dnsmessage.RR
	if rapid.IntRange(0, 3).Draw(t, "sections") == 0 {
		ns = []dnsmessage.RR{&dnsmessage.NS{Hdr: dnsmessage.RR_Header{Name: "test.", Rrtype: dnsmessage.TypeNS, Class: dnsmessage.ClassINET, Ttl: 86400}, Ns: "ns.test."}}
		extra = []dnsmessage.RR{&dnsmessage.A{Hdr: dnsmessage.RR_Header{Name: "ns.test.", Rrtype: dnsmessage.TypeA, Class: dnsmessage.ClassINET, Ttl: 86400}, A: net.IPv4(192, 0, 2, 53).To4()}}
	}
	keyName := fq
	if rapid.IntRange(0, 3).Draw(t, "keyNoDot") == 0 {
		keyName = variant
	}
	ck := s.prodKey(keyName, k)
	for _, o := range s.sortedKeys() {
		if o != k && s.model[o].CacheKey == ck {
			t.Fatalf("cache key %q of %v (asked as %q) is also the key of the cached %v: answers of different name/type/scope share one slot", ck, k, keyName, o)
		}
	}

	eff := int64(ttl)
	if eff > 31536000 { // documented clamp in NormalizeAndCacheDnsResp_
		eff = 31536000
	}
	if nans == 0 {
		eff = minFirefoxCacheTtl // empty answer: the controller's negative TTL
	}
	direct := s.scopes[k.Scope].tag == "unscoped" && rapid.IntRange(0, 2).Draw(t, "direct") == 0
	var err error
	if direct {
		// the path control_plane uses for upstream host names (cache key "")
		host := variant
		if rapid.Bool().Draw(t, "hostdot") {
			host = fq
		}
		err = s.c.UpdateDnsCacheTtl(host, k.Qtype, answers, ns, extra, int(eff))
		s.cls("insert_direct")
	} else {
		msg := new(dnsmessage.Msg)
		msg.SetQuestion(fq, k.Qtype)
		msg.Response = true
		msg.Rcode = dnsmessage.RcodeSuccess
		msg.Answer, msg.Ns, msg.Extra = answers, ns, extra
		err = s.c.NormalizeAndCacheDnsResp_(msg, ck)
	}
	if err != nil {
		t.Fatalf("insert %v: %v", k, err)
	}
	now := time.Now()
	if isFixed {
		eff = int64(fixed)
		s.cls("insert_fixed_ttl")
		if mixed {
			s.cls("insert_fixed_ttl_mixed_case")
		}
	}
	s.model[k] = &c08Entry{
		K: k, CacheKey: ck, Answers: data,
		Deadline: now.Add(time.Duration(eff) * time.Second),
		Fixed0:   isFixed && fixed == 0,
		AccLo:    0, AccHi: now.UnixNano(), // insert may or may not count as a use
	}
	fmt.Fprintf(&s.trace, "I(%v,%q,ttl=%d,n=%d);", k, variant, eff, nans)
	if nans == 0 {
		s.cls("insert_nodata")
	}
	if ttl == 0 {
		s.cls("insert_ttl0")
	}
}

func (s *c08State) lookup(t *rapid.T, k c08Key) {
	name := c08Names[k.Name]
	variant, mixed := c08Mangle(t, name)
	fq := variant + "."
	keyName := fq
	if rapid.IntRange(0, 3).Draw(t, "keyNoDot") == 0 {
		keyName = variant
	}
	ck := s.prodKey(keyName, k)
	now := time.Now()
	e := s.model[k]

	// non-triviality: outcome depends on time (within 1 s of the deadline or of the
	// window end) or on scope/case.
	nontrivial := false
	if e != nil {
		if d := now.Sub(e.Deadline); d >= -time.Second && d <= time.Second {
			nontrivial = true
			s.cls("lookup_near_deadline")
		}
		if end, inf := s.effWindowEnd(e); !inf && s.cfg.Opt {
			if d := now.Sub(end); d >= -time.Second && d <= time.Second {
				nontrivial = true
				s.cls("lookup_near_window_end")
			}
		}
		if mixed {
			nontrivial = true
			s.cls("lookup_case_variant_of_present")
		}
	}
	for _, o := range s.sortedKeys() {
		if o.Name == k.Name && o.Scope == k.Scope && o.Qtype != k.Qtype {
			nontrivial = true
			s.cls("lookup_other_type_same_name_scope_present")
			if o.Qtype&0xff == k.Qtype&0xff || o.Qtype == k.Qtype+1 || o.Qtype+1 == k.Qtype {
				s.cls("lookup_colliding_type_present")
				if e == nil {
					s.cls("lookup_colliding_type_present_self_absent")
				}
			}
		}
	}
	for _, o := range s.sortedKeys() {
		if o != k && o.Name == k.Name && o.Qtype == k.Qtype {
			nontrivial = true
			s.cls("lookup_sibling_scope_present")
			break
		}
	}

	if k.Scope >= c08FirstUpstreamScope {
		s.cls("lookup_upstream_scope")
		if s.upsMoved {
			s.cls("lookup_upstream_scope_after_upstreams_changed")
			nontrivial = true
		}
	}

	if s.knownF3 && s.f3Shape(e, now) {
		vkExcluded(c08Unit, "F3")
		s.cls("excluded_f3_shape")
		return
	}

	q := new(dnsmessage.Msg)
	q.SetQuestion(fq, k.Qtype)
	q.Id = uint16(rapid.IntRange(0, 0xffff).Draw(t, "id"))
	if rapid.IntRange(0, 3).Draw(t, "edns") == 0 {
		q.SetEdns0(1232, false)
	}
	resp, need := s.c.LookupDnsRespCache_(q, ck, false)

	ctx := func() string {
		if e == nil {
			return fmt.Sprintf("lookup %v as %q key %q at %v; no model entry; cfg{%v}", k, variant, ck, now.Format(time.RFC3339Nano), s.cfg)
		}
		return fmt.Sprintf("lookup %v as %q key %q at %v; entry key %q deadline %v (now-deadline=%v) cloned=%v flagged=%v; cfg{%v}",
			k, variant, ck, now.Format(time.RFC3339Nano), e.CacheKey, e.Deadline.Format(time.RFC3339Nano), now.Sub(e.Deadline), e.Cloned, e.Flagged, s.cfg)
	}
	outcome := ""
	switch {
	case e == nil:
		if resp != nil {
			t.Fatalf("answer served for a key nothing was cached for: %s; got %v", ctx(), c08Describe(resp))
		}
		if need {
			t.Fatalf("refresh requested on a miss: %s", ctx())
		}
		outcome = "miss"
	case now.Before(e.Deadline):
		if resp == nil {
			t.Fatalf("live answer not served: %s", ctx())
		}
		if need {
			t.Fatalf("refresh requested for a fresh answer: %s", ctx())
		}
		s.checkAnswer(t, resp, e, name, k.Qtype, now, true, ctx)
		e.AccLo, e.AccHi = now.UnixNano(), now.UnixNano()
		outcome = "fresh"
		s.cls("hit_fresh")
		if e.Cloned {
			s.cls("hit_fresh_after_clone")
		}
	case s.cfg.Opt && s.inWindow(e, now):
		if resp == nil {
			if e.Fixed0 {
				s.cls("stale_fixed0_not_served")
				outcome = "miss(fixed0)"
				break
			}
			t.Fatalf("expired answer not served inside the stale window with optimistic cache on: %s", ctx())
		}
		if need && e.Flagged {
			t.Fatalf("a second refresh was requested while one is in flight: %s", ctx())
		}
		if !need && !e.Flagged {
			t.Fatalf("first stale hit did not request a refresh: %s", ctx())
		}
		if e.Flagged {
			s.cls("hit_stale_again_no_second_refresh")
		}
		e.Flagged = true
		s.checkAnswer(t, resp, e, name, k.Qtype, now, false, ctx)
		e.AccLo, e.AccHi = now.UnixNano(), now.UnixNano()
		outcome = "stale"
		s.cls("hit_stale")
	default:
		if resp != nil {
			t.Fatalf("expired answer served (optimistic=%v, beyond window or optimistic off): %s; got %v", s.cfg.Opt, ctx(), c08Describe(resp))
		}
		if need {
			t.Fatalf("refresh requested on an expired miss: %s", ctx())
		}
		outcome = "expired-miss"
		s.cls("miss_expired")
	}
	if e != nil && resp == nil {
		// the controller may drop an unservable entry on lookup; follow it.
		if !s.actualKeys()[e.CacheKey] {
			delete(s.model, k)
		} else if now.UnixNano() > e.AccHi {
			e.AccHi = now.UnixNano()
		}
	}
	if nontrivial {
		s.nt++
		fmt.Fprintf(&s.trace, "L(%v,%q,+%v)=%s;", k, variant, c08Rel(e, now), outcome)
	}
}

func c08Rel(e *c08Entry, now time.Time) string {
	if e == nil {
		return "-"
	}
	return now.Sub(e.Deadline).String()
}

func c08Describe(resp []byte) string {
	var m dnsmessage.Msg
	if err := m.Unpack(resp); err != nil {
		return fmt.Sprintf("unparsable response (%v)", err)
	}
	out := []string{}
	for _, rr := range m.Answer {
		out = append(out, fmt.Sprintf("%s ttl=%d %s", rr.Header().Name, rr.Header().Ttl, c08RRData(rr)))
	}
	return "[" + strings.Join(out, "; ") + "]"
}

func (s *c08State) checkAnswer(t *rapid.T, resp []byte, e *c08Entry, name string, qtype uint16, now time.Time, fresh bool, ctx func() string) {
	var m dnsmessage.Msg
	if err := m.Unpack(resp); err != nil {
		t.Fatalf("served bytes do not parse: %v: %s", err, ctx())
	}
	if !m.Response || m.Rcode != dnsmessage.RcodeSuccess {
		t.Fatalf("served message is not a successful response: %s", ctx())
	}
	got := []string{}
	for _, rr := range m.Answer {
		got = append(got, c08RRData(rr))
		h := rr.Header()
		if !strings.EqualFold(strings.TrimSuffix(h.Name, "."), name) || h.Rrtype != c08AnswerType(qtype) {
			t.Fatalf("served record %s type %d belongs to another name/type: %s", h.Name, h.Rrtype, ctx())
		}
	}
	sort.Strings(got)
	if strings.Join(got, ",") != strings.Join(e.Answers, ",") {
		t.Fatalf("served answer %v is not the one cached for this name/type/scope %v: %s", got, e.Answers, ctx())
	}
	if !fresh {
		return
	}
	rem := e.Deadline.Sub(now)
	for _, sec := range [][]dnsmessage.RR{m.Answer, m.Ns, m.Extra} {
		for _, rr := range sec {
			if rr.Header().Rrtype == dnsmessage.TypeOPT {
				continue
			}
			ttl := time.Duration(rr.Header().Ttl) * time.Second
			if ttl > rem+c08Slack {
				t.Fatalf("TTL %v shown for a fresh answer exceeds its remaining lifetime %v by more than %v (record %s): %s", ttl, rem, c08Slack, rr.Header().Name, ctx())
			}
			if ttl > rem+time.Second {
				s.cls("ttl_overstated_within_slack")
			}
		}
	}
}

// afterJanitor validates the key set left by a janitor pass that ran with clock
// value tick, then makes the model follow it.
func (s *c08State) afterJanitor(t *rapid.T, tick time.Time, why string) {
	actual := s.actualKeys()
	byKey := map[string]*c08Entry{}
	for _, k := range s.sortedKeys() {
		byKey[s.model[k].CacheKey] = s.model[k]
	}
	aks := make([]string, 0, len(actual))
	for ck := range actual {
		aks = append(aks, ck)
	}
	sort.Strings(aks)
	for _, ck := range aks {
		if byKey[ck] == nil {
			t.Fatalf("%s at %v: cache holds key %q that was never inserted (cfg{%v})", why, tick, ck, s.cfg)
		}
	}
	w := s.cfg.window()
	// documented: optimistic_cache_ttl=0 never expires entries (LRU only)
	timeBased := w > 0
	effDeadline := func(e *c08Entry) time.Time {
		if s.cfg.Opt && w > 0 {
			return e.Deadline.Add(time.Duration(w) * time.Second)
		}
		return e.Deadline
	}
	var survivors, victims []*c08Entry
	for _, k := range s.sortedKeys() {
		e := s.model[k]
		ed := effDeadline(e)
		may := timeBased && !tick.Before(ed)
		must := timeBased && tick.After(ed)
		if actual[e.CacheKey] {
			if must {
				t.Fatalf("%s at %v: key %q expired beyond its window (%v) but survived the janitor (cfg{%v})", why, tick, e.CacheKey, ed, s.cfg)
			}
			survivors = append(survivors, e)
			continue
		}
		if may {
			s.cls("janitor_time_evicted")
			continue
		}
		victims = append(victims, e)
	}
	if s.cfg.Max == 0 && len(victims) > 0 {
		t.Fatalf("%s at %v: key %q removed although it is still servable and no size limit is set (cfg{%v})", why, tick, victims[0].CacheKey, s.cfg)
	}
	if s.cfg.Max > 0 {
		if len(survivors) > s.cfg.Max {
			t.Fatalf("%s at %v: %d entries survive, size limit is %d (cfg{%v})", why, tick, len(survivors), s.cfg.Max, s.cfg)
		}
		if len(victims) > 0 && len(survivors) < s.cfg.Max {
			t.Fatalf("%s at %v: %d servable entries evicted (e.g. %q) leaving %d < limit %d (cfg{%v})", why, tick, len(victims), victims[0].CacheKey, len(survivors), s.cfg.Max, s.cfg)
		}
		for _, v := range victims {
			for _, sv := range survivors {
				if v.AccLo > sv.AccHi {
					t.Fatalf("%s at %v: LRU evicted %q (last used %v) but kept %q (last used no later than %v) (cfg{%v})",
						why, tick, v.CacheKey, time.Unix(0, v.AccLo).UTC(), sv.CacheKey, time.Unix(0, sv.AccHi).UTC(), s.cfg)
				}
			}
		}
		if len(victims) > 0 {
			s.cls("janitor_lru_evicted")
			s.nt++
			fmt.Fprintf(&s.trace, "LRU(%d out,%d kept);", len(victims), len(survivors))
		}
	}
	for _, k := range s.sortedKeys() {
		if !actual[s.model[k].CacheKey] {
			delete(s.model, k)
		}
	}
}

// advance moves the virtual clock by d, stopping at janitor ticks to validate them.
func (s *c08State) advance(t *rapid.T, d time.Duration) {
	target := time.Now().Add(d)
	first := true
	for {
		now := time.Now()
		if !s.nextTick.After(target) {
			tick := s.nextTick
			if !first {
				// nothing is inserted or looked up between ticks: the passes up to the
				// last tick <= target are equivalent to one pass at that tick.
				tick = tick.Add(target.Sub(tick) / dnsCacheJanitorInterval * dnsCacheJanitorInterval)
			}
			time.Sleep(tick.Sub(now))
			synctest.Wait()
			s.afterJanitor(t, tick, "janitor tick")
			s.nextTick = tick.Add(dnsCacheJanitorInterval)
			first = false
			s.cls("janitor_tick")
			continue
		}
		if target.After(now) {
			time.Sleep(target.Sub(now))
			synctest.Wait()
		}
		return
	}
}

var c08Steps = []time.Duration{time.Nanosecond, time.Millisecond, 999 * time.Millisecond, time.Second, 2 * time.Second,
	14 * time.Second, 15 * time.Second, 16 * time.Second, 29 * time.Second, 30 * time.Second, 31 * time.Second,
	59 * time.Second, 60 * time.Second, 61 * time.Second, 2 * time.Minute, 10 * time.Minute, time.Hour}

var c08Offsets = []time.Duration{-17 * time.Second, -16 * time.Second, -15 * time.Second, -time.Second, -time.Nanosecond, 0,
	time.Nanosecond, time.Second, -time.Second, -time.Nanosecond, 0, time.Nanosecond, time.Second}

// advanceToBoundary moves the clock next to a deadline or a window end of a present entry.
func (s *c08State) advanceToBoundary(t *rapid.T) (c08Key, bool) {
	ks := s.sortedKeys()
	if len(ks) == 0 {
		s.advance(t, rapid.SampledFrom(c08Steps).Draw(t, "step"))
		return c08Key{}, false
	}
	k := rapid.SampledFrom(ks).Draw(t, "target")
	e := s.model[k]
	base := e.Deadline
	if end, inf := s.effWindowEnd(e); !inf && s.cfg.Opt && rapid.Bool().Draw(t, "windowEnd") {
		base = end
	}
	target := base.Add(rapid.SampledFrom(c08Offsets).Draw(t, "offset"))
	d := target.Sub(time.Now())
	if d <= 0 || d > c08MaxAdvance {
		s.advance(t, rapid.SampledFrom(c08Steps).Draw(t, "step"))
		return k, true
	}
	s.advance(t, d)
	return k, true
}

func (s *c08State) reload(t *rapid.T) {
	newCfg := s.cfg
	if rapid.Bool().Draw(t, "newcfg") {
		newCfg = c08GenCfg(t)
	}
	before := s.actualKeys()
	entries := s.c.CloneCacheForReload()
	old := s.c
	nc, err := c08NewController(s.log, newCfg)
	if err != nil {
		t.Fatalf("NewDnsController: %v", err)
	}
	var bm func(string) []uint32
	if rapid.Bool().Draw(t, "bitmap") {
		bm = func(string) []uint32 { return []uint32{1} }
	}
	n := nc.RestoreReloadCache(entries, bm, time.Now())
	s.c = nc
	s.cfg = newCfg
	s.reuses = 0
	s.changeUpstreams(t, "clone_reload")
	s.nextTick = time.Now().Add(dnsCacheJanitorInterval)
	_ = old.Close()
	synctest.Wait()
	if n != len(before) {
		t.Fatalf("reload restored %d of %d entries", n, len(before))
	}
	for _, k := range s.sortedKeys() {
		e := s.model[k]
		e.Cloned = true
		e.Flagged = false // the new generation owns its own refreshes
	}
	s.cls("reload_clone")
	fmt.Fprintf(&s.trace, "R(%v);", newCfg)
}

// reuse is the other reload path (controlPlaneDNSRuntime.reuseDNSControllerFrom):
// the store with its cache, janitor and entries is kept, a new facade carries the
// new generation's configuration.
func (s *c08State) reuse(t *rapid.T) {
	newCfg := s.cfg
	if rapid.Bool().Draw(t, "newcfg") {
		newCfg = c08GenCfg(t)
	}
	if s.knownRe && s.reuses >= 1 && (newCfg.Opt != s.cfg.Opt || newCfg.window() != s.cfg.window() || newCfg.Max != s.cfg.Max) {
		// known finding F-C08-2: from the second reuse on the janitor keeps the
		// configuration of the first reuse; keep those three settings unchanged.
		vkExcluded(c08Unit, "F-C08-2")
		newCfg.Opt, newCfg.OptTtl, newCfg.Max = s.cfg.Opt, s.cfg.OptTtl, s.cfg.Max
	}
	nc, err := s.c.ReuseForReload(c08Option(s.log, newCfg), nil)
	if err != nil || nc == nil {
		t.Fatalf("ReuseForReload: %v", err)
	}
	synctest.Wait()
	s.c = nc
	s.cfg = newCfg
	s.reuses++
	s.changeUpstreams(t, "reuse_reload")
	s.cls("reload_reuse")
	if s.reuses >= 2 {
		s.cls("reload_reuse_twice")
	}
	fmt.Fprintf(&s.trace, "U(%v);", newCfg)
}

// check: the cache never holds a key that was not inserted, and never loses a
// servable entry outside the janitor's LRU pass.
func (s *c08State) check(t *rapid.T) {
	actual := s.actualKeys()
	now := time.Now()
	seen := map[string]bool{}
	for _, k := range s.sortedKeys() {
		e := s.model[k]
		seen[e.CacheKey] = true
		if actual[e.CacheKey] {
			continue
		}
		if s.servable(e, now) {
			t.Fatalf("servable entry %q (deadline %v, now %v) vanished from the cache (cfg{%v})", e.CacheKey, e.Deadline, now, s.cfg)
		}
		delete(s.model, k)
	}
	for ck := range actual {
		if !seen[ck] {
			t.Fatalf("cache holds key %q the model does not know (cfg{%v})", ck, s.cfg)
		}
	}
}

func c08RunCase(t *rapid.T) {
	s := &c08State{
		scopes:  c08Scopes(),
		model:   map[c08Key]*c08Entry{},
		knownF3: vkKnown("F3"),
		knownFx: vkKnown("F-C08-1"),
		knownRe: vkKnown("F-C08-2"),
		log:     c08Logger(),
		classes: map[string]bool{},
	}
	s.cfg = c08GenCfg(t)
	s.ups = c08GenUpstreams(t)
	cfg0 := s.cfg
	c, err := c08NewController(s.log, s.cfg)
	if err != nil {
		t.Fatalf("NewDnsController: %v", err)
	}
	s.c = c
	s.nextTick = time.Now().Add(dnsCacheJanitorInterval)
	synctest.Wait() // janitor goroutine has created its ticker at this instant
	defer func() {
		_ = s.c.Close()
		synctest.Wait()
	}()

	resolve := func(t *rapid.T) { // cache miss path of HandleWithResponseWriter_: insert, then lookup
		k := s.genKey(t, rapid.Bool().Draw(t, "nearPresent"))
		s.insert(t, k)
		s.lookup(t, k)
	}
	refresh := func(t *rapid.T) { // background refresh / upstream-host path: insert only
		s.insert(t, s.genKey(t, true))
	}
	lookup := func(t *rapid.T) { s.lookup(t, s.genKey(t, true)) }
	boundary := func(t *rapid.T) {
		k, ok := s.advanceToBoundary(t)
		if ok && s.routable(k.Scope) && rapid.IntRange(0, 9).Draw(t, "thenLookup") < 8 {
			s.lookup(t, k)
			if rapid.IntRange(0, 2).Draw(t, "again") == 0 {
				s.lookup(t, k)
			}
		}
	}
	t.Repeat(map[string]func(*rapid.T){
		"resolve":   resolve,
		"resolve2":  resolve,
		"refresh":   refresh,
		"lookup":    lookup,
		"lookup2":   lookup,
		"boundary":  boundary,
		"boundary2": boundary,
		"advance": func(t *rapid.T) {
			s.advance(t, rapid.SampledFrom(c08Steps).Draw(t, "step"))
		},
		"janitor": func(t *rapid.T) {
			now := time.Now()
			s.c.evictExpiredDnsCache(now)
			s.afterJanitor(t, now, "explicit evictExpiredDnsCache")
			s.cls("janitor_explicit")
		},
		"reload": s.reload,
		"reuse":  s.reuse,
		"":       s.check,
	})

	key := ""
	if s.nt > 0 {
		key = cfg0.String() + "#" + s.trace.String()
	}
	cl := make([]string, 0, len(s.classes)+4)
	for c := range s.classes {
		cl = append(cl, c)
	}
	if cfg0.Opt {
		cl = append(cl, "cfg_optimistic")
	}
	if cfg0.OptTtl == 0 {
		cl = append(cl, "cfg_optttl0")
	}
	if cfg0.Max > 0 {
		cl = append(cl, "cfg_sizelimit")
	}
	sort.Strings(cl)
	vkCase(c08Unit, key, func() any {
		return map[string]any{"config": cfg0.String(), "history": s.trace.String()}
	}, cl...)
}

func TestC08_Cache(t *testing.T) {
	rapid.Check(t, func(rt *rapid.T) {
		c08InBubble(t, func() { c08RunCase(rt) })
	})
}

// ---------------------------------------------------------------------------
// dedicated, deterministic tests for the known findings

type c08Probe struct {
	c   *DnsController
	key string
	fq  string
}

func c08NewProbe(cfg c08Cfg, fq string) *c08Probe {
	c, err := c08NewController(c08Logger(), cfg)
	if err != nil {
		panic(fmt.Sprintf("NewDnsController: %v", err))
	}
	synctest.Wait()
	sc := c08Scopes()[0]
	return &c08Probe{c: c, fq: fq, key: c.responseCacheKey(c.cacheKey(fq, dnsmessage.TypeA), sc.req, sc.idx, sc.up)}
}

func (p *c08Probe) insert(ttl uint32) {
	msg := new(dnsmessage.Msg)
	msg.SetQuestion(p.fq, dnsmessage.TypeA)
	msg.Response = true
	msg.Answer = []dnsmessage.RR{&dnsmessage.A{Hdr: dnsmessage.RR_Header{Name: p.fq, Rrtype: dnsmessage.TypeA, Class: dnsmessage.ClassINET, Ttl: ttl}, A: net.IPv4(10, 8, 0, 3).To4()}}
	if err := p.c.NormalizeAndCacheDnsResp_(msg, p.key); err != nil {
		panic(fmt.Sprintf("insert: %v", err))
	}
}

func (p *c08Probe) lookup() (served bool, need bool) {
	q := new(dnsmessage.Msg)
	q.SetQuestion(p.fq, dnsmessage.TypeA)
	resp, need := p.c.LookupDnsRespCache_(q, p.key, false)
	if resp == nil {
		return false, need
	}
	var m dnsmessage.Msg
	if m.Unpack(resp) != nil || len(m.Answer) != 1 || c08RRData(m.Answer[0]) != "A:10.8.0.3" {
		return false, need
	}
	return true, need
}

// F3: an entry made by the production insert path, 1.2 s after its 1 s TTL ran
// out, optimistic cache on with a 60 s window: it must be served (and flagged for
// one refresh), served again without a second refresh, and not served 62 s later.
func TestC08_Finding_F3(t *testing.T) {
	var served1, need1, served2, need2, servedLate bool
	var dn int64
	c08InBubble(t, func() {
		p := c08NewProbe(c08Cfg{Opt: true, OptTtl: 60}, "f3.test.")
		defer func() { _ = p.c.Close(); synctest.Wait() }()
		p.insert(1)
		if v, ok := p.c.dnsCache.Load(p.key); ok {
			dn = v.(*DnsCache).deadlineNano.Load()
		}
		time.Sleep(1200 * time.Millisecond)
		served1, need1 = p.lookup()
		served2, need2 = p.lookup()
		if !served1 { // the failed lookup dropped the entry: put it back for the late probe
			p.insert(1)
		}
		time.Sleep(62 * time.Second)
		servedLate, _ = p.lookup()
	})
	vkCase("C08.finding_f3", "f3", func() any {
		return map[string]any{"deadlineNano_after_insert": dn, "served_in_window": served1, "refresh_flag": need1}
	})
	if servedLate {
		t.Fatalf("expired answer served 62 s after its deadline with a 60 s stale window")
	}
	if vkKnown("F3") {
		if !served1 {
			vkKnownReproduced("F3")
			t.Logf("F3 still reproduces: deadlineNano after production insert = %d; lookup 0.2 s after expiry inside a 60 s window returned nothing", dn)
			return
		}
		t.Logf("F3 no longer reproduces (deadlineNano after insert = %d)", dn)
	}
	if !served1 {
		t.Fatalf("F3: answer inserted by NormalizeAndCacheDnsResp_ (TTL 1 s) is not served 0.2 s after expiry although optimistic_cache is on with optimistic_cache_ttl=60 (deadlineNano after insert = %d)", dn)
	}
	if !need1 {
		t.Fatalf("first stale hit did not request a refresh")
	}
	if !served2 || need2 {
		t.Fatalf("second stale hit: served=%v refresh=%v, want served without a second refresh", served2, need2)
	}
}

// F-C08-1: fixed_domain_ttl is matched against the name exactly as the upstream
// answer's question spells it, so a query in another letter case escapes the
// fixed TTL (here: fixed 10 s, upstream TTL 3600 s; 11 s later the answer must be gone).
func TestC08_Finding_FC081(t *testing.T) {
	var lower, mixed bool
	c08InBubble(t, func() {
		for i, fq := range []string{"fx.test.", "Fx.TEST."} {
			p := c08NewProbe(c08Cfg{Opt: false, OptTtl: 60, Fixed: map[string]int{"fx.test": 10}}, fq)
			p.insert(3600)
			time.Sleep(11 * time.Second)
			served, _ := p.lookup()
			if i == 0 {
				lower = served
			} else {
				mixed = served
			}
			_ = p.c.Close()
			synctest.Wait()
		}
	})
	vkCase("C08.finding_fc081", "fc081", func() any {
		return map[string]any{"served_11s_after_fixed10_lowercase": lower, "served_11s_after_fixed10_mixedcase": mixed}
	})
	if lower {
		t.Fatalf("fixed_domain_ttl 10 s ignored for the exact-case name: answer still served after 11 s")
	}
	if vkKnown("F-C08-1") {
		if mixed {
			vkKnownReproduced("F-C08-1")
			t.Logf("F-C08-1 still reproduces: Fx.TEST. escapes fixed_domain_ttl{fx.test: 10}")
			return
		}
		t.Logf("F-C08-1 no longer reproduces")
	}
	if mixed {
		t.Fatalf("F-C08-1: fixed_domain_ttl{fx.test: 10} not applied to an answer whose question is spelled Fx.TEST.: served 11 s after insert (upstream TTL 3600)")
	}
}

// F-C08-2: the janitor goroutine keeps reading the configuration of the controller
// that NewDnsController returned; ReuseForReload updates that one only on the first
// reload (later reloads update the previous facade), so from the second reload on
// the janitor enforces an outdated max_cache_size / stale window. Here: size limit 1
// in generations 1 and 2, no limit in generation 3; three live entries (TTL 1 h)
// must survive a janitor tick.
func TestC08_Finding_FC082(t *testing.T) {
	live := 0
	c08InBubble(t, func() {
		log := c08Logger()
		c1, err := c08NewController(log, c08Cfg{OptTtl: 60, Max: 1})
		if err != nil {
			panic(err)
		}
		synctest.Wait()
		c2, err := c1.ReuseForReload(c08Option(log, c08Cfg{OptTtl: 60, Max: 1}), nil)
		if err != nil {
			panic(err)
		}
		c3, err := c2.ReuseForReload(c08Option(log, c08Cfg{OptTtl: 60, Max: 0}), nil)
		if err != nil {
			panic(err)
		}
		defer func() { _ = c3.Close(); synctest.Wait() }()
		sc := c08Scopes()[0]
		probes := []*c08Probe{}
		for _, fq := range []string{"a.test.", "b.a.test.", "fx.test."} {
			p := &c08Probe{c: c3, fq: fq, key: c3.responseCacheKey(c3.cacheKey(fq, dnsmessage.TypeA), sc.req, sc.idx, sc.up)}
			p.insert(3600)
			p.lookup()
			probes = append(probes, p)
		}
		time.Sleep(dnsCacheJanitorInterval + time.Second)
		synctest.Wait()
		for _, p := range probes {
			if ok, _ := p.lookup(); ok {
				live++
			}
		}
	})
	vkCase("C08.finding_fc082", "fc082", func() any { return map[string]any{"live_after_tick": live, "want": 3} })
	if vkKnown("F-C08-2") {
		if live < 3 {
			vkKnownReproduced("F-C08-2")
			t.Logf("F-C08-2 still reproduces: %d of 3 live entries survive a janitor tick although max_cache_size is 0 since the second reload", live)
			return
		}
		t.Logf("F-C08-2 no longer reproduces")
	}
	if live != 3 {
		t.Fatalf("F-C08-2: after two ReuseForReload calls (max_cache_size 1 -> 1 -> 0) only %d of 3 live entries (TTL 1 h) survive a janitor tick: the janitor still enforces the size limit of an earlier generation", live)
	}
}

package control

// Shared rule-program machinery for the routing properties (C01, C04, reusable by the
// C02 kernel differential): a rapid generator of routing programs over a small
// per-program vocabulary, a pure text renderer, a packet generator aimed at the
// vocabulary's boundaries, an *independent* reference interpreter of the written
// rule list, and the production build path text -> matcher wired exactly like
// control/control_plane.go. Every identifier here starts with "vr".
//
// The interpreter works on the generated structure (what was written), never on
// anything produced by config_parser, the optimisers, RulesBuilder.Apply or the
// match-set lowering.

import (
	"fmt"
	"io"
	"net/netip"
	"os"
	"path/filepath"
	"regexp"
	"strconv"
	"strings"
	"sync"
	"testing"
	"time"

	"github.com/daeuniverse/dae/common/assets"
	"github.com/daeuniverse/dae/common/consts"
	"github.com/daeuniverse/dae/component/routing"
	"github.com/daeuniverse/dae/config"
	"github.com/daeuniverse/dae/pkg/config_parser"
	"github.com/daeuniverse/dae/pkg/geodata"
	"github.com/sirupsen/logrus"
	"google.golang.org/protobuf/proto"
	"pgregory.net/rapid"
)

// vrBudget returns a function that reports whether the wall-clock budget of the test
// binary (-test.timeout) is nearly used up. A property that sees true returns at once
// (the case is not counted), so a slow, busy machine ends a run as "explored so far"
// instead of a harness timeout. It never influences a verdict.
func vrBudget(t *testing.T) func() bool {
	deadline, ok := t.Deadline()
	return func() bool {
		return ok && time.Until(deadline) < 150*time.Second
	}
}

// ---------------------------------------------------------------------------------
// Model of a written program
// ---------------------------------------------------------------------------------

// vrValue is one parameter as written: optional key, value, and how it is rendered.
type vrValue struct {
	Key   string // "", full, suffix, keyword, regex, domain, contains, geosite, geoip, ext, mark
	Val   string
	Quote byte // 0 = bare, '\'' or '"'
	Tight bool // "key:val" instead of "key: val"
}

// vrCond is one condition function call as written (name may be an alias).
type vrCond struct {
	Func string // domain dip ip sip dport port sport l4proto ipversion mac pname dscp
	Not  bool
	Vals []vrValue
}

// vrOutbound is an outbound as written: name (possibly with must_ prefix, or
// must_rules) and parameters in written order (Key "mark" / Key "" Val "must").
type vrOutbound struct {
	Name   string
	Params []vrValue
}

type vrRule struct {
	Conds []vrCond
	Out   vrOutbound
	Style int // rendering style 0..4
}

type vrVocab struct {
	Prefixes []string
	Ports    []string
	Names    []string
	Macs     []string
	Pnames   []string
	Dscps    []string
	Marks    []string
}

type vrProgram struct {
	Rules       []vrRule
	Fallback    vrOutbound
	FallbackPos int      // the fallback line is rendered before rule FallbackPos (len(Rules) = last)
	Groups      []string // user groups, ids 2.. in this order (direct=0, block=1)
	Vocab       vrVocab
	ExcludedF1  int // neighbour pairs steered away from known finding F1
	ExcludedF2  int // zero-length IPv6 prefixes steered away from known finding F2
}

type vrOpts struct {
	MaxRules  int  // default 12
	Geo       bool // allow geosite:/geoip:/ext: parameters (vrGeoDir must be used when compiling)
	MergeBias bool // C04: runs of neighbouring single-condition rules with equal function name and outbound
	Sweep     bool // size sweep: about 1000..1024 written match-sets
	// Funcs restricts the condition functions (canonical or alias names); nil = all.
	Funcs []string
}

var vrAllFuncs = []string{"domain", "dip", "ip", "sip", "dport", "port", "sport", "l4proto", "ipversion", "mac", "pname", "dscp"}

func vrCanonFunc(name string) string {
	switch name {
	case "dip":
		return "ip"
	case "dport":
		return "port"
	}
	return name
}

// ---------------------------------------------------------------------------------
// Tiny geodata used by C04 ("geodata expansion"). The table below is the
// interpreter's own expansion; vrGeoDir writes the same content as v2ray .dat files.
// ---------------------------------------------------------------------------------

type vrGeoDomain struct {
	Kind  string // full suffix keyword regex
	Val   string
	Attrs []string
}

var vrGeoSites = map[string]map[string][]vrGeoDomain{
	"geosite.dat": {
		"aa":    {{"full", "a.com", nil}, {"suffix", "example.com", []string{"ads"}}, {"keyword", "x-1", nil}, {"regex", `^ab\.`, []string{"cn"}}, {"suffix", "co", []string{"ads", "cn"}}},
		"bb":    {{"suffix", "net", nil}, {"full", "b.co", []string{"cn"}}, {"suffix", "a.com", nil}, {"keyword", "9z", []string{"ads"}}},
		"cc-!x": {{"suffix", "m.example.com", nil}, {"full", "example.com", nil}},
	},
	"vxsite.dat": {
		"tag1": {{"suffix", "aa.net", nil}, {"keyword", "ab", []string{"ads"}}},
	},
}

var vrGeoIps = map[string]map[string][]string{
	"geoip.dat": {
		"aa":      {"10.1.0.0/16", "2001:db8::/32", "10.1.2.3/32"},
		"bb":      {"192.168.1.0/24", "::ffff:10.0.0.0/104", "fe80::/10"},
		"private": {"10.0.0.0/8", "192.168.0.0/16", "fc00::/7", "127.0.0.1/32"},
	},
	"vxip.dat": {
		"tag1": {"1.2.3.0/24", "2001:db8:1::/48"},
	},
}

var (
	vrGeoOnce sync.Once
	vrGeoPath string
	vrGeoErr  error
)

// vrGeoDir writes the tiny geosite/geoip .dat files once per process and returns the
// directory to hand to assets.NewLocationFinder.
func vrGeoDir() (string, error) {
	vrGeoOnce.Do(func() {
		base := os.Getenv("VERIF_RUNDIR")
		if base == "" {
			base = os.TempDir()
		}
		dir, err := os.MkdirTemp(base, "vrgeo")
		if err != nil {
			vrGeoErr = err
			return
		}
		for file, codes := range vrGeoSites {
			var list geodata.GeoSiteList
			for _, code := range vrSortedKeys(codes) {
				gs := &geodata.GeoSite{CountryCode: strings.ToUpper(code)}
				for _, d := range codes[code] {
					dom := &geodata.Domain{Value: d.Val}
					switch d.Kind {
					case "full":
						dom.Type = geodata.Domain_Full
					case "suffix":
						dom.Type = geodata.Domain_RootDomain
					case "keyword":
						dom.Type = geodata.Domain_Plain
					case "regex":
						dom.Type = geodata.Domain_Regex
					}
					for _, a := range d.Attrs {
						dom.Attribute = append(dom.Attribute, &geodata.Domain_Attribute{Key: a, TypedValue: &geodata.Domain_Attribute_BoolValue{BoolValue: true}})
					}
					gs.Domain = append(gs.Domain, dom)
				}
				list.Entry = append(list.Entry, gs)
			}
			b, err := proto.Marshal(&list)
			if err == nil {
				err = os.WriteFile(filepath.Join(dir, file), b, 0o644)
			}
			if err != nil {
				vrGeoErr = err
				return
			}
		}
		for file, codes := range vrGeoIps {
			var list geodata.GeoIPList
			for _, code := range vrSortedKeys(codes) {
				gi := &geodata.GeoIP{CountryCode: strings.ToUpper(code)}
				for _, c := range codes[code] {
					p := netip.MustParsePrefix(c)
					gi.Cidr = append(gi.Cidr, &geodata.CIDR{Ip: p.Addr().AsSlice(), Prefix: uint32(p.Bits())})
				}
				list.Entry = append(list.Entry, gi)
			}
			b, err := proto.Marshal(&list)
			if err == nil {
				err = os.WriteFile(filepath.Join(dir, file), b, 0o644)
			}
			if err != nil {
				vrGeoErr = err
				return
			}
		}
		vrGeoPath = dir
	})
	return vrGeoPath, vrGeoErr
}

func vrSortedKeys[V any](m map[string]V) []string {
	ks := make([]string, 0, len(m))
	for k := range m {
		ks = append(ks, k)
	}
	// insertion sort, tiny maps
	for i := 1; i < len(ks); i++ {
		for j := i; j > 0 && ks[j] < ks[j-1]; j-- {
			ks[j], ks[j-1] = ks[j-1], ks[j]
		}
	}
	return ks
}

// ---------------------------------------------------------------------------------
// Generator
// ---------------------------------------------------------------------------------

var vrLabels = []string{"a", "aa", "b", "ab", "com", "net", "co", "x-1", "a_b", "0", "9z", "m", "example", "xn--p1ai"}

var vrV4Bases = []string{"10.0.0.0", "10.1.0.0", "10.1.2.3", "192.168.1.1", "0.0.0.0", "255.255.255.255", "1.2.3.4", "127.0.0.1", "128.0.0.0"}
var vrV6Bases = []string{"2001:db8::", "2001:db8:1::1", "fe80::1", "::", "::1", "ffff:ffff:ffff:ffff:ffff:ffff:ffff:ffff", "::ffff:10.1.2.3", "::ffff:0.0.0.0", "8000::", "2001:db8::ffff:ffff:ffff:ffff"}
var vrV4Bits = []int{0, 1, 7, 8, 9, 15, 16, 24, 31, 32}
var vrV6Bits = []int{0, 1, 16, 32, 33, 48, 63, 64, 65, 96, 97, 104, 120, 127, 128}

func vrGenName(t *rapid.T, label string) string {
	n := rapid.IntRange(1, 4).Draw(t, label+"_nl")
	parts := make([]string, n)
	for i := range parts {
		parts[i] = rapid.SampledFrom(vrLabels).Draw(t, label+"_l")
	}
	return strings.Join(parts, ".")
}

func vrGenPrefix(t *rapid.T) (s string, excludedF2 bool) {
	if rapid.IntRange(0, 9).Draw(t, "pfx_v6") < 4 {
		base := rapid.SampledFrom(vrV6Bases).Draw(t, "pfx_base6")
		if rapid.IntRange(0, 5).Draw(t, "pfx_bare") == 0 {
			return base, false
		}
		bits := rapid.SampledFrom(vrV6Bits).Draw(t, "pfx_bits6")
		if bits == 0 && vkKnown("F2") {
			// known finding F2: a zero-length IPv6 prefix matches only "::" in userspace.
			return base + "/1", true
		}
		return fmt.Sprintf("%s/%d", base, bits), false
	}
	base := rapid.SampledFrom(vrV4Bases).Draw(t, "pfx_base4")
	if rapid.IntRange(0, 5).Draw(t, "pfx_bare") == 0 {
		return base, false
	}
	return fmt.Sprintf("%s/%d", base, rapid.SampledFrom(vrV4Bits).Draw(t, "pfx_bits4")), false
}

func vrGenPortRange(t *rapid.T) string {
	switch rapid.IntRange(0, 8).Draw(t, "port_kind") {
	case 8:
		// a range written the wrong way round is accepted by the parser; as an
		// inclusive range start..end it contains no port at all
		return rapid.SampledFrom([]string{"1000-10", "443-80", "65535-0", "1024-1023", "54-53"}).Draw(t, "port_descending")
	case 0:
		return "0"
	case 1:
		return "65535"
	case 2:
		return "0-65535"
	case 3, 4:
		return strconv.Itoa(rapid.SampledFrom([]int{1, 53, 80, 443, 1023, 1024, 8443, 65534}).Draw(t, "port_single"))
	default:
		lo := rapid.SampledFrom([]int{0, 1, 53, 80, 1000, 1023, 32768, 65000}).Draw(t, "port_lo")
		hi := lo + rapid.SampledFrom([]int{0, 1, 2, 23, 443, 535, 32767}).Draw(t, "port_span")
		if hi > 65535 {
			hi = 65535
		}
		return fmt.Sprintf("%d-%d", lo, hi)
	}
}

func vrGenVocab(t *rapid.T, p *vrProgram) vrVocab {
	var v vrVocab
	for i := 0; i < 5; i++ {
		s, ex := vrGenPrefix(t)
		if ex {
			p.ExcludedF2++
		}
		v.Prefixes = append(v.Prefixes, s)
	}
	for i := 0; i < 4; i++ {
		v.Ports = append(v.Ports, vrGenPortRange(t))
	}
	first := vrGenName(t, "name")
	v.Names = append(v.Names, first)
	for i := 1; i < 5; i++ {
		switch rapid.IntRange(0, 3).Draw(t, "name_rel") {
		case 0: // extra label in front of an existing one
			v.Names = append(v.Names, rapid.SampledFrom(vrLabels).Draw(t, "name_extra")+"."+rapid.SampledFrom(v.Names).Draw(t, "name_of"))
		case 1: // tail of an existing one
			ls := strings.Split(rapid.SampledFrom(v.Names).Draw(t, "name_of"), ".")
			v.Names = append(v.Names, strings.Join(ls[rapid.IntRange(0, len(ls)-1).Draw(t, "name_cut"):], "."))
		default:
			v.Names = append(v.Names, vrGenName(t, "name"))
		}
	}
	macPool := []string{"00:00:00:00:00:00", "02:42:ac:11:00:02", "02:42:AC:11:00:03", "ff:ff:ff:ff:ff:ff", "00:00:00:00:00:01", "aa:bb:cc:dd:ee:ff"}
	for i := 0; i < 3; i++ {
		v.Macs = append(v.Macs, rapid.SampledFrom(macPool).Draw(t, "mac"))
	}
	pnPool := []string{"curl", "abcdefghijklmnop", "abcdefghijklmnopqrst", "abcdefghijklmno", "NetworkManager", "a", "dns-x_1.0", "abcdefghijklmnopZZ"}
	for i := 0; i < 3; i++ {
		v.Pnames = append(v.Pnames, rapid.SampledFrom(pnPool).Draw(t, "pname"))
	}
	dscpPool := []string{"0", "0x4", "4", "8", "46", "63", "0x3f", "255", "1"}
	for i := 0; i < 3; i++ {
		v.Dscps = append(v.Dscps, rapid.SampledFrom(dscpPool).Draw(t, "dscp"))
	}
	v.Marks = []string{"0", "1", "0x800", "4294967295", "16", "0x10"}
	return v
}

func vrBareSafe(s string) bool {
	if s == "" {
		return false
	}
	for i := 0; i < len(s); i++ {
		c := s[i]
		if !(c >= 'a' && c <= 'z' || c >= 'A' && c <= 'Z' || c >= '0' && c <= '9' || c == '.' || c == '_' || c == '-' || c == '/') {
			return false
		}
	}
	// the lexer's ID must not be confused with a key; a bare value never contains ':'
	return true
}

func vrStyleValue(t *rapid.T, key, val string) vrValue {
	v := vrValue{Key: key, Val: val, Tight: rapid.Bool().Draw(t, "tight")}
	q := rapid.IntRange(0, 3).Draw(t, "quote")
	switch {
	case !vrBareSafe(val) || q == 1:
		v.Quote = '\''
		if rapid.Bool().Draw(t, "dq") {
			v.Quote = '"'
		}
	}
	return v
}

// vrCaseRegexes: regex values that mean something else (or stop compiling) when the
// pattern text is lower-cased: negated escape classes \D \W \S, \B, \A, \P{..}/\PL,
// \Q..\E, upper-case ranges/literals/hex escapes (never match a lower-cased name).
// n is a QuoteMeta'd vocabulary name.
func vrCaseRegexes(n string) []string {
	return []string{
		`^\D+$`, `^\D+\.` + n + `$`, `\D\.` + n + `$`, `^\D`, `\D$`,
		`^\W`, `\W\W`, `^[a-z]+\W[a-z0-9]+$`, `^\w+\W` + n + `$`,
		`^\S+$`, `^\S+\.` + n + `$`, `\S` + n + `$`,
		`\B` + n + `$`, `^a\B`, `\Bm$`, `\.\Ba`,
		`\A` + n + `$`, `\Aa`, `\A[a-z0-9]+\.` + n + `\z`,
		`^\PL`, `^\P{L}+\.`, `\P{Ll}$`, `^\pL+$`, `^\p{Ll}+\.` + n + `$`, `\PN$`,
		`^\Q` + strings.ReplaceAll(n, `\`, ``) + `\E$`,
		`^[A-Z]`, `[A-Z]`, `^[A-Z0-9]+\.`, `^[^A-Z]+$`, `^[^A-Z]+\.` + n + `$`, `^A`, `COM$`, `^(A|b)\.`,
		`^\x41`, `^\x61`, `\x2E\x63om$`, `^\x{41}`, `^[\x41-\x5A]`, `^[^\x41-\x5A]+$`,
		`(?i)^A`, `(?i)` + strings.ToUpper(n) + `$`, `(?P<Label>[a-z0-9]+)\.` + n + `$`, `(?U)^\D+\.`,
	}
}

func vrGenDomainValue(t *rapid.T, voc vrVocab) vrValue {
	name := rapid.SampledFrom(voc.Names).Draw(t, "dv_name")
	switch rapid.IntRange(0, 9).Draw(t, "dv_kind") {
	case 0, 1:
		return vrStyleValue(t, "full", name)
	case 2, 3, 4, 5:
		ls := strings.Split(name, ".")
		s := strings.Join(ls[rapid.IntRange(0, len(ls)-1).Draw(t, "dv_cut"):], ".")
		if rapid.IntRange(0, 4).Draw(t, "dv_dot") == 0 {
			s = "." + s
		}
		return vrStyleValue(t, rapid.SampledFrom([]string{"", "", "suffix", "domain"}).Draw(t, "dv_skey"), s)
	case 6, 7:
		i := rapid.IntRange(0, len(name)-1).Draw(t, "dv_i")
		j := rapid.IntRange(i+1, len(name)).Draw(t, "dv_j")
		return vrStyleValue(t, rapid.SampledFrom([]string{"keyword", "contains"}).Draw(t, "dv_kkey"), name[i:j])
	default:
		n := regexp.QuoteMeta(name)
		if rapid.IntRange(0, 2).Draw(t, "dv_rxcase") == 0 {
			// patterns whose meaning depends on the case of the pattern text itself: the
			// matcher lower-cases the *name*, the pattern must be used exactly as written
			return vrStyleValue(t, "regex", rapid.SampledFrom(vrCaseRegexes(n)).Draw(t, "dv_rxc"))
		}
		rx := rapid.SampledFrom([]string{"^" + n + "$", n + "$", "^" + n, `(^|\.)` + n + "$", `^[a-z0-9]+\.` + n + "$", `^a+\.com$`, `\.net$`, `^[0-9]`, `x-1`, `^(a|b)\.`, `_`, `\.co(m)?$`}).Draw(t, "dv_rx")
		return vrStyleValue(t, "regex", rx)
	}
}

func vrGenCond(t *rapid.T, voc vrVocab, o vrOpts, fn string) vrCond {
	c := vrCond{Func: fn, Not: rapid.IntRange(0, 9).Draw(t, "not") < 3}
	nv := rapid.SampledFrom([]int{1, 1, 1, 2, 2, 3, 4, 6}).Draw(t, "nvals")
	if (fn == "l4proto" || fn == "ipversion") && nv > 3 {
		nv = 3
	}
	for i := 0; i < nv; i++ {
		switch vrCanonFunc(fn) {
		case "domain":
			if o.Geo && rapid.IntRange(0, 5).Draw(t, "geo") == 0 {
				g := rapid.SampledFrom([][2]string{{"geosite", "aa"}, {"geosite", "AA"}, {"geosite", "bb"}, {"geosite", "aa@ads"}, {"geosite", "bb@CN"}, {"geosite", "cc-!x"}, {"ext", "vxsite.dat:tag1"}, {"ext", "vxsite:tag1@ads"}}).Draw(t, "geosite")
				c.Vals = append(c.Vals, vrStyleValue(t, g[0], g[1]))
				continue
			}
			c.Vals = append(c.Vals, vrGenDomainValue(t, voc))
		case "ip", "sip":
			if o.Geo && rapid.IntRange(0, 5).Draw(t, "geo") == 0 {
				g := [][2]string{{"geoip", "aa"}, {"geoip", "BB"}, {"geoip", "private"}}
				if vrCanonFunc(fn) == "ip" {
					g = append(g, [2]string{"ext", "vxip.dat:tag1"}, [2]string{"ext", "vxip:TAG1"})
				}
				gg := rapid.SampledFrom(g).Draw(t, "geoip")
				c.Vals = append(c.Vals, vrStyleValue(t, gg[0], gg[1]))
				continue
			}
			c.Vals = append(c.Vals, vrStyleValue(t, "", rapid.SampledFrom(voc.Prefixes).Draw(t, "v_pfx")))
		case "port", "sport":
			c.Vals = append(c.Vals, vrStyleValue(t, "", rapid.SampledFrom(voc.Ports).Draw(t, "v_port")))
		case "l4proto":
			c.Vals = append(c.Vals, vrStyleValue(t, "", rapid.SampledFrom([]string{"tcp", "udp"}).Draw(t, "v_l4")))
		case "ipversion":
			c.Vals = append(c.Vals, vrStyleValue(t, "", rapid.SampledFrom([]string{"4", "6"}).Draw(t, "v_ipv")))
		case "mac":
			c.Vals = append(c.Vals, vrStyleValue(t, "", rapid.SampledFrom(voc.Macs).Draw(t, "v_mac")))
		case "pname":
			c.Vals = append(c.Vals, vrStyleValue(t, "", rapid.SampledFrom(voc.Pnames).Draw(t, "v_pname")))
		case "dscp":
			c.Vals = append(c.Vals, vrStyleValue(t, "", rapid.SampledFrom(voc.Dscps).Draw(t, "v_dscp")))
		}
	}
	return c
}

func vrGenOutbound(t *rapid.T, p *vrProgram, allowMustRules bool) vrOutbound {
	names := append([]string{"direct", "block"}, p.Groups...)
	if allowMustRules && rapid.IntRange(0, 7).Draw(t, "ob_mustrules") == 0 {
		return vrOutbound{Name: "must_rules"}
	}
	o := vrOutbound{Name: rapid.SampledFrom(names).Draw(t, "ob_name")}
	mark := func() vrValue {
		return vrStyleValue(t, "mark", rapid.SampledFrom(p.Vocab.Marks).Draw(t, "ob_mark"))
	}
	must := vrValue{Val: "must"}
	switch rapid.IntRange(0, 11).Draw(t, "ob_form") {
	case 0, 1, 2, 3, 4:
	case 5:
		o.Name = "must_" + o.Name
	case 6:
		o.Params = []vrValue{must}
	case 7:
		o.Params = []vrValue{mark()}
	case 8:
		o.Params = []vrValue{must, mark()}
	case 9:
		o.Params = []vrValue{mark(), must}
	case 10:
		o.Name = "must_" + o.Name
		o.Params = []vrValue{mark()}
	case 11:
		o.Params = []vrValue{mark()}
	}
	return o
}

func vrPickFunc(t *rapid.T, o vrOpts) string {
	fs := o.Funcs
	if len(fs) == 0 {
		fs = vrAllFuncs
	}
	return rapid.SampledFrom(fs).Draw(t, "func")
}

// vrOutboundCanon is the written outbound after the documented must_ rewriting, as a
// string; two neighbouring rules with equal strings are what the merger may join.
func vrOutboundCanon(o vrOutbound) string {
	name := o.Name
	ps := []string{}
	for _, p := range o.Params {
		if p.Key == "" {
			ps = append(ps, p.Val)
		} else {
			ps = append(ps, p.Key+":"+p.Val)
		}
	}
	if strings.HasPrefix(name, "must_") && name != "must_rules" {
		name = strings.TrimPrefix(name, "must_")
		ps = append(ps, "must")
	}
	return name + "(" + strings.Join(ps, ",") + ")"
}

func vrGenProgram(t *rapid.T, o vrOpts) vrProgram {
	var p vrProgram
	ng := rapid.IntRange(1, 4).Draw(t, "ngroups")
	// Group names: besides plain g0..g3, names that begin with letters of "must_"
	// (a must_ prefix must be cut off as a prefix, not as a character set), contain
	// '_' or are short; never "rules" (must_rules is a keyword), "direct" or "block".
	if rapid.Bool().Draw(t, "plain_group_names") {
		for i := 0; i < ng; i++ {
			p.Groups = append(p.Groups, fmt.Sprintf("g%d", i))
		}
	} else {
		pool := []string{"g0", "g1", "us_proxy", "sg", "must", "t_", "mm", "_x", "s1", "u", "tt_proxy", "mustard"}
		perm := rapid.Permutation(pool).Draw(t, "group_names")
		p.Groups = append(p.Groups, perm[:ng]...)
	}
	p.Vocab = vrGenVocab(t, &p)
	maxRules := o.MaxRules
	if maxRules == 0 {
		maxRules = 12
	}
	if o.Sweep {
		vrGenSweep(t, &p, o)
	} else {
		nr := rapid.IntRange(1, maxRules).Draw(t, "nrules")
		for len(p.Rules) < nr {
			if o.MergeBias && rapid.IntRange(0, 9).Draw(t, "run") < 6 {
				vrGenRun(t, &p, o)
				continue
			}
			p.Rules = append(p.Rules, vrGenRule(t, &p, o))
		}
	}
	p.Fallback = vrGenOutbound(t, &p, false)
	p.FallbackPos = len(p.Rules)
	if rapid.IntRange(0, 3).Draw(t, "fbpos") == 0 {
		p.FallbackPos = rapid.IntRange(0, len(p.Rules)).Draw(t, "fbposv")
	}
	vrSteerKnown(&p)
	return p
}

func vrGenRule(t *rapid.T, p *vrProgram, o vrOpts) vrRule {
	nc := rapid.SampledFrom([]int{1, 1, 1, 1, 2, 2, 2, 3, 3, 4}).Draw(t, "nconds")
	r := vrRule{Style: rapid.IntRange(0, 4).Draw(t, "style")}
	for i := 0; i < nc; i++ {
		r.Conds = append(r.Conds, vrGenCond(t, p.Vocab, o, vrPickFunc(t, o)))
	}
	r.Out = vrGenOutbound(t, p, true)
	return r
}

// vrGenRun appends 2..5 neighbouring single-condition rules with the same (possibly
// aliased) function and the same or a textually different-but-similar outbound: the
// shapes MergeAndSortRulesOptimizer and DeduplicateParamsOptimizer act on.
func vrGenRun(t *rapid.T, p *vrProgram, o vrOpts) {
	fn := vrCanonFunc(vrPickFunc(t, o))
	n := rapid.IntRange(2, 5).Draw(t, "run_len")
	out := vrGenOutbound(t, p, true)
	notMode := rapid.IntRange(0, 5).Draw(t, "run_not") // 0..2 none, 3 all, 4..5 mixed
	for i := 0; i < n; i++ {
		name := fn
		if fn == "ip" && rapid.Bool().Draw(t, "run_alias") {
			name = "dip"
		}
		if fn == "port" && rapid.Bool().Draw(t, "run_alias") {
			name = "dport"
		}
		c := vrGenCond(t, p.Vocab, o, name)
		switch {
		case notMode <= 2:
			c.Not = false
		case notMode == 3:
			c.Not = true
		default:
			c.Not = rapid.Bool().Draw(t, "run_noti")
		}
		ro := out
		switch rapid.IntRange(0, 9).Draw(t, "run_out") {
		case 0: // a different outbound altogether
			ro = vrGenOutbound(t, p, true)
		case 1: // same meaning, other spelling (must_x vs x(must); no merge expected, meaning equal)
			if strings.HasPrefix(ro.Name, "must_") && ro.Name != "must_rules" {
				ro = vrOutbound{Name: strings.TrimPrefix(ro.Name, "must_"), Params: append(append([]vrValue{}, ro.Params...), vrValue{Val: "must"})}
			}
		case 2: // same name, different mark
			if ro.Name != "must_rules" {
				ro = vrOutbound{Name: ro.Name, Params: []vrValue{vrStyleValue(t, "mark", rapid.SampledFrom(p.Vocab.Marks).Draw(t, "run_mark"))}}
			}
		}
		r := vrRule{Style: rapid.IntRange(0, 4).Draw(t, "style"), Conds: []vrCond{c}, Out: ro}
		if rapid.IntRange(0, 11).Draw(t, "run_second") == 0 {
			// a two-condition rule inside the run (must not be merged)
			r.Conds = append(r.Conds, vrGenCond(t, p.Vocab, o, vrPickFunc(t, o)))
		}
		p.Rules = append(p.Rules, r)
	}
}

// vrWrittenSets is the number of match-sets the written rule lowers to when it is not
// merged with a neighbour (an upper bound otherwise): one per key group for domain,
// one per call for ip/sip/mac/l4proto/ipversion, one per *distinct* value otherwise
// (duplicate values are removed by DeduplicateParamsOptimizer).
func vrWrittenSets(r vrRule) int {
	n := 0
	for _, c := range r.Conds {
		switch vrCanonFunc(c.Func) {
		case "domain":
			keys := map[string]bool{}
			for _, v := range c.Vals {
				k := v.Key
				switch k {
				case "", "domain":
					k = "suffix"
				case "contains":
					k = "keyword"
				case "geosite", "ext":
					// expands to up to 4 key groups
					for _, kk := range []string{"full", "suffix", "keyword", "regex"} {
						keys[kk] = true
					}
					continue
				}
				keys[k] = true
			}
			n += len(keys)
		case "ip", "sip", "mac", "l4proto", "ipversion":
			n++
		default:
			vals := map[string]bool{}
			for _, v := range c.Vals {
				vals[v.Val] = true
			}
			n += len(vals)
		}
	}
	return n
}

// vrGenSweep builds a program of about 1016..1023 match-sets (+ fallback <= 1024):
// a handful of ordinary rules at random positions between "filler" rules that can
// never decide (an ordinary condition && a condition no generated packet satisfies),
// so deciding rules and domain sets live at every index up to the very end while the
// bits of the filler sets must stay harmless. Filler rules have two conditions, so
// the merger leaves them alone and the compiled size stays close to the target.
func vrGenSweep(t *rapid.T, p *vrProgram, o vrOpts) {
	target := rapid.IntRange(1016, 1023).Draw(t, "sweep_target")
	nNormal := rapid.IntRange(4, 12).Draw(t, "sweep_normal")
	killers := []vrCond{
		{Func: "pname", Vals: []vrValue{{Val: "zzfiller"}}},
		{Func: "dscp", Vals: []vrValue{{Val: "0xee"}}},
		{Func: "l4proto", Not: true, Vals: []vrValue{{Val: "tcp"}, {Val: "udp"}}},
		{Func: "ipversion", Not: true, Vals: []vrValue{{Val: "4"}, {Val: "6"}}},
		{Func: "mac", Vals: []vrValue{{Val: "fe:fe:fe:fe:fe:fe", Quote: '\''}}},
	}
	var normal []vrRule
	total := 0
	for i := 0; i < nNormal; i++ {
		r := vrGenRule(t, p, o)
		normal = append(normal, r)
		total += vrWrittenSets(r)
	}
	var filler []vrRule
	for total < target {
		fn := vrPickFunc(t, o)
		if rapid.IntRange(0, 2).Draw(t, "sweep_dom") == 0 {
			fn = "domain"
		}
		c := vrGenCond(t, p.Vocab, o, fn)
		k := rapid.SampledFrom(killers).Draw(t, "sweep_killer")
		r := vrRule{Style: rapid.IntRange(0, 1).Draw(t, "style"), Conds: []vrCond{c, k}, Out: vrGenOutbound(t, p, true)}
		if rapid.Bool().Draw(t, "sweep_order") {
			r.Conds[0], r.Conds[1] = r.Conds[1], r.Conds[0]
		}
		w := vrWrittenSets(r)
		if total+w > target {
			r.Conds = []vrCond{{Func: "dport", Vals: []vrValue{{Val: "7"}}}, k}
			w = vrWrittenSets(r)
			if total+w > target {
				r.Conds = []vrCond{k}
				w = 1
			}
		}
		filler = append(filler, r)
		total += w
	}
	// interleave: draw the positions of the ordinary rules
	pos := map[int]bool{}
	n := len(normal) + len(filler)
	for len(pos) < len(normal) {
		x := rapid.IntRange(0, n-1).Draw(t, "sweep_pos")
		if rapid.IntRange(0, 3).Draw(t, "sweep_tail") == 0 {
			x = n - 1 - rapid.IntRange(0, 3).Draw(t, "sweep_tailoff")
			if x < 0 {
				x = 0
			}
		}
		for pos[x] {
			x = (x + 1) % n
		}
		pos[x] = true
	}
	ni, fi := 0, 0
	for i := 0; i < n; i++ {
		if pos[i] {
			p.Rules = append(p.Rules, normal[ni])
			ni++
		} else {
			p.Rules = append(p.Rules, filler[fi])
			fi++
		}
	}
}

// vrSteerKnown keeps the program away from the exact shapes of *known, unrepaired*
// findings (counted; nothing is steered once a finding is fixed):
// F1: neighbouring single-condition rules with equal function, both negated, equal
//
//	outbound (the merger joins them and changes the meaning).
func vrSteerKnown(p *vrProgram) {
	if !vkKnown("F1") {
		return
	}
	for i := 1; i < len(p.Rules); i++ {
		a, b := &p.Rules[i-1], &p.Rules[i]
		if len(a.Conds) == 1 && len(b.Conds) == 1 && a.Conds[0].Not && b.Conds[0].Not &&
			vrCanonFunc(a.Conds[0].Func) == vrCanonFunc(b.Conds[0].Func) &&
			vrOutboundCanon(a.Out) == vrOutboundCanon(b.Out) {
			b.Conds[0].Not = false
			p.ExcludedF1++
		}
	}
}

// ---------------------------------------------------------------------------------
// Renderer (pure)
// ---------------------------------------------------------------------------------

func vrRenderValue(v vrValue) string {
	s := v.Val
	if v.Quote != 0 {
		s = string(v.Quote) + v.Val + string(v.Quote)
	}
	if v.Key == "" {
		return s
	}
	if v.Tight {
		return v.Key + ":" + s
	}
	return v.Key + ": " + s
}

func vrRenderOutbound(o vrOutbound) string {
	if len(o.Params) == 0 {
		return o.Name
	}
	ps := make([]string, len(o.Params))
	for i, p := range o.Params {
		ps[i] = vrRenderValue(p)
	}
	return o.Name + "(" + strings.Join(ps, ", ") + ")"
}

func vrRenderRule(r vrRule) string {
	var b strings.Builder
	sepVal, sepAnd, arrow := ", ", " && ", " -> "
	switch r.Style {
	case 1:
		sepVal, sepAnd, arrow = ",", "&&", "->"
	case 2:
		sepVal, sepAnd = ",\n        ", " &&\n    "
	case 3:
		b.WriteString("/* rule\n   -> block */ ")
	}
	for i, c := range r.Conds {
		if i > 0 {
			b.WriteString(sepAnd)
		}
		if c.Not {
			b.WriteString("!")
		}
		b.WriteString(c.Func + "(")
		for j, v := range c.Vals {
			if j > 0 {
				b.WriteString(sepVal)
			}
			b.WriteString(vrRenderValue(v))
		}
		b.WriteString(")")
	}
	b.WriteString(arrow)
	b.WriteString(vrRenderOutbound(r.Out))
	if r.Style == 4 {
		b.WriteString(" # dip(1.1.1.1) -> block")
	}
	return b.String()
}

// vrRenderRouting renders the body of the routing section (rules and the fallback).
func vrRenderRouting(p vrProgram) string {
	var b strings.Builder
	fb := "    fallback: " + vrRenderOutbound(p.Fallback) + "\n"
	for i, r := range p.Rules {
		if i == p.FallbackPos {
			b.WriteString(fb)
		}
		b.WriteString("    " + vrRenderRule(r) + "\n")
	}
	if p.FallbackPos >= len(p.Rules) {
		b.WriteString(fb)
	}
	return b.String()
}

// vrRender renders a whole configuration text (global, group, routing).
func vrRender(p vrProgram) string {
	var b strings.Builder
	b.WriteString("global {\n}\n# generated\ngroup {\n")
	for _, g := range p.Groups {
		b.WriteString("    " + g + " {\n        policy: min\n    }\n")
	}
	b.WriteString("}\nrouting {\n")
	b.WriteString(vrRenderRouting(p))
	b.WriteString("}\n")
	return b.String()
}

// ---------------------------------------------------------------------------------
// Packets
// ---------------------------------------------------------------------------------

type vrPacket struct {
	Src, Dst netip.AddrPort
	L4       string // "tcp" | "udp"
	Domain   string
	Pname    [16]byte
	Mac      [6]byte
	Dscp     uint8
}

func (k vrPacket) String() string {
	return fmt.Sprintf("{%v -> %v %s domain=%q pname=%q mac=%x dscp=%d}", k.Src, k.Dst, k.L4, k.Domain, strings.TrimRight(string(k.Pname[:]), "\x00"), k.Mac, k.Dscp)
}

// vrParsePrefix parses a written prefix ("a.b.c.d", "x::/n", ...) to the 128-bit
// form of the statement: IPv4 is IPv4-mapped, so a v4 /n is a /96+n.
func vrParsePrefix(s string) (base [16]byte, bits int, err error) {
	if !strings.Contains(s, "/") {
		a, e := netip.ParseAddr(s)
		if e != nil {
			return base, 0, e
		}
		return a.As16(), 128, nil
	}
	p, e := netip.ParsePrefix(s)
	if e != nil {
		return base, 0, e
	}
	bits = p.Bits()
	if p.Addr().Is4() {
		bits += 96
	}
	return p.Addr().As16(), bits, nil
}

func vrPrefixContains(base [16]byte, bits int, a [16]byte) bool {
	for i := 0; i < bits; i++ {
		if (base[i/8]>>(7-uint(i%8)))&1 != (a[i/8]>>(7-uint(i%8)))&1 {
			return false
		}
	}
	return true
}

func vrAddrAdd(a [16]byte, delta int) [16]byte {
	for i := 15; i >= 0 && delta != 0; i-- {
		v := int(a[i]) + delta
		a[i] = byte(v & 0xff)
		delta = v >> 8 // arithmetic shift: -1 borrows, +1 carries
	}
	return a
}

func vrGenAddrNear(t *rapid.T, label string, prefixes []string) netip.Addr {
	var a [16]byte
	kind := rapid.IntRange(0, 9).Draw(t, label+"_kind")
	if kind <= 6 && len(prefixes) > 0 {
		base, bits, err := vrParsePrefix(rapid.SampledFrom(prefixes).Draw(t, label+"_pfx"))
		if err != nil {
			panic(err)
		}
		first, last := base, base
		for i := bits; i < 128; i++ {
			first[i/8] &^= 1 << (7 - uint(i%8))
			last[i/8] |= 1 << (7 - uint(i%8))
		}
		switch rapid.IntRange(0, 5).Draw(t, label+"_edge") {
		case 0:
			a = first
		case 1:
			a = last
		case 2:
			a = vrAddrAdd(first, -1)
		case 3:
			a = vrAddrAdd(last, 1)
		case 4:
			a = base
		default:
			a = first
			for i := bits; i < 128; i++ {
				if rapid.Bool().Draw(t, label+"_host") {
					a[i/8] |= 1 << (7 - uint(i%8))
				}
			}
		}
	} else if kind == 7 {
		a = netip.MustParseAddr(rapid.SampledFrom([]string{"::", "::1", "::ffff:0.0.0.0", "::ffff:255.255.255.255", "::1:0:0:0", "::fffe:ffff:ffff", "2001:db8::1", "8.8.8.8"}).Draw(t, label+"_fixed")).As16()
	} else if kind == 8 {
		a = netip.AddrFrom4([4]byte{byte(rapid.IntRange(0, 255).Draw(t, label+"_b0")), byte(rapid.IntRange(0, 255).Draw(t, label+"_b1")), 2, 3}).As16()
	} else {
		for i := range a {
			a[i] = byte(rapid.IntRange(0, 255).Draw(t, label+"_rb"))
		}
	}
	addr := netip.AddrFrom16(a)
	if addr.Is4In6() && rapid.Bool().Draw(t, label+"_unmap") {
		return addr.Unmap()
	}
	return addr
}

func vrGenPort(t *rapid.T, label string, ports []string) uint16 {
	if len(ports) > 0 && rapid.IntRange(0, 4).Draw(t, label+"_aim") > 0 {
		r := rapid.SampledFrom(ports).Draw(t, label+"_range")
		lo, hi := vrParsePorts(r)
		v := rapid.SampledFrom([]int{lo - 1, lo, (lo + hi) / 2, hi, hi + 1}).Draw(t, label+"_edge")
		if v < 0 {
			v = 0
		}
		if v > 65535 {
			v = 65535
		}
		return uint16(v)
	}
	return uint16(rapid.IntRange(0, 65535).Draw(t, label+"_rand"))
}

func vrParsePorts(s string) (lo, hi int) {
	if i := strings.IndexByte(s, '-'); i >= 0 {
		lo, _ = strconv.Atoi(s[:i])
		hi, _ = strconv.Atoi(s[i+1:])
		return
	}
	lo, _ = strconv.Atoi(s)
	return lo, lo
}

func vrParseMac(s string) (m [6]byte) {
	fs := strings.Split(s, ":")
	for i := 0; i < 6 && i < len(fs); i++ {
		v, _ := strconv.ParseUint(fs[i], 16, 8)
		m[i] = byte(v)
	}
	return
}

func vrMangleCase(t *rapid.T, n string) string {
	b := []byte(n)
	switch rapid.IntRange(0, 3).Draw(t, "dom_case") {
	case 1:
		b = []byte(strings.ToUpper(n))
	case 2:
		for i := range b {
			if b[i] >= 'a' && b[i] <= 'z' && rapid.Bool().Draw(t, "dom_up") {
				b[i] -= 32
			}
		}
	}
	if rapid.IntRange(0, 3).Draw(t, "dom_dot") == 0 {
		b = append(b, '.')
	}
	return string(b)
}

// vrDomainSeeds lists the strings packets derive their domain from: vocabulary names
// plus every literal full/suffix/keyword value written in the program.
func vrDomainSeeds(p vrProgram) []string {
	seeds := append([]string{}, p.Vocab.Names...)
	for _, r := range p.Rules {
		for _, c := range r.Conds {
			if c.Func != "domain" {
				continue
			}
			for _, v := range c.Vals {
				switch v.Key {
				case "regex", "geosite", "ext":
				default:
					if s := strings.TrimPrefix(v.Val, "."); s != "" {
						seeds = append(seeds, s)
					}
				}
			}
		}
		if len(seeds) > 64 {
			break
		}
	}
	return append(seeds, "a.com", "m.example.com", "aa.net", "b.co")
}

func vrGenDomain(t *rapid.T, seeds []string) string {
	k := rapid.IntRange(0, 11).Draw(t, "dom_kind")
	if k == 0 {
		return ""
	}
	if k == 1 {
		return vrMangleCase(t, vrGenName(t, "dom_rand"))
	}
	s := rapid.SampledFrom(seeds).Draw(t, "dom_seed")
	switch k {
	case 2, 3, 4:
	case 5:
		s = rapid.SampledFrom(vrLabels).Draw(t, "dom_extra") + "." + s
	case 6:
		s = rapid.SampledFrom([]string{"x", "a", "0", "-", "_"}).Draw(t, "dom_glue") + s
	case 7:
		if i := strings.IndexByte(s, '.'); i >= 0 {
			s = s[i+1:]
		}
	case 8:
		s = s + rapid.SampledFrom([]string{"x", "m", ".a", "0"}).Draw(t, "dom_tail")
	case 9:
		if len(s) > 1 {
			s = s[:len(s)-1]
		}
	case 10:
		s = "a.b." + s
	default:
		s = s + "." + rapid.SampledFrom(vrLabels).Draw(t, "dom_after")
	}
	if s == "" || s == "." {
		s = "a"
	}
	return vrMangleCase(t, s)
}

func vrGenPacket(t *rapid.T, p vrProgram) vrPacket {
	return vrGenPacketSeeds(t, p, vrDomainSeeds(p))
}

func vrGenPacketSeeds(t *rapid.T, p vrProgram, seeds []string) vrPacket {
	var k vrPacket
	pf := append([]string{}, p.Vocab.Prefixes...)
	dst := vrGenAddrNear(t, "dst", pf)
	src := vrGenAddrNear(t, "src", pf)
	// real packets have one family; keep a low rate of mixed ones
	if (dst.Is4() || dst.Is4In6()) != (src.Is4() || src.Is4In6()) && rapid.IntRange(0, 9).Draw(t, "mixfam") > 0 {
		if dst.Is4() || dst.Is4In6() {
			src = netip.AddrFrom4([4]byte{10, 1, byte(rapid.IntRange(0, 3).Draw(t, "src4c")), byte(rapid.IntRange(0, 255).Draw(t, "src4d"))})
		} else {
			src = netip.MustParseAddr(rapid.SampledFrom([]string{"2001:db8::1", "2001:db8:1::1", "fe80::1", "fe80::2", "::1"}).Draw(t, "src6"))
		}
	}
	k.Dst = netip.AddrPortFrom(dst, vrGenPort(t, "dport", p.Vocab.Ports))
	k.Src = netip.AddrPortFrom(src, vrGenPort(t, "sport", p.Vocab.Ports))
	k.L4 = rapid.SampledFrom([]string{"tcp", "udp"}).Draw(t, "l4")
	k.Domain = vrGenDomain(t, seeds)
	// pname
	switch rapid.IntRange(0, 5).Draw(t, "pn_kind") {
	case 0: // unknown
	case 1, 2, 3:
		n := rapid.SampledFrom(p.Vocab.Pnames).Draw(t, "pn_name")
		switch rapid.IntRange(0, 3).Draw(t, "pn_var") {
		case 1:
			if len(n) > 1 {
				n = n[:len(n)-1]
			}
		case 2:
			n = n + "x"
		}
		copy(k.Pname[:], n)
	default:
		copy(k.Pname[:], rapid.SampledFrom([]string{"curl", "abcdefghijklmnop", "abcdefghijklmno", "sh", "A"}).Draw(t, "pn_other"))
	}
	// mac
	switch rapid.IntRange(0, 5).Draw(t, "mac_kind") {
	case 0: // zero MAC: frame without a MAC
	case 1, 2, 3:
		k.Mac = vrParseMac(rapid.SampledFrom(p.Vocab.Macs).Draw(t, "mac_v"))
		if rapid.IntRange(0, 3).Draw(t, "mac_flip") == 0 {
			k.Mac[rapid.IntRange(0, 5).Draw(t, "mac_byte")] ^= 1 << uint(rapid.IntRange(0, 7).Draw(t, "mac_bit"))
		}
	default:
		for i := range k.Mac {
			k.Mac[i] = byte(rapid.IntRange(0, 255).Draw(t, "mac_rb"))
		}
	}
	// dscp
	if rapid.IntRange(0, 3).Draw(t, "dscp_aim") > 0 {
		v, _ := strconv.ParseUint(rapid.SampledFrom(p.Vocab.Dscps).Draw(t, "dscp_v"), 0, 8)
		d := int(v) + rapid.SampledFrom([]int{0, 0, 0, 1, -1}).Draw(t, "dscp_d")
		k.Dscp = uint8(d & 0xff)
	} else {
		k.Dscp = uint8(rapid.IntRange(0, 63).Draw(t, "dscp_r"))
	}
	return k
}

// ---------------------------------------------------------------------------------
// Reference interpreter of the written rule list
// ---------------------------------------------------------------------------------

type vrDecision struct {
	Outbound string // group name as written (without must_), "direct", "block"
	Mark     uint32
	Must     bool
	Rule     int  // index of the deciding rule, -1 = fallback
	NearMiss bool // some earlier rule was rejected by exactly one condition
	MustLine bool // a must_rules line fired before the decision
}

func (d vrDecision) String() string {
	return fmt.Sprintf("(%s mark=%d must=%v by rule %d)", d.Outbound, d.Mark, d.Must, d.Rule)
}

func vrOutboundMeaning(o vrOutbound) (name string, mark uint32, must bool) {
	name = o.Name
	if strings.HasPrefix(name, "must_") && name != "must_rules" {
		name = strings.TrimPrefix(name, "must_")
		must = true
	}
	for _, p := range o.Params {
		switch {
		case p.Key == "" && p.Val == "must":
			must = true
		case p.Key == "mark":
			v, err := strconv.ParseUint(p.Val, 0, 32)
			if err != nil {
				panic("generator wrote a bad mark: " + p.Val)
			}
			mark = uint32(v)
		}
	}
	return
}

var vrRegexCache sync.Map

func vrRegexp(p string) *regexp.Regexp {
	if v, ok := vrRegexCache.Load(p); ok {
		return v.(*regexp.Regexp)
	}
	re := regexp.MustCompile(p)
	vrRegexCache.Store(p, re)
	return re
}

// vrDomainAtom: kind in full/suffix/keyword/regex; n is the lower-cased, dot-trimmed
// non-empty name.
func vrDomainAtom(kind, pat, n string) bool {
	switch kind {
	case "full":
		return n == pat
	case "suffix":
		if strings.HasPrefix(pat, ".") {
			return strings.HasSuffix(n, pat)
		}
		return n == pat || strings.HasSuffix(n, "."+pat)
	case "keyword":
		return strings.Contains(n, pat)
	case "regex":
		return vrRegexp(pat).MatchString(n)
	}
	panic("bad domain kind " + kind)
}

func vrGeoSiteLookup(file, code string) []vrGeoDomain {
	if !strings.HasSuffix(file, ".dat") {
		file += ".dat"
	}
	code, attr, _ := strings.Cut(code, "@")
	var out []vrGeoDomain
	for c, ds := range vrGeoSites[file] {
		if !strings.EqualFold(c, code) {
			continue
		}
		for _, d := range ds {
			if attr != "" {
				hit := false
				for _, a := range d.Attrs {
					if strings.EqualFold(a, attr) {
						hit = true
					}
				}
				if !hit {
					continue
				}
			}
			out = append(out, d)
		}
	}
	return out
}

func vrGeoIpLookup(file, code string) []string {
	if !strings.HasSuffix(file, ".dat") {
		file += ".dat"
	}
	for c, ps := range vrGeoIps[file] {
		if strings.EqualFold(c, code) {
			return ps
		}
	}
	return nil
}

func vrDomainValueMatches(v vrValue, n string) bool {
	switch v.Key {
	case "", "domain", "suffix":
		return vrDomainAtom("suffix", v.Val, n)
	case "contains", "keyword":
		return vrDomainAtom("keyword", v.Val, n)
	case "full", "regex":
		return vrDomainAtom(v.Key, v.Val, n)
	case "geosite", "ext":
		file, code := "geosite", v.Val
		if v.Key == "ext" {
			file, code, _ = strings.Cut(v.Val, ":")
		}
		for _, d := range vrGeoSiteLookup(file, code) {
			if vrDomainAtom(d.Kind, d.Val, n) {
				return true
			}
		}
		return false
	}
	panic("bad domain key " + v.Key)
}

func vrIpValueMatches(v vrValue, a [16]byte) bool {
	var list []string
	switch v.Key {
	case "":
		list = []string{v.Val}
	case "geoip":
		list = vrGeoIpLookup("geoip", v.Val)
	case "ext":
		file, code, _ := strings.Cut(v.Val, ":")
		list = vrGeoIpLookup(file, code)
	default:
		panic("bad ip key " + v.Key)
	}
	for _, s := range list {
		base, bits, err := vrParsePrefix(s)
		if err != nil {
			panic(err)
		}
		if vrPrefixContains(base, bits, a) {
			return true
		}
	}
	return false
}

// vrCondHolds evaluates one written condition on one packet: (some value matches) xor '!'.
func vrCondHolds(c vrCond, k vrPacket) bool {
	any := false
	switch vrCanonFunc(c.Func) {
	case "domain":
		n := strings.ToLower(strings.TrimSuffix(k.Domain, "."))
		if k.Domain != "" && n != "" { // no (learned or sniffed) domain: no domain value matches
			for _, v := range c.Vals {
				if vrDomainValueMatches(v, n) {
					any = true
					break
				}
			}
		}
	case "ip":
		a := k.Dst.Addr().As16()
		for _, v := range c.Vals {
			if vrIpValueMatches(v, a) {
				any = true
				break
			}
		}
	case "sip":
		a := k.Src.Addr().As16()
		for _, v := range c.Vals {
			if vrIpValueMatches(v, a) {
				any = true
				break
			}
		}
	case "port", "sport":
		port := int(k.Dst.Port())
		if c.Func == "sport" {
			port = int(k.Src.Port())
		}
		for _, v := range c.Vals {
			lo, hi := vrParsePorts(v.Val)
			if port >= lo && port <= hi {
				any = true
				break
			}
		}
	case "l4proto":
		for _, v := range c.Vals {
			if v.Val == k.L4 {
				any = true
			}
		}
	case "ipversion":
		ver := "6"
		if k.Dst.Addr().Unmap().Is4() {
			ver = "4"
		}
		for _, v := range c.Vals {
			if v.Val == ver {
				any = true
			}
		}
	case "mac":
		for _, v := range c.Vals {
			if vrParseMac(v.Val) == k.Mac {
				any = true
			}
		}
		if c.Not && k.Mac == ([6]byte{}) {
			// a negated MAC rule never matches a frame without a MAC
			return false
		}
	case "pname":
		if k.Pname[0] != 0 { // only when a process name is known
			for _, v := range c.Vals {
				var want [16]byte
				copy(want[:], v.Val) // first 16 bytes
				if want == k.Pname {
					any = true
				}
			}
		}
	case "dscp":
		for _, v := range c.Vals {
			d, err := strconv.ParseUint(v.Val, 0, 8)
			if err != nil {
				panic("generator wrote a bad dscp")
			}
			if uint8(d) == k.Dscp {
				any = true
			}
		}
	default:
		panic("unknown function " + c.Func)
	}
	return any != c.Not
}

// vrInterpret: top to bottom; a rule holds iff every condition holds; must_rules
// sets the sticky must flag and continues; otherwise the rule decides; the fallback
// decides when no rule holds.
func vrInterpret(p vrProgram, k vrPacket) vrDecision {
	var d vrDecision
	sticky := false
	for i, r := range p.Rules {
		failed := 0
		for _, c := range r.Conds {
			if !vrCondHolds(c, k) {
				failed++
			}
		}
		if failed == 1 {
			d.NearMiss = true
		}
		if failed > 0 {
			continue
		}
		if r.Out.Name == "must_rules" {
			sticky = true
			d.MustLine = true
			continue
		}
		name, mark, must := vrOutboundMeaning(r.Out)
		d.Outbound, d.Mark, d.Must, d.Rule = name, mark, must || sticky, i
		return d
	}
	name, mark, must := vrOutboundMeaning(p.Fallback)
	d.Outbound, d.Mark, d.Must, d.Rule = name, mark, must || sticky, -1
	return d
}

// ---------------------------------------------------------------------------------
// Production path: text -> matcher, wired like control/control_plane.go
// ---------------------------------------------------------------------------------

type vrCompileOpts struct {
	// NoMerge: run only AliasOptimizer and DatReaderOptimizer (needed to resolve names)
	// but neither MergeAndSortRulesOptimizer nor DeduplicateParamsOptimizer. Used for
	// triage only; the default is the production chain.
	NoMerge bool
	// GeoDir is handed to assets.NewLocationFinder (empty: no geodata available).
	GeoDir string
}

type vrCompiled struct {
	Conf    *config.Config
	Program *routing.NormalizedProgram
	Builder *RoutingMatcherBuilder
	Name2Id map[string]uint8
	Id2Name map[uint8]string
}

func vrLogger() *logrus.Logger {
	l := logrus.New()
	l.SetOutput(io.Discard)
	l.SetLevel(logrus.ErrorLevel)
	return l
}

// vrSnapshotRules dumps a parsed rule list to a string with the harness's own walker
// (no production clone helper, no shared memory with the rules): order of rules,
// functions and parameters, names, negation, keys, values, nested functions,
// annotations, outbounds. Two snapshots of one object taken at different times are
// equal iff nothing observable in the object changed.
func vrSnapshotRules(rules []*config_parser.RoutingRule) string {
	var b strings.Builder
	var fn func(f *config_parser.Function)
	var pr func(p *config_parser.Param)
	pr = func(p *config_parser.Param) {
		if p == nil {
			b.WriteString("<nilparam>")
			return
		}
		fmt.Fprintf(&b, "{%q:%q", p.Key, p.Val)
		if p.AndFunctions != nil {
			b.WriteString(" and[")
			for _, f := range p.AndFunctions {
				fn(f)
			}
			b.WriteString("]")
		}
		if p.Annotation != nil {
			b.WriteString(" anno[")
			for _, a := range p.Annotation {
				pr(a)
			}
			b.WriteString("]")
		}
		b.WriteString("}")
	}
	fn = func(f *config_parser.Function) {
		if f == nil {
			b.WriteString("<nilfunc>")
			return
		}
		fmt.Fprintf(&b, "(%v %q n=%d:", f.Not, f.Name, len(f.Params))
		for _, p := range f.Params {
			pr(p)
		}
		b.WriteString(")")
	}
	fmt.Fprintf(&b, "rules=%d\n", len(rules))
	for i, r := range rules {
		if r == nil {
			fmt.Fprintf(&b, "%d <nilrule>\n", i)
			continue
		}
		fmt.Fprintf(&b, "%d nf=%d ", i, len(r.AndFunctions))
		for _, f := range r.AndFunctions {
			fn(f)
		}
		b.WriteString(" -> ")
		fn(&r.Outbound)
		b.WriteString("\n")
	}
	return b.String()
}

// vrSnapshotRouting = the routing section of a parsed configuration (rules + fallback).
func vrSnapshotRouting(conf *config.Config) string {
	s := vrSnapshotRules(conf.Routing.Rules)
	if f, err := config.ParseFunctionOrString(conf.Routing.Fallback); err == nil {
		s += "fallback: " + vrSnapshotRules([]*config_parser.RoutingRule{{Outbound: *f}})
	} else {
		s += "fallback: ? " + err.Error()
	}
	return s
}

// vrParseConf: config_parser.Parse -> config.New (patches, incl. must_ rewriting).
func vrParseConf(text string) (conf *config.Config, err error) {
	defer func() {
		if r := recover(); r != nil {
			err = fmt.Errorf("panic while parsing: %v", r)
		}
	}()
	sections, err := config_parser.Parse(text)
	if err != nil {
		return nil, fmt.Errorf("config_parser.Parse: %w", err)
	}
	conf, err = config.New(sections)
	if err != nil {
		return nil, fmt.Errorf("config.New: %w", err)
	}
	return conf, nil
}

// vrCompileConf compiles the routing section of an already parsed configuration the
// way control_plane.go does: NewNormalizedProgram with the production optimiser chain
// -> builder. It may be called repeatedly on one configuration object (a reload
// re-compiling the same parsed config); the object must stay as parsed.
func vrCompileConf(conf *config.Config, o vrCompileOpts) (c *vrCompiled, err error) {
	defer func() {
		if r := recover(); r != nil {
			err = fmt.Errorf("panic while compiling: %v", r)
		}
	}()
	c = &vrCompiled{Conf: conf, Name2Id: map[string]uint8{}, Id2Name: map[uint8]string{}}
	names := []string{consts.OutboundDirect.String(), consts.OutboundBlock.String()}
	for _, g := range conf.Group {
		names = append(names, g.Name)
	}
	for i, n := range names {
		c.Name2Id[n] = uint8(i)
		c.Id2Name[uint8(i)] = n
	}
	log := vrLogger()
	var dirs []string
	if o.GeoDir != "" {
		dirs = []string{o.GeoDir}
	}
	locationFinder := assets.NewLocationFinder(dirs)
	chain := []routing.RulesOptimizer{
		&routing.AliasOptimizer{},
		&routing.DatReaderOptimizer{Logger: log, LocationFinder: locationFinder},
		&routing.MergeAndSortRulesOptimizer{},
		&routing.DeduplicateParamsOptimizer{},
	}
	if o.NoMerge {
		chain = chain[:2]
	}
	c.Program, err = routing.NewNormalizedProgram(conf.Routing.Rules, conf.Routing.Fallback, chain...)
	if err != nil {
		return nil, fmt.Errorf("NewNormalizedProgram: %w", err)
	}
	c.Builder, err = NewRoutingMatcherBuilderFromProgram(log, c.Program, c.Name2Id, nil)
	if err != nil {
		return nil, fmt.Errorf("NewRoutingMatcherBuilderFromProgram: %w", err)
	}
	return c, nil
}

// vrCompile = vrParseConf + vrCompileConf.
func vrCompile(text string, o vrCompileOpts) (*vrCompiled, error) {
	conf, err := vrParseConf(text)
	if err != nil {
		return nil, err
	}
	return vrCompileConf(conf, o)
}

// vrBuildMatcher = vrCompile + BuildUserspace.
func vrBuildMatcher(text string, o vrCompileOpts) (*RoutingMatcher, *vrCompiled, error) {
	c, err := vrCompile(text, o)
	if err != nil {
		return nil, nil, err
	}
	m, err := c.Builder.BuildUserspace()
	if err != nil {
		return nil, c, fmt.Errorf("BuildUserspace: %w", err)
	}
	return m, c, nil
}

func vrL4(k vrPacket) consts.L4ProtoType {
	if k.L4 == "tcp" {
		return consts.L4ProtoType_TCP
	}
	return consts.L4ProtoType_UDP
}

// vrRoute asks the production control plane (ControlPlane.Route on a struct literal:
// ip-version derivation and MAC widening included).
func vrRoute(m *RoutingMatcher, k vrPacket) (consts.OutboundIndex, uint32, bool, error) {
	cp := &ControlPlane{controlPlaneGenerationState: controlPlaneGenerationState{routingMatcher: m}}
	return cp.Route(k.Src, k.Dst, k.Domain, vrL4(k), &bpfRoutingResult{Mac: k.Mac, Pname: k.Pname, Dscp: k.Dscp})
}

// vrMatchDirect calls RoutingMatcher.Match with arguments built by the harness itself.
func vrMatchDirect(m *RoutingMatcher, k vrPacket) (consts.OutboundIndex, uint32, bool, error) {
	ver := consts.IpVersion_6
	if k.Dst.Addr().Unmap().Is4() {
		ver = consts.IpVersion_4
	}
	var mac [16]byte
	copy(mac[10:], k.Mac[:])
	return m.Match(k.Src.Addr().As16(), k.Dst.Addr().As16(), k.Src.Port(), k.Dst.Port(), ver, vrL4(k), k.Domain, k.Pname, k.Dscp, mac)
}

// vrAgree compares a production answer with the interpreter's decision.
func vrAgree(c *vrCompiled, want vrDecision, ob consts.OutboundIndex, mark uint32, must bool, err error) (bool, string) {
	if err != nil {
		return false, "error: " + err.Error()
	}
	got := c.Id2Name[uint8(ob)]
	if got == "" {
		got = fmt.Sprintf("#%d", ob)
	}
	s := fmt.Sprintf("(%s mark=%d must=%v)", got, mark, must)
	return got == want.Outbound && mark == want.Mark && must == want.Must, s
}

// vrTriage names the layer responsible for a disagreement: re-runs the case with the
// merging/deduplicating optimisers off, and probes each condition of the program
// alone ("cond -> block, fallback direct") against the interpreter's atom value.
func vrTriage(p vrProgram, k vrPacket, geoDir string) string {
	var b strings.Builder
	want := vrInterpret(p, k)
	if m, c, err := vrBuildMatcher(vrRender(p), vrCompileOpts{NoMerge: true, GeoDir: geoDir}); err != nil {
		fmt.Fprintf(&b, "  unoptimised build failed: %v\n", err)
	} else {
		ob, mark, must, err := vrRoute(m, k)
		ok, got := vrAgree(c, want, ob, mark, must, err)
		if ok {
			b.WriteString("  with MergeAndSort/Deduplicate OFF the matcher agrees with the rule list => the optimisers changed the meaning (C04 layer)\n")
		} else {
			fmt.Fprintf(&b, "  with MergeAndSort/Deduplicate OFF the matcher still answers %s => lowering/matcher/atom layer (C01)\n", got)
		}
	}
	seen := map[string]bool{}
	for ri, r := range p.Rules {
		for ci, c := range r.Conds {
			one := vrProgram{Groups: p.Groups, Rules: []vrRule{{Conds: []vrCond{c}, Out: vrOutbound{Name: "block"}}}, Fallback: vrOutbound{Name: "direct"}, FallbackPos: 1}
			txt := vrRenderRule(one.Rules[0])
			if seen[txt] {
				continue
			}
			seen[txt] = true
			m, cc, err := vrBuildMatcher(vrRender(one), vrCompileOpts{GeoDir: geoDir})
			if err != nil {
				fmt.Fprintf(&b, "  rule %d cond %d alone: build failed: %v\n", ri, ci, err)
				continue
			}
			ob, mark, must, err := vrRoute(m, k)
			if ok, got := vrAgree(cc, vrInterpret(one, k), ob, mark, must, err); !ok {
				fmt.Fprintf(&b, "  atom layer: condition `%s` alone answers %s, reference says holds=%v\n", txt, got, vrCondHolds(c, k))
			}
		}
	}
	return b.String()
}

package control

// C09 (d) — DNS-over-TCP client side: the real ControlPlane.handleTCPDnsFastPath
// (control/tcp.go) on in-memory client connections, in front of the real
// DnsController with the scripted fake forwarders of the controller-level unit.
//
// 1-2 client connections, each carrying 1-5 framed queries (names / types / IDs from
// the small pools, so IDs collide and questions repeat), written pipelined (several
// frames at once), one by one, or split in the middle of a frame, at rapid-chosen
// steps; parked upstream calls are released in a rapid-chosen order with the same
// behaviours as in the controller unit.
//
// Oracle: the k-th framed reply on a connection answers the k-th query sent on it: own
// ID, own question, only records that answer it. Replies form a prefix of the queries
// (the handler closes the connection after a SERVFAIL); while the handler is alive and
// nothing is pending upstream every query that was sent has its reply.

import (
	"bufio"
	"context"
	"encoding/binary"
	"fmt"
	"io"
	"net"
	"net/netip"
	"os"
	"sort"
	"strings"
	"sync"
	"testing"
	"testing/synctest"
	"time"

	dnsmessage "github.com/miekg/dns"
	"pgregory.net/rapid"
)

const c09UnitFP = "C09.tcpfast"

// c09ClientConn is dae's end of an in-memory TCP client connection.
type c09ClientConn struct {
	mu       sync.Mutex
	in       []byte // client -> dae
	out      []byte // dae -> client
	notify   chan struct{}
	closedCh chan struct{}
	closed   bool // dae closed it
	eof      bool // the client closed its side
	rdl      time.Time
	laddr    net.Addr
	raddr    net.Addr
}

func c09NewClientConn(src, dst netip.AddrPort) *c09ClientConn {
	return &c09ClientConn{
		notify:   make(chan struct{}, 1),
		closedCh: make(chan struct{}),
		laddr:    net.TCPAddrFromAddrPort(dst),
		raddr:    net.TCPAddrFromAddrPort(src),
	}
}

func (c *c09ClientConn) wake() {
	select {
	case c.notify <- struct{}{}:
	default:
	}
}

func (c *c09ClientConn) Read(b []byte) (int, error) {
	for {
		c.mu.Lock()
		if c.closed {
			c.mu.Unlock()
			return 0, net.ErrClosed
		}
		if len(c.in) > 0 {
			n := copy(b, c.in)
			c.in = c.in[n:]
			c.mu.Unlock()
			return n, nil
		}
		if c.eof {
			c.mu.Unlock()
			return 0, io.EOF
		}
		dl := c.rdl
		c.mu.Unlock()
		var timerC <-chan time.Time
		var tm *time.Timer
		if !dl.IsZero() {
			d := time.Until(dl)
			if d <= 0 {
				return 0, os.ErrDeadlineExceeded
			}
			tm = time.NewTimer(d)
			timerC = tm.C
		}
		select {
		case <-c.notify:
		case <-c.closedCh:
		case <-timerC:
		}
		if tm != nil {
			tm.Stop()
		}
	}
}

func (c *c09ClientConn) Write(b []byte) (int, error) {
	c.mu.Lock()
	defer c.mu.Unlock()
	if c.closed {
		return 0, net.ErrClosed
	}
	c.out = append(c.out, b...)
	return len(b), nil
}

func (c *c09ClientConn) Close() error {
	c.mu.Lock()
	defer c.mu.Unlock()
	if !c.closed {
		c.closed = true
		close(c.closedCh)
	}
	return nil
}
func (c *c09ClientConn) LocalAddr() net.Addr  { return c.laddr }
func (c *c09ClientConn) RemoteAddr() net.Addr { return c.raddr }
func (c *c09ClientConn) SetDeadline(t time.Time) error {
	return c.SetReadDeadline(t)
}
func (c *c09ClientConn) SetReadDeadline(t time.Time) error {
	c.mu.Lock()
	c.rdl = t
	c.mu.Unlock()
	c.wake()
	return nil
}
func (c *c09ClientConn) SetWriteDeadline(time.Time) error { return nil }

func (c *c09ClientConn) push(b []byte) {
	c.mu.Lock()
	c.in = append(c.in, b...)
	c.mu.Unlock()
	c.wake()
}

func (c *c09ClientConn) clientClose() {
	c.mu.Lock()
	c.eof = true
	c.mu.Unlock()
	c.wake()
}

// takeReplies parses the complete frames dae wrote so far.
func (c *c09ClientConn) takeReplies() ([]*dnsmessage.Msg, error) {
	c.mu.Lock()
	defer c.mu.Unlock()
	var out []*dnsmessage.Msg
	for len(c.out) >= 2 {
		l := int(binary.BigEndian.Uint16(c.out))
		if len(c.out) < 2+l {
			break
		}
		m := new(dnsmessage.Msg)
		if err := m.Unpack(c.out[2 : 2+l]); err != nil {
			return out, fmt.Errorf("reply frame does not unpack: %v", err)
		}
		c.out = c.out[2+l:]
		out = append(out, m)
	}
	return out, nil
}

type c09FPConn struct {
	idx     int
	conn    *c09ClientConn
	queries []*c09Client
	frames  [][]byte
	sent    int    // queries completely written
	tail    []byte // second half of a split frame, still to be written
	replies int

	mu       sync.Mutex
	started  bool
	returned bool
	handled  bool
	err      error
}

func (f *c09FPConn) hasReturned() bool {
	f.mu.Lock()
	defer f.mu.Unlock()
	return f.returned
}

func c09TCPFastCase(t *rapid.T) {
	mode := rapid.SampledFrom(c09Modes).Draw(t, "mode")
	env, err := c09NewCtlEnv(mode)
	if err != nil {
		t.Fatalf("harness: cannot build controller: %v", err)
	}
	defer env.teardown()
	w := env.w
	cp := &ControlPlane{
		log:                    c09Log(),
		soMarkFromDae:          0x100,
		controlPlaneDNSRuntime: controlPlaneDNSRuntime{dnsController: env.c},
	}
	all := c09GenClients(t, mode)
	nConns := rapid.IntRange(1, 2).Draw(t, "nConns")
	conns := make([]*c09FPConn, nConns)
	for i := range conns {
		src := netip.AddrPortFrom(netip.AddrFrom4([4]byte{192, 0, 2, byte(20 + i)}), uint16(50000+i))
		conns[i] = &c09FPConn{idx: i, conn: c09NewClientConn(src, netip.MustParseAddrPort("192.0.2.53:53"))}
	}
	for i, q := range all {
		fc := conns[0]
		if nConns == 2 && i > 0 {
			fc = conns[rapid.IntRange(0, 1).Draw(t, "onConn")]
		}
		if len(fc.queries) >= 5 {
			continue
		}
		b, perr := q.msg.Pack()
		if perr != nil {
			t.Fatalf("harness: %v", perr)
		}
		frame := make([]byte, 2+len(b))
		binary.BigEndian.PutUint16(frame, uint16(len(b)))
		copy(frame[2:], b)
		fc.queries = append(fc.queries, q)
		fc.frames = append(fc.frames, frame)
	}
	defer func() {
		for _, fc := range conns {
			fc.conn.clientClose()
			_ = fc.conn.Close()
		}
	}()

	var trace []string
	classes := map[string]bool{"mode:" + mode: true}
	fail := func(format string, a ...any) {
		t.Fatalf("C09 violated (DNS-over-TCP client connection): %s\nmode=%s\nschedule:\n  %s", fmt.Sprintf(format, a...), mode, strings.Join(trace, "\n  "))
	}
	start := func(fc *c09FPConn) {
		fc.mu.Lock()
		if fc.started {
			fc.mu.Unlock()
			return
		}
		fc.started = true
		fc.mu.Unlock()
		go func() {
			src := fc.conn.raddr.(*net.TCPAddr).AddrPort()
			dst := fc.conn.laddr.(*net.TCPAddr).AddrPort()
			// as ControlPlane.handleConn does for port 53
			handled, herr := cp.handleTCPDnsFastPath(context.Background(), fc.conn, bufio.NewReader(fc.conn), src, dst, &bpfRoutingResult{})
			_ = fc.conn.Close()
			fc.mu.Lock()
			fc.returned, fc.handled, fc.err = true, handled, herr
			fc.mu.Unlock()
		}()
	}
	collect := func() {
		for _, fc := range conns {
			msgs, perr := fc.conn.takeReplies()
			if perr != nil {
				fail("conn %d: %v", fc.idx, perr)
			}
			for _, m := range msgs {
				if fc.replies >= fc.sent {
					fail("conn %d: reply %d arrived but only %d queries were sent\n    reply: %s", fc.idx, fc.replies+1, fc.sent, strings.ReplaceAll(m.String(), "\n", "\n    "))
				}
				q := fc.queries[fc.replies]
				if cerr := c09CheckReply(m, true, q.id, q.name, q.qtype); cerr != nil {
					fail("conn %d: reply %d does not answer query %d (%s): %v\n    reply: %s", fc.idx, fc.replies+1, fc.replies+1, q, cerr, strings.ReplaceAll(m.String(), "\n", "\n    "))
				}
				if fc.replies > 0 {
					classes["reply-on-reused-conn"] = true
					p := fc.queries[fc.replies-1]
					if p.id != q.id || p.key != q.key {
						classes["reused-conn-different-query"] = true
					}
				}
				fc.replies++
			}
		}
	}
	quiesce := func() {
		synctest.Wait()
		w.failOnViolations(t, &trace)
		collect()
	}
	faulty := false
	release := func(call *c09Call) {
		act := c09DrawAction(t, call, c09UnitFP)
		if act.kind != c09ActOK {
			faulty = true
		}
		classes["upstream:"+c09ActNames[act.kind]] = true
		trace = append(trace, fmt.Sprintf("release call#%d fwd#%d(%s) %s/%d -> %s", call.serial, call.fwd.id, call.fwd.proto, call.req.Question[0].Name, call.req.Question[0].Qtype, c09ActString(act)))
		w.release(call, act)
		if !c09WaitReturned(w, call) {
			fail("harness: released call #%d did not return", call.serial)
		}
	}
	send := func(fc *c09FPConn, k int, split bool) {
		var buf []byte
		if fc.tail != nil {
			buf = append(buf, fc.tail...)
			fc.tail = nil
			fc.sent++
		}
		for i := 0; i < k && fc.sent < len(fc.frames); i++ {
			fr := fc.frames[fc.sent]
			if split && (i == k-1 || fc.sent == len(fc.frames)-1) {
				cut := 1 + (len(fr)-1)/2
				buf = append(buf, fr[:cut]...)
				fc.tail = append([]byte(nil), fr[cut:]...)
				classes["split-frame"] = true
				break
			}
			buf = append(buf, fr...)
			fc.sent++
		}
		if k > 1 {
			classes["pipelined"] = true
		}
		trace = append(trace, fmt.Sprintf("conn %d: write %d bytes (queries sent so far %d of %d, split=%v)", fc.idx, len(buf), fc.sent, len(fc.frames), fc.tail != nil))
		fc.conn.push(buf)
		start(fc)
	}
	unsent := func() []*c09FPConn {
		var out []*c09FPConn
		for _, fc := range conns {
			if (fc.sent < len(fc.frames) || fc.tail != nil) && len(fc.frames) > 0 {
				out = append(out, fc)
			}
		}
		return out
	}

	for step := 0; step < 80; step++ {
		quiesce()
		parked := w.parked()
		us := unsent()
		var opts []string
		if len(us) > 0 {
			opts = append(opts, "send", "send")
		}
		if len(parked) > 0 {
			opts = append(opts, "release", "release", "release")
		}
		if len(opts) == 0 {
			break
		}
		opts = append(opts, "advance")
		switch rapid.SampledFrom(opts).Draw(t, "step") {
		case "send":
			fc := us[rapid.IntRange(0, len(us)-1).Draw(t, "conn")]
			k := rapid.IntRange(1, 3).Draw(t, "frames")
			split := rapid.IntRange(0, 5).Draw(t, "split") == 0
			send(fc, k, split)
		case "release":
			release(parked[rapid.IntRange(0, len(parked)-1).Draw(t, "which")])
		case "advance":
			d := rapid.SampledFrom([]time.Duration{time.Millisecond, time.Second, 4 * time.Second, 9 * time.Second, 61 * time.Second}).Draw(t, "sleep")
			trace = append(trace, "advance "+d.String())
			time.Sleep(d)
		}
	}
	// drain
	for guard := 0; guard < 300; guard++ {
		quiesce()
		if us := unsent(); len(us) > 0 {
			send(us[0], 5, false)
			continue
		}
		if p := w.parked(); len(p) > 0 {
			release(p[0])
			continue
		}
		break
	}
	quiesce()
	for _, fc := range conns {
		if len(fc.frames) == 0 {
			continue
		}
		if !fc.hasReturned() && fc.replies != fc.sent {
			fail("conn %d: the handler is alive and nothing is pending upstream, but only %d of %d queries were answered", fc.idx, fc.replies, fc.sent)
		}
		if fc.replies < fc.sent {
			classes["conn-cut-short"] = true
		}
		if fc.replies > 1 {
			classes["conn-reused"] = true
		}
		fc.conn.clientClose()
	}
	quiesce()
	for _, fc := range conns {
		if len(fc.frames) > 0 && !fc.hasReturned() {
			fail("conn %d: the handler did not return after the client closed the connection", fc.idx)
		}
	}
	nt := ""
	if classes["reply-on-reused-conn"] || faulty {
		nt = mode + "\n" + strings.Join(trace, "\n")
	}
	cls := make([]string, 0, len(classes))
	for k := range classes {
		cls = append(cls, k)
	}
	sort.Strings(cls)
	vkCase(c09UnitFP, nt, func() any {
		return map[string]any{"mode": mode, "conns": nConns, "schedule": trace}
	}, cls...)
}

func TestC09_TCPFastPath(tt *testing.T) {
	rapid.Check(tt, func(t *rapid.T) {
		c09RunBubble(tt, func() { c09TCPFastCase(t) })
	})
}

package control

// C03 — datapath verdicts and the per-flow hand-over: environment, replay log and the
// reference model of the *statement* (per flow: tracked?, decision, closing?, last seen,
// wan-originated?). The first-packet decision comes from the independent interpreter of
// the written rule list (vrInterpret, shared_rules_test.go); everything else below is
// derived from the property statement and the comments/docs of tproxy.c that the
// statement refers to ("documented idle timeouts": 120 s, 10 s after FIN/RST, lazy 1 s
// refresh). Where the statement is silent the model accepts every behaviour.

import (
	"bytes"
	"crypto/sha1"
	"encoding/binary"
	"encoding/hex"
	"errors"
	"fmt"
	"net/netip"
	"os"
	"reflect"
	"strings"
	"unsafe"

	"github.com/cilium/ebpf"
	"github.com/daeuniverse/dae/common"
	"github.com/daeuniverse/dae/common/consts"
	"github.com/daeuniverse/dae/component/outbound/dialer"
	"pgregory.net/rapid"
)

const (
	c03LanIf   = 3
	c03WanIf   = 4
	c03DaeIf   = 77
	c03CpPid   = 4242
	c03TproxyP = 12345

	c03OrigLan     = 0 // LAN client -> internet, captured at lan_ingress
	c03OrigWan     = 1 // local process -> internet, captured at wan_egress
	c03OrigInLocal = 2 // connection opened from the WAN side to a local service; replies leave through wan_egress
	c03OrigInLan   = 3 // connection opened from the WAN side to a LAN service; replies enter lan_ingress

	c03Sec = uint64(1000000000)

	// provisional id of the "locally originated direct UDP flow is not sticky" finding
	c03FindingUdpSticky = "F9"
)

var (
	c03GwMac   = [6]byte{0x02, 0xaa, 0xbb, 0xcc, 0xdd, 0x01}
	c03PeerMac = [6]byte{0x02, 0x09, 0x09, 0x09, 0x09, 0x09}
)

type c03Decision struct {
	Ob   uint8
	Mark uint32
	Must bool
}

type c03Flow struct {
	ID     int
	Pk     vrPacket // forward direction = the direction the capturing hook sees
	V6     bool
	TCP    bool
	Origin int
	Exts   []uint8
	IHL    uint8
	// process behind a locally originated flow
	Cookie     uint64
	Pid        uint32
	ProcName   string
	Registered bool
	Pname      [16]byte // what the kernel is expected to know about the process
	DaeKind    int      // 0 none, 1 dae's pid, 2 dae's socket mark, 3 mark bit 0x100
	// model state
	Tracked       bool
	HasDecision   bool
	Closing       bool
	WanOriginated bool
	Tainted       bool // a local socket matches: pass-through or routed, both accepted
	Dec           c03Decision
	Last          uint64
	// the SYN of this (untracked: state table full) connection was forwarded carrying
	// the rule's non-zero mark: forwarded traffic of that connection carries it too
	Half     bool
	HalfMark uint32
	// bookkeeping for the non-triviality rule
	FwdPackets   int
	FirstByRule  bool
	StickyProbed bool
}

func (f *c03Flow) lanSide() bool { return f.Origin == c03OrigLan || f.Origin == c03OrigInLan }
func (f *c03Flow) proto() uint8 {
	if f.TCP {
		return 6
	}
	return 17
}
func (f *c03Flow) stateless() bool {
	return !f.TCP && (f.Pk.Src.Port() == 53 || f.Pk.Dst.Port() == 53)
}
func (f *c03Flow) String() string {
	return fmt.Sprintf("flow%d[%s %v->%v origin=%d dae=%d]", f.ID, f.Pk.L4, f.Pk.Src, f.Pk.Dst, f.Origin, f.DaeKind)
}

type c03Op struct {
	label string
	fn    func(k *ksSim, slow bool) []byte
}

type c03Env struct {
	t  ksTB
	k  *ksSim
	kc map[string]int64

	ops     []c03Op
	digests [][]byte

	lanL2, wanL2 bool
	usePeer      bool
	sockMark     uint32
	hasTask      bool

	prog vrProgram
	comp *vrCompiled
	m    *RoutingMatcher
	text string

	now          uint64
	alive        map[uint32]bool
	mapFull      bool
	forceTCP     uint8 // non-zero: the next generated TCP frames carry exactly these flags, well-formed
	connMax      uint32
	domains      map[netip.Addr]string
	bitmapKeys   map[netip.Addr][]byte
	socks        []ksSock
	flows        []*c03Flow
	trace        []string
	cls          map[string]int
	f8Excluded   int
	f9Excluded   int
	aimProc      bool // histories aimed at process-name rules on the WAN-egress hook
	lastWanKnown bool

	// optional layer: real eBPF maps mirroring kernsim's, read by the real Go retrieval code
	real     *c03RealMaps
	pending  []c03Pending
	lastWant map[int]bpfRoutingResult
}

type c03Pending struct {
	f        *c03Flow
	src, dst netip.AddrPort
	desc     string
}

// c03RealMaps: real BPF hash maps (bpf(2)) standing in for conn_state_map and
// routing_handoff_map inside a controlPlaneCore, so that RetrieveRoutingResult itself runs.
// The stub-build Go value types lack the explicit trailing padding bpf2go emits, so
// cilium/ebpf can only decode them from exactly binary.Size bytes: the mirror maps use
// that value size and store the kernel value with the C struct's trailing padding cut.
type c03RealMaps struct {
	core          *controlPlaneCore
	conn, handoff *ebpf.Map
	connSize      int
	handoffSize   int
}

var c03RealUnavailable error

func c03TryRealMaps() (*c03RealMaps, error) {
	if c03RealUnavailable != nil {
		return nil, c03RealUnavailable
	}
	r := &c03RealMaps{connSize: binary.Size(bpfConnState{}), handoffSize: binary.Size(bpfRoutingHandoffEntry{})}
	ksize := binary.Size(bpfTuplesKey{})
	if r.connSize <= 0 || r.handoffSize <= 0 || ksize <= 0 {
		c03RealUnavailable = fmt.Errorf("Go map types are not fixed-size")
		return nil, c03RealUnavailable
	}
	var err error
	r.conn, err = ebpf.NewMap(&ebpf.MapSpec{Name: "c03_conn_state", Type: ebpf.Hash, KeySize: uint32(ksize), ValueSize: uint32(r.connSize), MaxEntries: 4096})
	if err != nil {
		c03RealUnavailable = fmt.Errorf("bpf(BPF_MAP_CREATE): %w", err)
		return nil, c03RealUnavailable
	}
	r.handoff, err = ebpf.NewMap(&ebpf.MapSpec{Name: "c03_handoff", Type: ebpf.Hash, KeySize: uint32(ksize), ValueSize: uint32(r.handoffSize), MaxEntries: 4096})
	if err != nil {
		_ = r.conn.Close()
		c03RealUnavailable = fmt.Errorf("bpf(BPF_MAP_CREATE): %w", err)
		return nil, c03RealUnavailable
	}
	r.core = &controlPlaneCore{}
	r.core.bpf.Store(&bpfObjects{bpfMaps: bpfMaps{ConnStateMap: r.conn, RoutingHandoffMap: r.handoff}})
	return r, nil
}

func (r *c03RealMaps) Close() {
	if r != nil {
		_ = r.conn.Close()
		_ = r.handoff.Close()
	}
}

// mirror applies the map operations of one program run to the real maps, key by key and
// in order (never a wholesale copy: whatever the Go side did to other keys stays).
func (e *c03Env) mirror(ops []ksOp) {
	if e.real == nil {
		return
	}
	seen := map[string]bool{}
	for _, o := range ops {
		var m *ebpf.Map
		size := 0
		switch {
		case o.Map == "conn_state_map": // looked-up values are modified in place
			m, size = e.real.conn, e.real.connSize
		case o.Map == "routing_handoff_map" && o.Op != 'L':
			m, size = e.real.handoff, e.real.handoffSize
		default:
			continue
		}
		id := o.Map + string(o.Key)
		if seen[id] {
			continue
		}
		seen[id] = true
		v, ok := e.k.MapLookup(o.Map, o.Key)
		if ok {
			if len(v) < size {
				e.failf("%s: the kernel value has %d bytes, the Go type marshals to %d", o.Map, len(v), size)
			}
			for _, b := range v[size:] {
				if b != 0 {
					e.failf("%s: kernel value carries data beyond the %d bytes the Go type covers: %x", o.Map, size, v)
				}
			}
			if err := m.Update(o.Key, v[:size], ebpf.UpdateAny); err != nil {
				ksHarnessFatal("real map update: %v", err)
			}
		} else if err := m.Delete(o.Key); err != nil && !errors.Is(err, ebpf.ErrKeyNotExist) {
			ksHarnessFatal("real map delete: %v", err)
		}
	}
}

// drain: userspace gets round to the redirected packets that are still queued and asks
// the real RetrieveRoutingResult for each of them.
func (e *c03Env) drain(only *c03Flow) {
	if e.real == nil || len(e.pending) == 0 {
		return
	}
	var keep []c03Pending
	perFlow := map[int]int{}
	for _, p := range e.pending {
		if only != nil && p.f != only {
			keep = append(keep, p)
			continue
		}
		perFlow[p.f.ID]++
		want := e.lastWant[p.f.ID]
		res, err := e.real.core.RetrieveRoutingResult(p.src, p.dst, p.f.proto())
		if err != nil {
			e.failf("the kernel redirected this packet to dae, but the control plane cannot recover its record: RetrieveRoutingResult(%v, %v, %d) = %v (queued packet #%d of this 5-tuple)\n  %s", p.src, p.dst, p.f.proto(), err, perFlow[p.f.ID], p.desc)
		}
		if *res != want {
			e.failf("RetrieveRoutingResult(%v, %v, %d) differs from the kernel's decision (queued packet #%d of this 5-tuple)\n got  %+v\n want %+v\n  %s", p.src, p.dst, p.f.proto(), perFlow[p.f.ID], *res, want, p.desc)
		}
		e.class("real_retrieve_checked")
		if perFlow[p.f.ID] > 1 {
			e.class("real_retrieve_queued_same_tuple")
		}
	}
	e.pending = keep
}

func (e *c03Env) class(c string) { e.cls[c]++ }

func (e *c03Env) logf(format string, a ...any) {
	if len(e.trace) < 400 {
		e.trace = append(e.trace, fmt.Sprintf(format, a...))
	}
}

func (e *c03Env) failf(format string, a ...any) {
	e.t.Fatalf("%s\n--- history ---\n%s\n--- config ---\n%s", fmt.Sprintf(format, a...), strings.Join(e.trace, "\n"), e.text)
}

// exec runs one kernel-affecting operation now (fast run) and records it for the
// replay with the byte-load parsing path forced.
func (e *c03Env) exec(label string, fn func(k *ksSim, slow bool) []byte) {
	d := fn(e.k, false)
	e.ops = append(e.ops, c03Op{label, fn})
	e.digests = append(e.digests, d)
}

func c03I32(v int32) []byte { return binary.LittleEndian.AppendUint32(nil, uint32(v)) }

func (e *c03Env) mapUpdate(name string, key, val []byte) {
	e.exec("update "+name, func(k *ksSim, slow bool) []byte {
		r := k.MapUpdate(name, key, val, 0)
		if r != 0 && !slow {
			e.failf("harness map update %s failed: %d", name, r)
		}
		return c03I32(r)
	})
}

func (e *c03Env) mapDelete(name string, key []byte) {
	e.exec("delete "+name, func(k *ksSim, slow bool) []byte { return c03I32(k.MapDelete(name, key)) })
}

func (e *c03Env) setClock(ns uint64) {
	e.now = ns
	e.exec("clock", func(k *ksSim, slow bool) []byte { k.SetClock(ns); return nil })
}

func c03RunDigest(o ksRunOut) []byte {
	h := sha1.Sum(o.Frame)
	var ev []string
	for _, x := range o.Events {
		ev = append(ev, hex.EncodeToString(x)) // struct dae_event; identical clocks in both runs
	}
	return []byte(fmt.Sprintf("verdict=%d skb->mark=%#x cb=%v pkt_type=%d redirect(kind=%d ifindex=%d flags=%#x) sk_assign=%d leaked_sk_refs=%d frame(len=%d sha1=%x) events=%v",
		o.Verdict, o.Mark, o.Cb, o.PktType, o.RedirectKind, o.RedirectIfindex, o.RedirectFlags, o.AssignedSock, o.SockRefsLeaked, len(o.Frame), h[:6], ev))
}

func (e *c03Env) run(label, prog string, in ksRunIn) ksRunOut {
	var out ksRunOut
	in.NoLog = e.real == nil
	defer func() { e.mirror(out.Ops) }()
	e.exec(label, func(k *ksSim, slow bool) []byte {
		in2 := in
		if slow {
			in2.LinearLen = 0
			in2.PullFails = true
			in2.NoLog = true
		}
		o := k.Run(prog, in2)
		if !slow {
			out = o
		}
		return c03RunDigest(o)
	})
	return out
}

// c03Raw: the in-memory bytes of a Go value (what a bpf2go type with explicit padding
// would marshal to); c03FromRaw: decode a kernel value with the Go struct layout.
func c03Raw(ptr any) []byte {
	v := reflect.ValueOf(ptr)
	n := int(v.Type().Elem().Size())
	return append([]byte(nil), unsafe.Slice((*byte)(v.UnsafePointer()), n)...)
}

func (e *c03Env) fromRaw(ptr any, b []byte, what string) {
	v := reflect.ValueOf(ptr)
	n := int(v.Type().Elem().Size())
	if n != len(b) {
		e.failf("%s: the kernel value has %d bytes, the Go struct %T %d", what, len(b), ptr, n)
	}
	copy(unsafe.Slice((*byte)(v.UnsafePointer()), n), b)
}

// ------------------------------------------------------------------- setup

func (e *c03Env) connKey(ob uint8, tcp, v6 bool) uint32 {
	nt := dialer.NetworkType{L4Proto: consts.L4ProtoStr_TCP, IpVersion: consts.IpVersionStr_4}
	if !tcp {
		nt.L4Proto = consts.L4ProtoStr_UDP
		nt.UdpHealthDomain = dialer.UdpHealthDomainData
	}
	if v6 {
		nt.IpVersion = consts.IpVersionStr_6
	}
	return outboundConnectivityMapKey(ob, &nt)
}

func (e *c03Env) setAlive(ob uint8, tcp, v6, alive bool) {
	key := e.connKey(ob, tcp, v6)
	e.alive[key] = alive
	v := uint32(0)
	if alive {
		v = 1
	}
	e.mapUpdate("outbound_connectivity_map", ksMarshal(key), ksMarshal(v))
}

func (e *c03Env) installProgram(p vrProgram, first bool) {
	text := vrRender(p)
	c, err := vrCompile(text, vrCompileOpts{})
	if err != nil {
		e.t.Fatalf("well-formed routing program rejected: %v\n%s", err, text)
	}
	snap := c.Builder.KernspaceSnapshot()
	cp := c02BuildKernspace(e.t, snap)
	m, err := c.Builder.BuildUserspace()
	if err != nil {
		e.t.Fatalf("BuildUserspace: %v\n%s", err, text)
	}
	e.prog, e.comp, e.m, e.text = p, c, m, text
	e.exec("install rules", func(k *ksSim, slow bool) []byte {
		c02Install(e.t, k, cp)
		return nil
	})
	e.logf("RULES installed (%d match sets)", cp.n)
	// domain bitmaps are positions in the rule list: re-sync every learned address
	for a := range e.domains {
		e.syncDomain(a)
	}
}

func (e *c03Env) syncDomain(a netip.Addr) {
	if old := e.bitmapKeys[a]; old != nil {
		e.mapDelete("domain_routing_map", old)
		delete(e.bitmapKeys, a)
	}
	d := e.domains[a]
	if d == "" {
		return
	}
	bm := e.m.domainMatcher.MatchDomainBitmap(d)
	var val bpfDomainRouting
	if len(bm) != len(val.Bitmap) {
		e.failf("domain bitmap length not sync with kern program: %d vs %d", len(bm), len(val.Bitmap))
	}
	copy(val.Bitmap[:], bm)
	zero := true
	for _, w := range bm {
		zero = zero && w == 0
	}
	if zero {
		return
	}
	a16 := a.As16()
	key := common.Ipv6ByteSliceToUint32Array(a16[:])
	kb := ksMarshal(&key)
	e.bitmapKeys[a] = kb
	e.mapUpdate("domain_routing_map", kb, ksMarshal(&val))
}

func (e *c03Env) pushSockets() {
	s := append([]ksSock(nil), e.socks...)
	e.exec("sockets", func(k *ksSim, slow bool) []byte { return c03I32(k.Sockets(s)) })
}

func (e *c03Env) setup(usePeer bool, sockMark uint32, hasTask bool) {
	e.usePeer, e.sockMark, e.hasTask = usePeer, sockMark, hasTask
	p := bpfDaeParam{TproxyPort: uint32(ksHtons(c03TproxyP)), ControlPlanePid: c03CpPid, Dae0Ifindex: c03DaeIf, DaeNetnsId: 0,
		Dae0peerMac: c03PeerMac, DaeSocketMark: sockMark}
	if usePeer {
		p.UseRedirectPeer = 1
	}
	if hasTask {
		p.HasBpfGetCurrentTask = 1
	}
	raw := c03Raw(&p)
	e.exec("param", func(k *ksSim, slow bool) []byte { k.SetParam(raw); return nil })
	base := 1000 * c03Sec
	if e.real != nil {
		// the real retrieval code compares routing_handoff_map timestamps with CLOCK_MONOTONIC:
		// keep the simulated kernel clock ahead of it so that entries count as fresh
		if now, err := monotonicNowNano(); err == nil {
			base = now + 1000000*c03Sec
		}
	}
	e.setClock(base)
	for ob := uint8(0); ob < 6; ob++ {
		for _, tcp := range []bool{true, false} {
			for _, v6 := range []bool{false, true} {
				e.setAlive(ob, tcp, v6, true)
			}
		}
	}
	// dae's listeners
	e.socks = []ksSock{
		{ID: 1, Proto: 6, Family: 4, State: ksBpfTcpListen, ListenSlot: 0, LocalPort: c03TproxyP, Mark: sockMark},
		{ID: 2, Proto: 17, Family: 6, State: 7, ListenSlot: 1, LocalPort: c03TproxyP, Mark: sockMark},
		{ID: 3, Proto: 6, Family: 6, State: ksBpfTcpListen, ListenSlot: 2, LocalPort: c03TproxyP, Mark: sockMark},
	}
	e.pushSockets()
}

// registerProcess runs the real cgroup program that fills cookie_pid_map.
func (e *c03Env) registerProcess(f *c03Flow) {
	var comm [16]byte
	n := f.ProcName
	if len(n) > 15 {
		copy(comm[:], n[:15])
	} else {
		copy(comm[:], n)
	}
	meta := ksSkbMeta{Cookie: f.Cookie, PidTgid: uint64(f.Pid)<<32 | uint64(f.Pid), Comm: comm, Args: "/usr/bin/" + n + " --flag x"}
	prog := "tproxy_wan_cg_sock_create"
	if f.V6 {
		prog = "tproxy_wan_cg_connect6"
	} else if f.ID%2 == 1 {
		prog = "tproxy_wan_cg_connect4"
	}
	out := e.run("register process", prog, ksRunIn{Meta: meta})
	if out.Verdict != 1 {
		e.failf("%s returned %d", prog, out.Verdict)
	}
	f.Registered = true
	f.Pname = [16]byte{}
	if e.hasTask {
		copy(f.Pname[:], n) // basename of argv[0], first 16 bytes
	} else {
		copy(f.Pname[:], comm[:15]) // task comm: at most 15 bytes
	}
	e.logf("PROCESS cookie=%d pid=%d name=%q registered through %s", f.Cookie, f.Pid, n, prog)
}

// ------------------------------------------------------------------- frames

type c03FrameOpts struct {
	Flags     uint8 // TCP flags
	Payload   int
	FragOff   uint16 // != 0: non-initial fragment
	FragHdr   bool   // first fragment: offset 0 with "more fragments" set (IPv4 MF / IPv6 fragment header with M); carries the whole L4 header
	Cut       int    // > 0: truncate the frame to Cut bytes
	Reverse   bool
	HookL2    bool
	Malformed bool // computed
}

func (e *c03Env) frame(f *c03Flow, o *c03FrameOpts) ([]byte, uint32) {
	p := ksPkt{L2: o.HookL2, V6: f.V6, Proto: f.proto(), TCPFlags: o.Flags, Dscp: f.Pk.Dscp, IHL: f.IHL, FragOff: o.FragOff, MoreFrag: o.FragHdr,
		Payload: make([]byte, o.Payload)}
	for i := range p.Payload {
		p.Payload[i] = byte(i)
	}
	p.ExtHdrs = append([]uint8(nil), f.Exts...)
	if f.V6 && (o.FragOff != 0 || o.FragHdr) {
		p.ExtHdrs = append(p.ExtHdrs, 44)
	}
	if !o.Reverse {
		p.SrcMac, p.DstMac = f.Pk.Mac, c03GwMac
		p.SrcIP, p.DstIP = f.Pk.Src.Addr().As16(), f.Pk.Dst.Addr().As16()
		p.Sport, p.Dport = f.Pk.Src.Port(), f.Pk.Dst.Port()
	} else {
		p.SrcMac, p.DstMac = c03GwMac, f.Pk.Mac
		p.SrcIP, p.DstIP = f.Pk.Dst.Addr().As16(), f.Pk.Src.Addr().As16()
		p.Sport, p.Dport = f.Pk.Dst.Port(), f.Pk.Src.Port()
	}
	b := p.Bytes()
	// end of the headers the programs need
	hdrEnd := 0
	if o.HookL2 {
		hdrEnd += 14
	}
	if f.V6 {
		hdrEnd += 40 + 8*len(p.ExtHdrs)
	} else {
		ihl := int(f.IHL)
		if ihl < 5 {
			ihl = 5
		}
		hdrEnd += 4 * ihl
	}
	if o.FragOff == 0 {
		if f.TCP {
			hdrEnd += 20
		} else {
			hdrEnd += 8
		}
	}
	if o.Cut > 0 && o.Cut < len(b) {
		b = b[:o.Cut]
		if o.Cut < hdrEnd {
			o.Malformed = true
		}
	}
	return b, p.Protocol()
}

// ------------------------------------------------------------------- model

type c03Expect struct {
	Any       bool
	Malformed bool // verdict in {OK, SHOT}, no state change
	Pass      bool // verdict in {OK, PIPE}, frame untouched, not redirected
	CheckMark bool
	Mark      uint32
	Shot      bool
	Redirect  bool
	AltShot   bool // SHOT is accepted as well (statement silent: state table full)
	NoteHalf  bool // if this SYN is let through (not SHOT), remember its mark (c03Flow.Half)
	Dec       c03Decision
	Why       string
}

func (e *c03Env) decide(f *c03Flow) (c03Decision, vrDecision) {
	pk := f.Pk
	if f.lanSide() {
		pk.Pname = [16]byte{}
		if !e.lanL2 {
			pk.Mac = [6]byte{}
		}
	} else {
		pk.Pname = [16]byte{}
		if f.Registered {
			pk.Pname = f.Pname
		}
		if !e.wanL2 {
			pk.Mac = [6]byte{}
		}
	}
	pk.Domain = e.domains[pk.Dst.Addr().Unmap()]
	d := vrInterpret(e.prog, pk)
	id, ok := e.comp.Name2Id[d.Outbound]
	if !ok {
		e.failf("interpreter chose unknown outbound %q", d.Outbound)
	}
	dec := c03Decision{Ob: id, Mark: d.Mark, Must: d.Must}
	if pk.Dst.Port() == 53 && !d.Must {
		// DNS not covered by a must rule is handed to the control plane (C02)
		dec = c03Decision{Ob: uint8(e.kc["OUTBOUND_CONTROL_PLANE_ROUTING"]), Mark: d.Mark, Must: false}
	}
	return dec, d
}

func (e *c03Env) verdictFor(f *c03Flow, dec c03Decision, why string) c03Expect {
	x := c03Expect{Dec: dec, Why: why}
	dns := f.Pk.Dst.Port() == 53
	switch {
	case dec.Ob == uint8(e.kc["OUTBOUND_DIRECT"]):
		if f.lanSide() {
			x.Pass, x.CheckMark, x.Mark = true, true, dec.Mark
		} else if dec.Mark == 0 {
			x.Pass, x.CheckMark, x.Mark = true, true, 0
		} else {
			x.Redirect = true // locally originated traffic that needs a mark is handed to dae
		}
	case dec.Ob == uint8(e.kc["OUTBOUND_BLOCK"]):
		x.Shot = true
	default:
		if dns || e.alive[e.connKey(dec.Ob, f.TCP, f.V6)] {
			x.Redirect = true
		} else {
			x.Shot = true
			x.Why += " (health bit down)"
			e.class("liveness_drop")
		}
	}
	return x
}

func (e *c03Env) timeoutOf(f *c03Flow) uint64 {
	if f.TCP && f.Closing {
		return 10 * c03Sec
	}
	return 120 * c03Sec
}

// disambiguate: the kernel refreshes last-seen lazily (only when more than 1 s has
// passed), so for an idle gap in (timeout-1s, timeout] both "still tracked" and
// "expired" are legitimate. Histories step over that window.
func (e *c03Env) disambiguate(f *c03Flow) {
	if !f.Tracked {
		return
	}
	T := e.timeoutOf(f)
	g := e.now - f.Last
	if g > T-c03Sec && g <= T {
		e.setClock(f.Last + T + 1)
		e.logf("CLOCK stepped to %d ns (over the lazy-refresh window of %v)", e.now, f)
	}
}

func (e *c03Env) expire(f *c03Flow) {
	if f.Tracked && e.now-f.Last > e.timeoutOf(f) {
		f.Tracked, f.HasDecision, f.Closing, f.WanOriginated = false, false, false, false
		e.class("timeout_crossed")
	}
}

func (e *c03Env) newDecision(f *c03Flow) c03Decision {
	dec, d := e.decide(f)
	if f.FwdPackets == 0 || !f.Tracked {
		f.FirstByRule = d.Rule >= 0
	}
	return dec
}

// forward: a well-formed, non-fragment packet of f on its capturing hook.
func (e *c03Env) forward(f *c03Flow, flags uint8) c03Expect {
	if !f.lanSide() && f.DaeKind != 0 {
		e.class("dae_own_packet")
		return c03Expect{Pass: true, CheckMark: false, Why: "packet sent by dae itself"}
	}
	if f.Tainted {
		return c03Expect{Any: true, Why: "a local socket matches this flow"}
	}
	e.expire(f)
	if f.TCP {
		newConn := flags&ksTCPSyn != 0 && flags&ksTCPAck == 0
		if !newConn {
			if !f.Tracked {
				if f.Half {
					e.class("segment_after_marked_syn_of_untrackable_flow")
					return c03Expect{Pass: true, CheckMark: true, Mark: f.HalfMark, AltShot: true,
						Why: "segment of a direct connection whose SYN was forwarded with the rule's mark although the state table was full: a mark given on the rule is set on forwarded LAN traffic"}
				}
				return c03Expect{Any: true, Why: "TCP segment of an untracked flow (statement silent)"}
			}
			f.Last = e.now
			if flags&(ksTCPFin|ksTCPRst) != 0 {
				f.Closing = true
			}
			if !f.HasDecision {
				if f.WanOriginated {
					e.class("reply_of_wan_originated_tcp")
				}
				return c03Expect{Pass: true, Why: "tracked flow without a routing decision (reply of a WAN-originated connection)"}
			}
			// is the sticky decision distinguishable from what the rules say now?
			if now, _ := e.decide(f); now != f.Dec {
				f.StickyProbed = true
				e.class("sticky_vs_current_rules_differ")
			}
			return e.verdictFor(f, f.Dec, "sticky decision of the first packet")
		}
		dec := e.newDecision(f)
		f.Half = false
		if e.mapFull {
			f.Tracked, f.HasDecision, f.Closing, f.WanOriginated = false, false, false, false
			x := e.verdictFor(f, dec, "new connection, state table full")
			x.AltShot = true
			x.NoteHalf = x.Pass && x.CheckMark && x.Mark != 0
			e.class("map_full_new_flow")
			return x
		}
		f.Tracked, f.HasDecision, f.Closing, f.WanOriginated, f.Dec, f.Last = true, true, false, false, dec, e.now
		return e.verdictFor(f, dec, "first packet (SYN)")
	}
	// UDP
	if f.stateless() {
		dec := e.newDecision(f)
		return e.verdictFor(f, dec, "stateless DNS datagram")
	}
	if !f.Tracked {
		dec := e.newDecision(f)
		if e.mapFull {
			e.class("map_full_new_flow")
			return e.verdictFor(f, dec, "untracked datagram, state table full")
		}
		f.Tracked, f.HasDecision, f.Closing, f.WanOriginated, f.Dec, f.Last = true, true, false, false, dec, e.now
		if !f.lanSide() && dec.Ob == uint8(e.kc["OUTBOUND_DIRECT"]) && dec.Mark == 0 && !dec.Must && vkKnown(c03FindingUdpSticky) {
			f.HasDecision = false // known finding: this decision is not remembered
			e.f9Excluded++
		}
		return e.verdictFor(f, dec, "first datagram")
	}
	f.Last = e.now
	if f.WanOriginated {
		e.class("reply_of_wan_originated_udp")
		return c03Expect{Pass: true, Why: "reply of a flow opened from the WAN side"}
	}
	if !f.HasDecision {
		// only reachable while the UDP-stickiness finding is listed as known
		dec, _ := e.decide(f)
		if !(dec.Ob == uint8(e.kc["OUTBOUND_DIRECT"]) && dec.Mark == 0 && !dec.Must) {
			f.HasDecision, f.Dec = true, dec
		}
		return e.verdictFor(f, dec, "datagram of a tracked flow whose direct decision was not remembered (known finding)")
	}
	if now, _ := e.decide(f); now != f.Dec {
		f.StickyProbed = true
		e.class("sticky_vs_current_rules_differ")
	}
	return e.verdictFor(f, f.Dec, "sticky decision of the first datagram")
}

// reverse: a well-formed, non-fragment packet of the opposite direction on
// wan_ingress / lan_egress. These hooks never decide; they refresh (or open) tracking.
func (e *c03Env) reverse(f *c03Flow, flags uint8) {
	if f.stateless() {
		return
	}
	e.expire(f)
	if f.TCP {
		if flags&ksTCPSyn != 0 && flags&ksTCPAck == 0 {
			if e.mapFull {
				f.Tracked, f.HasDecision, f.Closing, f.WanOriginated = false, false, false, false
				return
			}
			f.Tracked, f.HasDecision, f.Closing, f.WanOriginated, f.Last = true, false, false, true, e.now
			e.class("wan_originated_tcp_opened")
			return
		}
		if f.Tracked {
			f.Last = e.now
			if flags&(ksTCPFin|ksTCPRst) != 0 {
				f.Closing = true
			}
		}
		return
	}
	if !f.Tracked {
		if e.mapFull {
			return
		}
		f.Tracked, f.HasDecision, f.Closing, f.WanOriginated, f.Last = true, false, false, true, e.now
		e.class("wan_originated_udp_opened")
		return
	}
	f.Last = e.now
}

// ------------------------------------------------------------------- checking

func (e *c03Env) verdictName(v int32) string {
	switch int64(v) {
	case e.kc["TC_ACT_OK"]:
		return "OK"
	case e.kc["TC_ACT_SHOT"]:
		return "SHOT"
	case e.kc["TC_ACT_PIPE"]:
		return "PIPE"
	case e.kc["TC_ACT_REDIRECT"]:
		return "REDIRECT"
	}
	return fmt.Sprint(v)
}

// retrieve mirrors controlPlaneCore.RetrieveRoutingResult: key by
// bpfTuplesKeyFromAddrPorts, conn_state_map first (embedded decision), then
// routing_handoff_map; values decoded with the Go structs.
func (e *c03Env) retrieve(src, dst netip.AddrPort, proto uint8) (*bpfRoutingResult, string) {
	tuples := bpfTuplesKeyFromAddrPorts(src, dst, proto)
	kb := ksMarshal(&tuples)
	if v, ok := e.k.MapLookup("conn_state_map", kb); ok {
		var cs bpfConnState
		e.fromRaw(&cs, v, "conn_state_map value")
		if cs.Meta.Data.HasRouting != 0 {
			r := routingResultFromConnState(cs.Meta.Data.Mark, cs.Meta.Data.Must, cs.Meta.Data.Outbound, cs.Mac, cs.Meta.Data.Dscp, cs.Pname, cs.Pid)
			return &r, "conn_state_map"
		}
	}
	if v, ok := e.k.MapLookup("routing_handoff_map", kb); ok {
		var en bpfRoutingHandoffEntry
		e.fromRaw(&en, v, "routing_handoff_map value")
		if routingHandoffExpired(e.now, en.LastSeenNs) {
			return nil, "routing_handoff_map (expired)"
		}
		r := routingResultFromConnState(en.Result.Mark, en.Result.Must, en.Result.Outbound, en.Result.Mac, en.Result.Dscp, en.Result.Pname, en.Result.Pid)
		return &r, "routing_handoff_map"
	}
	return nil, "nowhere"
}

func (e *c03Env) checkForward(f *c03Flow, desc string, in ksRunIn, out ksRunOut, x c03Expect, goSrc, goDst netip.AddrPort) {
	got := e.verdictName(out.Verdict)
	e.logf("  -> %s mark=%#x redirect=%d/if%d   [model: %s]", got, out.Mark, out.RedirectKind, out.RedirectIfindex, x.Why)
	if out.SockRefsLeaked != 0 {
		e.failf("%s: program leaked %d socket references", desc, out.SockRefsLeaked)
	}
	switch {
	case x.Any:
		return
	case x.Malformed:
		if got != "OK" && got != "SHOT" {
			e.failf("%s: malformed frame got verdict %s, want OK or SHOT", desc, got)
		}
		return
	}
	if x.AltShot && got == "SHOT" {
		return
	}
	if x.NoteHalf {
		f.Half, f.HalfMark = true, x.Mark
	}
	switch {
	case x.Pass:
		if got != "OK" && got != "PIPE" {
			e.failf("%s: verdict %s, the statement says the frame passes (%s)", desc, got, x.Why)
		}
		if out.RedirectKind != 0 {
			e.failf("%s: frame that must pass was handed to bpf_redirect (%s)", desc, x.Why)
		}
		if !bytes.Equal(out.Frame, in.Frame) {
			e.failf("%s: frame that must pass untouched was modified (%s)\n in  %x\n out %x", desc, x.Why, in.Frame, out.Frame)
		}
		if x.CheckMark && out.Mark != x.Mark {
			e.failf("%s: skb->mark = %#x, want %#x (%s)", desc, out.Mark, x.Mark, x.Why)
		}
	case x.Shot:
		if got != "SHOT" {
			e.failf("%s: verdict %s, the statement says the frame is dropped (%s; decision %+v)", desc, got, x.Why, x.Dec)
		}
	case x.Redirect:
		if got != "REDIRECT" {
			e.failf("%s: verdict %s, the statement says the frame is redirected to dae (%s; decision %+v)", desc, got, x.Why, x.Dec)
		}
		if out.RedirectIfindex != c03DaeIf || out.RedirectFlags != 0 {
			e.failf("%s: redirected to ifindex %d flags %#x, want dae0 (%d)", desc, out.RedirectIfindex, out.RedirectFlags, c03DaeIf)
		}
		if out.Cb[0] != uint32(e.kc["TPROXY_MARK"]) {
			e.failf("%s: cb[0] = %#x, want TPROXY_MARK", desc, out.Cb[0])
		}
		// the L3 packet travels unchanged
		l3 := in.Frame
		if (f.lanSide() && e.lanL2) || (!f.lanSide() && e.wanL2) {
			l3 = in.Frame[14:]
		}
		if len(out.Frame) < len(l3) || !bytes.Equal(out.Frame[len(out.Frame)-len(l3):], l3) {
			e.failf("%s: redirected frame does not carry the original packet", desc)
		}
		// hand-over record, recovered the way the control plane does
		want := bpfRoutingResult{Mark: x.Dec.Mark, Outbound: x.Dec.Ob, Dscp: f.Pk.Dscp}
		if x.Dec.Must {
			want.Must = 1
		}
		if f.lanSide() {
			if e.lanL2 {
				want.Mac = f.Pk.Mac
			}
		} else {
			if e.wanL2 {
				want.Mac = f.Pk.Mac
			}
			if f.Registered {
				want.Pname, want.Pid = f.Pname, f.Pid
			}
		}
		res, where := e.retrieve(goSrc, goDst, f.proto())
		if os.Getenv("VERIF_C03_REAL_ONLY") != "" && e.real != nil {
			// sensitivity testing of the real-map layer alone: skip the kernsim-side decode
			res, where = &want, "skipped"
		} else if res == nil {
			e.failf("%s: redirected to dae but RetrieveRoutingResult(%v, %v) finds no record (%s)", desc, goSrc, goDst, where)
		}
		if *res != want {
			e.failf("%s: hand-over record (%s) differs from the kernel's decision\n got  %+v\n want %+v", desc, where, *res, want)
		}
		e.class("handover_record_checked_" + where)
		if e.real != nil {
			e.lastWant[f.ID] = want
			e.pending = append(e.pending, c03Pending{f: f, src: goSrc, dst: goDst, desc: desc})
		}
		// dae0peer: only frames carrying the mark get in; they come out marked for the tproxy route
		peer := e.run("dae0peer", "tproxy_dae0peer_ingress", ksRunIn{Meta: ksSkbMeta{Protocol: in.Meta.Protocol, Ifindex: c03DaeIf + 1, IngressIfindex: c03DaeIf + 1, Cb: out.Cb, PktType: 3}, Frame: out.Frame, LinearLen: uint32(len(out.Frame))})
		if e.verdictName(peer.Verdict) != "OK" || peer.Mark != uint32(e.kc["TPROXY_MARK"]) || peer.SockRefsLeaked != 0 {
			e.failf("%s: dae0peer_ingress on the redirected frame: verdict %s mark %#x leaked refs %d", desc, e.verdictName(peer.Verdict), peer.Mark, peer.SockRefsLeaked)
		}
		e.replyThroughDae0(f, desc, in)
	}
}

// replyThroughDae0: what dae sends back for a redirected flow enters dae0_ingress and must
// be steered to the interface the original frame was captured on (into the stack for
// locally originated flows), with the link addresses of the original frame swapped.
func (e *c03Env) replyThroughDae0(f *c03Flow, desc string, orig ksRunIn) {
	o := c03FrameOpts{Flags: ksTCPAck, Payload: 8, Reverse: true, HookL2: true}
	frame, proto := e.frame(f, &o)
	in := ksRunIn{Meta: ksSkbMeta{Protocol: proto, Ifindex: c03DaeIf, IngressIfindex: c03DaeIf}, Frame: frame, LinearLen: uint32(len(frame))}
	out := e.run("dae0_ingress reply", "tproxy_dae0_ingress", in)
	fromWan := !f.lanSide()
	wantIf, wantFlags, wantType := uint32(c03LanIf), uint64(0), uint32(3) // PACKET_OTHERHOST
	hookL2 := e.lanL2
	if fromWan {
		wantIf, wantFlags, wantType, hookL2 = c03WanIf, 1 /* BPF_F_INGRESS */, 0, e.wanL2
	}
	var smac, dmac [6]byte
	if hookL2 {
		copy(dmac[:], orig.Frame[0:6])
		copy(smac[:], orig.Frame[6:12])
	}
	if e.verdictName(out.Verdict) != "REDIRECT" || out.RedirectIfindex != wantIf || out.RedirectFlags != wantFlags || out.PktType != wantType {
		e.failf("%s: reply from dae at dae0_ingress: verdict %s to ifindex %d flags %#x pkt_type %d, want REDIRECT to %d flags %#x pkt_type %d",
			desc, e.verdictName(out.Verdict), out.RedirectIfindex, out.RedirectFlags, out.PktType, wantIf, wantFlags, wantType)
	}
	if len(out.Frame) != len(frame) || !bytes.Equal(out.Frame[0:6], smac[:]) || !bytes.Equal(out.Frame[6:12], dmac[:]) || !bytes.Equal(out.Frame[12:], frame[12:]) {
		e.failf("%s: reply from dae at dae0_ingress: link addresses %x, want dst %x src %x (rest of the frame unchanged)", desc, out.Frame[:12], smac, dmac)
	}
	e.class("dae0_ingress_reply_checked")
}

// ------------------------------------------------------------------- generators

func c03GenFlows(t *rapid.T, e *c03Env) {
	seeds := vrDomainSeeds(e.prog)
	used := map[string]bool{}
	for i := 0; i < 4; i++ {
		pk := vrGenPacketSeeds(t, e.prog, seeds)
		if e.aimProc {
			// sockets of known processes (names the rules mention) next to sockets nobody registered
			pk.Pname = [16]byte{}
			if i%2 == 0 || rapid.IntRange(0, 3).Draw(t, "known_proc") == 0 {
				copy(pk.Pname[:], rapid.SampledFrom(e.prog.Vocab.Pnames).Draw(t, "procname"))
			}
			if rapid.IntRange(0, 3).Draw(t, "aim_tcp") > 0 {
				pk.L4 = "tcp"
			}
		}
		f := &c03Flow{ID: i, Pk: pk, TCP: pk.L4 == "tcp"}
		f.Pk.Dscp &= 63 // six bits on the wire
		f.V6 = !pk.Dst.Addr().Unmap().Is4()
		if pk.Src.Addr().Unmap().Is4() == f.V6 { // one family per frame
			if f.V6 {
				f.Pk.Src = netip.AddrPortFrom(netip.MustParseAddr("2001:db8::1"), pk.Src.Port())
			} else {
				f.Pk.Src = netip.AddrPortFrom(netip.AddrFrom4([4]byte{10, 1, 2, 3}), pk.Src.Port())
			}
		}
		f.Pk.Src = netip.AddrPortFrom(f.Pk.Src.Addr().Unmap(), f.Pk.Src.Port())
		f.Pk.Dst = netip.AddrPortFrom(f.Pk.Dst.Addr().Unmap(), f.Pk.Dst.Port())
		if rapid.IntRange(0, 5).Draw(t, "dns53") == 0 {
			f.Pk.Dst = netip.AddrPortFrom(f.Pk.Dst.Addr(), 53)
		}
		if f.Pk.Dst.Port() == c03TproxyP {
			f.Pk.Dst = netip.AddrPortFrom(f.Pk.Dst.Addr(), c03TproxyP+1)
		}
		f.Origin = rapid.SampledFrom([]int{c03OrigLan, c03OrigLan, c03OrigWan, c03OrigWan, c03OrigInLocal, c03OrigInLan}).Draw(t, "origin")
		if e.aimProc {
			f.Origin = c03OrigWan
		}
		// distinct five-tuples, also against each other's reverse
		for {
			a := fmt.Sprint(f.Pk.L4, f.Pk.Src, f.Pk.Dst)
			b := fmt.Sprint(f.Pk.L4, f.Pk.Dst, f.Pk.Src)
			if !used[a] && !used[b] {
				used[a] = true
				break
			}
			f.Pk.Src = netip.AddrPortFrom(f.Pk.Src.Addr(), f.Pk.Src.Port()+1)
		}
		if f.V6 {
			f.Exts = rapid.SliceOfN(rapid.SampledFrom([]uint8{0, 43, 60}), 0, 3).Draw(t, "exthdrs")
			if rapid.IntRange(0, 2).Draw(t, "noext") > 0 {
				f.Exts = nil
			}
		} else if rapid.IntRange(0, 4).Draw(t, "ipopts") == 0 {
			f.IHL = uint8(rapid.IntRange(6, 15).Draw(t, "ihl"))
		}
		if f.Pk.Mac == ([6]byte{}) && rapid.Bool().Draw(t, "givemac") {
			f.Pk.Mac = [6]byte{2, 0, 0, 0, 0, byte(10 + i)}
		}
		if !f.lanSide() {
			f.Cookie = uint64(1000 + i)
			f.Pid = uint32(2000 + i)
			f.ProcName = strings.TrimRight(string(f.Pk.Pname[:]), "\x00")
			if f.Origin == c03OrigWan {
				f.DaeKind = rapid.SampledFrom([]int{0, 0, 0, 0, 1, 2, 3}).Draw(t, "daekind")
				if e.aimProc {
					f.DaeKind = 0
				}
				if f.DaeKind == 2 && e.sockMark == 0 {
					f.DaeKind = 3
				}
			}
			switch {
			case f.DaeKind == 1:
				f.Pid = c03CpPid
				f.ProcName = "dae"
				e.registerProcess(f)
			case f.DaeKind == 0 && f.ProcName != "":
				e.registerProcess(f)
			}
		}
		a := f.Pk.Dst.Addr()
		if _, ok := e.domains[a]; !ok {
			e.domains[a] = f.Pk.Domain
			e.syncDomain(a)
		}
		e.flows = append(e.flows, f)
		e.logf("FLOW %v exts=%v ihl=%d mac=%x dscp=%d domain(dst)=%q", f, f.Exts, f.IHL, f.Pk.Mac, f.Pk.Dscp, e.domains[a])
	}
}

// c03GenVariant: a program over the same vocabulary and groups (so that the packets of
// the running flows still hit rules after a reload).
func c03GenVariant(t *rapid.T, base vrProgram) vrProgram {
	p := vrProgram{Groups: base.Groups, Vocab: base.Vocab}
	n := rapid.IntRange(1, 8).Draw(t, "v_nrules")
	for i := 0; i < n; i++ {
		p.Rules = append(p.Rules, vrGenRule(t, &p, vrOpts{}))
	}
	p.Fallback = vrGenOutbound(t, &p, false)
	p.FallbackPos = len(p.Rules)
	vrSteerKnown(&p)
	return p
}

package control

// C09 — every DNS client gets an answer to its own question under its own ID; no
// answer cached/served under a name+type it does not answer; concurrent identical
// questions -> one upstream resolution reaching every waiter; a retired upstream
// connection (cached forwarder) is closed exactly once, after its last in-flight
// query.
//
// Shared pieces of the three levels (controller / transport / lifecycle):
//   * question tagging: every RR our fake upstreams emit encodes the (lower-cased
//     name, qtype) it answers, so "this answer belongs to that question" is a pure
//     function of the reply;
//   * the synctest bubble runner (rapid failures are recovered inside the bubble and
//     re-raised on rapid's goroutine);
//   * the scripted fake forwarder whose ForwardDNS / factory / Close park until the
//     scheduler (rapid draws) releases them.

import (
	"context"
	"errors"
	"fmt"
	"hash/fnv"
	"io"
	"net"
	"net/netip"
	"strconv"
	"strings"
	"sync"
	"testing"
	"testing/synctest"
	"time"

	"github.com/daeuniverse/dae/common/consts"
	componentdns "github.com/daeuniverse/dae/component/dns"
	dnsmessage "github.com/miekg/dns"
	"github.com/sirupsen/logrus"
	"pgregory.net/rapid"
)

var c09LogOnce sync.Once
var c09LogInst *logrus.Logger

func c09Log() *logrus.Logger {
	c09LogOnce.Do(func() {
		l := logrus.New()
		l.SetOutput(io.Discard)
		l.SetLevel(logrus.PanicLevel)
		c09LogInst = l
	})
	return c09LogInst
}

// c09RunBubble runs body inside a fresh synctest bubble. rapid signals failure and
// invalid data by panicking; that panic is caught inside the bubble (after body's own
// deferred teardown ran) and re-raised on rapid's goroutine.
func c09RunBubble(tt *testing.T, body func()) {
	var (
		pv       any
		panicked bool
	)
	synctest.Test(tt, func(_ *testing.T) {
		defer func() {
			if r := recover(); r != nil {
				pv, panicked = r, true
			}
		}()
		body()
	})
	if panicked {
		// rapid's shrinker tells failures apart by the traceback of the panic. Everything
		// re-raised here would share one traceback, so "invalid data" (a shrink candidate
		// that ran out of recorded draws) would be taken for the original failure. Give
		// the three kinds their own call sites.
		switch fmt.Sprintf("%T", pv) {
		case "rapid.invalidData":
			c09RepanicInvalid(pv)
		case "rapid.stopTest":
			c09RepanicFailed(pv)
		default:
			c09RepanicOther(pv)
		}
	}
}

//go:noinline
func c09RepanicInvalid(pv any) { panic(pv) }

//go:noinline
func c09RepanicFailed(pv any) { panic(pv) }

//go:noinline
func c09RepanicOther(pv any) { panic(pv) }

// c09ResetGlobals re-creates process-global pools that hold channels: a channel made
// in one bubble must never be used from the next one.
func c09ResetGlobals() {
	responseSlotPool = sync.Pool{
		New: func() any {
			return &responseSlot{result: make(chan *dnsmessage.Msg, 1)}
		},
	}
}

// ---------------------------------------------------------------- question tagging

var c09Names = []string{"a.c09.test.", "b.c09.test.", "a.b.c09.test."}

// qtype pool: the common ones, neighbours (64/65), and types that share their low
// byte with another one (1/257/513/65281, 255/65535, 0/256 -> 256) so that any
// narrowing of the type in a cache / singleflight key shows.
var c09Qtypes = []uint16{dnsmessage.TypeA, dnsmessage.TypeAAAA, dnsmessage.TypeTXT, 64, 65, 255, 256, 257, 513, 65281, 65535}

var c09QtypeFamilies = [][]uint16{
	{1, 257, 513, 65281},
	{257, 1, 28},
	{255, 65535, 256},
	{64, 65, 1},
	{1, 28, 16},
	c09Qtypes,
}

// c09DrawQtypeSet draws the 1-3 qtypes one case uses.
func c09DrawQtypeSet(t *rapid.T) []uint16 {
	fam := c09QtypeFamilies[rapid.IntRange(0, len(c09QtypeFamilies)-1).Draw(t, "qtypeFamily")]
	n := rapid.IntRange(1, 3).Draw(t, "nTypes")
	rot := rapid.IntRange(0, len(fam)-1).Draw(t, "qtypeRot")
	out := make([]uint16, 0, n)
	for i := 0; i < n && i < len(fam); i++ {
		out = append(out, fam[(rot+i)%len(fam)])
	}
	return out
}

func c09Tag(name string, qtype uint16) uint32 {
	h := fnv.New32a()
	h.Write([]byte(strings.ToLower(dnsmessage.Fqdn(name))))
	h.Write([]byte{'/'})
	h.Write([]byte(strconv.Itoa(int(qtype))))
	return h.Sum32()
}

func c09TagIP4(tag uint32) net.IP { return net.IPv4(10, byte(tag>>16), byte(tag>>8), byte(tag)).To4() }
func c09TagIP6(tag uint32) net.IP {
	ip := make(net.IP, 16)
	ip[0], ip[1] = 0xfd, 0x09
	ip[12], ip[13], ip[14], ip[15] = byte(tag>>24), byte(tag>>16), byte(tag>>8), byte(tag)
	return ip
}
func c09TagCname(tag uint32) string { return fmt.Sprintf("x%08x.cdn.c09.test.", tag) }
func c09TagTxt(name string, qtype uint16) string {
	return "c09:" + strings.ToLower(dnsmessage.Fqdn(name)) + "/" + strconv.Itoa(int(qtype))
}

// answer kinds of a "right" answer
const (
	c09AnsAddr         = iota // one tagged RR, TTL 60 (cached)
	c09AnsTTL0                // one tagged RR, TTL 0 (cache entry is born expired -> per-waiter copy path)
	c09AnsNX                  // NXDOMAIN, not cached -> per-waiter copy path
	c09AnsEmpty               // NOERROR, no answer (cached with the 120 s floor)
	c09AnsCname               // CNAME to a tagged target + tagged address RR
	c09AnsTTL2                // one tagged RR, TTL 2: expires long before the janitor's next pass
	c09AnsCnameAddr1st        // like c09AnsCname, address record first: the first record's owner is not the asked name
	c09AnsKinds
)

var c09AnsKindNames = []string{"addr", "ttl0", "nx", "empty", "cname", "ttl2", "cname-addr-first"}

func c09TaggedRR(owner string, qname string, qtype uint16, ttl uint32) dnsmessage.RR {
	tag := c09Tag(qname, qtype)
	hdr := dnsmessage.RR_Header{Name: owner, Rrtype: qtype, Class: dnsmessage.ClassINET, Ttl: ttl}
	switch qtype {
	case dnsmessage.TypeA:
		return &dnsmessage.A{Hdr: hdr, A: c09TagIP4(tag)}
	case dnsmessage.TypeAAAA:
		return &dnsmessage.AAAA{Hdr: hdr, AAAA: c09TagIP6(tag)}
	default:
		hdr.Rrtype = dnsmessage.TypeTXT
		return &dnsmessage.TXT{Hdr: hdr, Txt: []string{c09TagTxt(qname, qtype)}}
	}
}

// Records of a truncated (TC=1) upstream reply carry their own marker, so that a partial
// record set that surfaces as a complete answer (to a client with TC=0, or in the cache)
// is recognisable: A 11.x.y.z instead of 10.x.y.z, AAAA fd0a:: instead of fd09::, text
// "c09tc:" instead of "c09:".
func c09PartialRR(qname string, qtype uint16, ttl uint32) dnsmessage.RR {
	rr := c09TaggedRR(qname, qname, qtype, ttl)
	switch b := rr.(type) {
	case *dnsmessage.A:
		b.A[0] = 11
	case *dnsmessage.AAAA:
		b.AAAA[1] = 0x0a
	case *dnsmessage.TXT:
		b.Txt[0] = "c09tc:" + strings.TrimPrefix(b.Txt[0], "c09:")
	}
	return rr
}

func c09IsPartialRR(rr dnsmessage.RR, name string, qtype uint16) bool {
	want := c09PartialRR(name, qtype, 0)
	if !strings.EqualFold(rr.Header().Name, dnsmessage.Fqdn(name)) {
		return false
	}
	switch b := rr.(type) {
	case *dnsmessage.A:
		w, ok := want.(*dnsmessage.A)
		return ok && b.A.Equal(w.A)
	case *dnsmessage.AAAA:
		w, ok := want.(*dnsmessage.AAAA)
		return ok && b.AAAA.Equal(w.AAAA)
	case *dnsmessage.TXT:
		w, ok := want.(*dnsmessage.TXT)
		return ok && len(b.Txt) == 1 && b.Txt[0] == w.Txt[0]
	}
	return false
}

func c09LooksPartial(rr dnsmessage.RR) bool {
	switch b := rr.(type) {
	case *dnsmessage.A:
		return len(b.A.To4()) == 4 && b.A.To4()[0] == 11
	case *dnsmessage.AAAA:
		return len(b.AAAA) == 16 && b.AAAA[0] == 0xfd && b.AAAA[1] == 0x0a
	case *dnsmessage.TXT:
		return len(b.Txt) == 1 && strings.HasPrefix(b.Txt[0], "c09tc:")
	}
	return false
}

// c09BuildTruncated: what an upstream sends when the answer does not fit: TC=1 and the
// 0..n records that did fit.
func c09BuildTruncated(q dnsmessage.Question, id uint16, nPartial int) *dnsmessage.Msg {
	m := c09BuildAnswer(q, id, c09AnsEmpty)
	m.Truncated = true
	for i := 0; i < nPartial; i++ {
		m.Answer = append(m.Answer, c09PartialRR(q.Name, q.Qtype, 60))
	}
	return m
}

// c09BuildAnswer builds the upstream's answer to question q (which, for the
// "different question" fault, is not the question that was asked) under id.
func c09BuildAnswer(q dnsmessage.Question, id uint16, kind int) *dnsmessage.Msg {
	m := new(dnsmessage.Msg)
	m.Id = id
	m.Response = true
	m.RecursionDesired = true
	m.RecursionAvailable = true
	m.Question = []dnsmessage.Question{q}
	switch kind {
	case c09AnsAddr:
		m.Answer = []dnsmessage.RR{c09TaggedRR(q.Name, q.Name, q.Qtype, 60)}
	case c09AnsTTL0:
		m.Answer = []dnsmessage.RR{c09TaggedRR(q.Name, q.Name, q.Qtype, 0)}
	case c09AnsTTL2:
		m.Answer = []dnsmessage.RR{c09TaggedRR(q.Name, q.Name, q.Qtype, 2)}
	case c09AnsNX:
		m.Rcode = dnsmessage.RcodeNameError
	case c09AnsEmpty:
	case c09AnsCname, c09AnsCnameAddr1st:
		if q.Qtype == dnsmessage.TypeTXT {
			m.Answer = []dnsmessage.RR{c09TaggedRR(q.Name, q.Name, q.Qtype, 60)}
			break
		}
		target := c09TagCname(c09Tag(q.Name, q.Qtype))
		m.Answer = []dnsmessage.RR{
			&dnsmessage.CNAME{Hdr: dnsmessage.RR_Header{Name: q.Name, Rrtype: dnsmessage.TypeCNAME, Class: dnsmessage.ClassINET, Ttl: 60}, Target: target},
			c09TaggedRR(target, q.Name, q.Qtype, 60),
		}
		if kind == c09AnsCnameAddr1st {
			m.Answer[0], m.Answer[1] = m.Answer[1], m.Answer[0]
		}
	}
	return m
}

// c09CheckRR: does rr belong to an answer to (name, qtype)?
func c09CheckRR(rr dnsmessage.RR, name string, qtype uint16) error {
	lname := strings.ToLower(dnsmessage.Fqdn(name))
	tag := c09Tag(name, qtype)
	owner := strings.ToLower(rr.Header().Name)
	cname := c09TagCname(tag)
	if c09LooksPartial(rr) {
		return fmt.Errorf("%s is a record of a truncated (TC=1) upstream reply, presented as a complete answer to %s/%d", strings.ReplaceAll(rr.String(), "\t", " "), lname, qtype)
	}
	switch b := rr.(type) {
	case *dnsmessage.A:
		if qtype != dnsmessage.TypeA || !b.A.Equal(c09TagIP4(tag)) || (owner != lname && owner != cname) {
			return fmt.Errorf("A %s %v is not an answer to %s/%d", owner, b.A, lname, qtype)
		}
	case *dnsmessage.AAAA:
		if qtype != dnsmessage.TypeAAAA || !b.AAAA.Equal(c09TagIP6(tag)) || (owner != lname && owner != cname) {
			return fmt.Errorf("AAAA %s %v is not an answer to %s/%d", owner, b.AAAA, lname, qtype)
		}
	case *dnsmessage.TXT:
		padOK := true
		for _, p := range b.Txt[min(1, len(b.Txt)):] {
			if strings.Trim(p, "p") != "" {
				padOK = false
			}
		}
		if len(b.Txt) < 1 || b.Txt[0] != c09TagTxt(name, qtype) || !padOK || (owner != lname && owner != cname) {
			return fmt.Errorf("TXT %s %q is not an answer to %s/%d", owner, b.Txt, lname, qtype)
		}
	case *dnsmessage.CNAME:
		if owner != lname || strings.ToLower(b.Target) != cname {
			return fmt.Errorf("CNAME %s -> %s is not an answer to %s/%d", owner, b.Target, lname, qtype)
		}
	default:
		return fmt.Errorf("unexpected RR %T %s in an answer to %s/%d", rr, rr.Header().Name, lname, qtype)
	}
	return nil
}

// c09CheckReply: msg is a reply a client that asked (name,qtype) under id may see.
func c09CheckReply(msg *dnsmessage.Msg, checkID bool, id uint16, name string, qtype uint16) error {
	if msg == nil {
		return errors.New("nil message")
	}
	if !msg.Response {
		return fmt.Errorf("QR bit not set")
	}
	if checkID && msg.Id != id {
		return fmt.Errorf("reply carries ID %#04x, the request had ID %#04x", msg.Id, id)
	}
	if len(msg.Question) != 1 {
		return fmt.Errorf("reply has %d questions", len(msg.Question))
	}
	q := msg.Question[0]
	if !strings.EqualFold(dnsmessage.Fqdn(q.Name), dnsmessage.Fqdn(name)) || q.Qtype != qtype || q.Qclass != dnsmessage.ClassINET {
		return fmt.Errorf("reply carries question %s/%d/%d, the request asked %s/%d", q.Name, q.Qtype, q.Qclass, name, qtype)
	}
	for _, rr := range msg.Answer {
		if msg.Truncated && c09IsPartialRR(rr, name, qtype) {
			continue // an honest TC=1 reply may pass on what fitted
		}
		if err := c09CheckRR(rr, name, qtype); err != nil {
			return err
		}
	}
	return nil
}

func c09MangleCase(name string, mask uint32) string {
	b := []byte(name)
	k := 0
	for i, ch := range b {
		if ch >= 'a' && ch <= 'z' {
			if mask&(1<<uint(k%32)) != 0 {
				b[i] = ch - 'a' + 'A'
			}
			k++
		}
	}
	return string(b)
}

// c09OtherQuestion returns a question different (in lower-cased name or type) from q.
func c09OtherQuestion(t *rapid.T, q dnsmessage.Question) dnsmessage.Question {
	for {
		o := dnsmessage.Question{
			Name:   rapid.SampledFrom(c09Names).Draw(t, "foreignName"),
			Qtype:  rapid.SampledFrom(c09Qtypes).Draw(t, "foreignType"),
			Qclass: dnsmessage.ClassINET,
		}
		if !strings.EqualFold(o.Name, q.Name) || o.Qtype != q.Qtype {
			return o
		}
		// deterministic escape instead of rejection
		if o.Qtype == dnsmessage.TypeA {
			o.Qtype = dnsmessage.TypeAAAA
		} else {
			o.Qtype = dnsmessage.TypeA
		}
		return o
	}
}

// ---------------------------------------------------------------- capture writer

type c09Writer struct {
	mu   sync.Mutex
	msgs []*dnsmessage.Msg // copies taken at WriteMsg time (what a real writer would pack)
	ptrs []*dnsmessage.Msg // the pointers that were handed in (aliasing detection)
}

func (w *c09Writer) LocalAddr() net.Addr       { return nil }
func (w *c09Writer) RemoteAddr() net.Addr      { return nil }
func (w *c09Writer) TsigStatus() error         { return nil }
func (w *c09Writer) TsigTimersOnly(bool)       {}
func (w *c09Writer) Hijack()                   {}
func (w *c09Writer) Close() error              { return nil }
func (w *c09Writer) Write([]byte) (int, error) { return 0, errors.New("c09: raw Write not expected") }
func (w *c09Writer) WriteMsg(m *dnsmessage.Msg) error {
	// A real writer packs here; go through Pack/Unpack so that what we keep is what
	// would be on the wire.
	b, err := m.Pack()
	if err != nil {
		return err
	}
	cp := new(dnsmessage.Msg)
	if err := cp.Unpack(b); err != nil {
		return err
	}
	w.mu.Lock()
	w.msgs = append(w.msgs, cp)
	w.ptrs = append(w.ptrs, m)
	w.mu.Unlock()
	return nil
}

// ---------------------------------------------------------------- scripted fake forwarder

const (
	c09ActOK          = iota // right answer (possibly late: the ctx may have expired while parked)
	c09ActForeign            // answer to a different question under the right ID
	c09ActTrunc              // TC=1 (UDP only): (&msg, ErrDNSTruncated) as DoUDP does
	c09ActTimeout            // nothing: wait for the ctx, return its error
	c09ActError              // transport error
	c09ActCanceled           // context.Canceled-like error (must not retire the forwarder)
	c09ActAbort              // teardown
	c09ActCtxCanceled        // not drawn: the call's own context was cancelled while it was parked
)

var c09ActNames = []string{"ok", "foreign", "trunc", "timeout", "error", "canceled", "abort", "ctx-cancelled"}

type c09Action struct {
	kind    int
	ansKind int
	foreign dnsmessage.Question
	partial int    // records that fitted into a truncated reply
	respID  uint16 // ID the upstream reply carries (TCP pipelines use their own IDs)
}

type c09TimeoutErr struct{}

func (c09TimeoutErr) Error() string   { return "c09: i/o timeout" }
func (c09TimeoutErr) Timeout() bool   { return true }
func (c09TimeoutErr) Temporary() bool { return true }

var errC09Upstream = errors.New("c09: upstream transport failed")
var errC09Abort = errors.New("c09: harness teardown")

type c09World struct {
	mu          sync.Mutex
	aborted     bool
	abortCh     chan struct{}
	shutdown    bool // the controller's final Close is running: closing under in-flight ops is allowed
	parkFactory bool
	fwds        []*c09Fwd
	calls       []*c09Call
	factCalls   []*c09FactoryCall
	violations  []string

	// onForward, if set, is consulted at every ForwardDNS entry (on the caller's
	// goroutine, w.mu not held); a non-empty result is recorded as a violation.
	onForward func(f *c09Fwd, req *dnsmessage.Msg) string

	// CacheDeleteCallback parking: when armed, the next invocation of the delete
	// callback (an expired entry evicted by a client's own cache lookup) parks.
	parkDeleteArmed bool
	deleteParks     []*c09DeletePark
}

type c09DeletePark struct {
	key      string
	ch       chan struct{}
	released bool
	returned bool
}

// cacheDeleteCallback is installed as DnsControllerOption.CacheDeleteCallback.
func (w *c09World) cacheDeleteCallback(key string, _ *DnsCache) error {
	w.mu.Lock()
	if !w.parkDeleteArmed || w.aborted {
		w.mu.Unlock()
		return nil
	}
	w.parkDeleteArmed = false
	p := &c09DeletePark{key: key, ch: make(chan struct{}, 1)}
	w.deleteParks = append(w.deleteParks, p)
	w.mu.Unlock()
	select {
	case <-p.ch:
	case <-w.abortCh:
	}
	w.mu.Lock()
	p.returned = true
	w.mu.Unlock()
	return nil
}

func (w *c09World) armDeletePark(on bool) {
	w.mu.Lock()
	w.parkDeleteArmed = on
	w.mu.Unlock()
}

func (w *c09World) parkedDeletes() []*c09DeletePark {
	w.mu.Lock()
	defer w.mu.Unlock()
	var out []*c09DeletePark
	for _, p := range w.deleteParks {
		if !p.released && !p.returned {
			out = append(out, p)
		}
	}
	return out
}

func (w *c09World) releaseDelete(p *c09DeletePark) {
	w.mu.Lock()
	p.released = true
	w.mu.Unlock()
	p.ch <- struct{}{}
}

func (w *c09World) deleteReturned(p *c09DeletePark) bool {
	w.mu.Lock()
	defer w.mu.Unlock()
	return p.returned
}

func c09NewWorld() *c09World { return &c09World{abortCh: make(chan struct{})} }

func (w *c09World) violate(format string, a ...any) {
	// caller holds w.mu
	w.violations = append(w.violations, fmt.Sprintf(format, a...))
}

type c09Fwd struct {
	w            *c09World
	id           int
	proto        consts.L4ProtoStr
	upstream     string
	target       netip.AddrPort
	closeCalls   int
	inside       int
	callsStarted int
}

type c09Call struct {
	fwd           *c09Fwd
	serial        int
	req           *dnsmessage.Msg
	ctx           context.Context
	ch            chan c09Action
	released      bool
	returned      bool
	act           c09Action
	lateAtRelease bool
	ctxCancelled  bool // returned on its own because its context was cancelled
}

type c09FactoryCall struct {
	upstream string
	proto    consts.L4ProtoStr
	ch       chan error
	released bool
	returned bool
	fwd      *c09Fwd
}

func (w *c09World) factory(upstream *componentdns.Upstream, dialArg dialArgument, _ *logrus.Logger) (DnsForwarder, error) {
	w.mu.Lock()
	if w.aborted {
		w.mu.Unlock()
		return nil, errC09Abort
	}
	up := ""
	if upstream != nil {
		up = upstream.String()
	}
	if !w.parkFactory {
		f := &c09Fwd{w: w, id: len(w.fwds), proto: dialArg.l4proto, upstream: up, target: dialArg.bestTarget}
		w.fwds = append(w.fwds, f)
		w.mu.Unlock()
		return f, nil
	}
	fc := &c09FactoryCall{upstream: up, proto: dialArg.l4proto, ch: make(chan error, 1)}
	w.factCalls = append(w.factCalls, fc)
	w.mu.Unlock()
	var err error
	select {
	case err = <-fc.ch:
	case <-w.abortCh:
		err = errC09Abort
	}
	w.mu.Lock()
	defer w.mu.Unlock()
	fc.returned = true
	if err != nil {
		return nil, err
	}
	f := &c09Fwd{w: w, id: len(w.fwds), proto: dialArg.l4proto, upstream: up, target: dialArg.bestTarget}
	w.fwds = append(w.fwds, f)
	fc.fwd = f
	return f, nil
}

func (f *c09Fwd) ForwardDNS(ctx context.Context, data []byte) (*dnsmessage.Msg, error) {
	w := f.w
	req := new(dnsmessage.Msg)
	uerr := req.Unpack(data)
	w.mu.Lock()
	if uerr != nil || len(req.Question) != 1 {
		w.violate("forwarder #%d got an unparsable / question-less request: %v", f.id, uerr)
		w.mu.Unlock()
		return nil, errC09Upstream
	}
	if f.closeCalls > 0 {
		w.violate("an operation started on forwarder #%d (%s %s) after it was closed", f.id, f.proto, f.upstream)
	}
	if w.aborted {
		w.mu.Unlock()
		return nil, errC09Abort
	}
	if hook := w.onForward; hook != nil {
		w.mu.Unlock()
		v := hook(f, req)
		w.mu.Lock()
		if v != "" {
			w.violate("%s", v)
		}
	}
	call := &c09Call{fwd: f, serial: len(w.calls), req: req, ctx: ctx, ch: make(chan c09Action, 1)}
	w.calls = append(w.calls, call)
	f.inside++
	f.callsStarted++
	w.mu.Unlock()

	// Like the stream transports (pipelinedConn.RoundTrip, DoH, DoQ) a parked call gives
	// up when its context is cancelled; an expired deadline alone keeps it parked
	// (that is the "late answer" behaviour).
	var act c09Action
	done := ctx.Done()
	for waiting := true; waiting; {
		select {
		case act = <-call.ch:
			waiting = false
		case <-w.abortCh:
			act = c09Action{kind: c09ActAbort}
			waiting = false
		case <-done:
			if errors.Is(ctx.Err(), context.Canceled) {
				act = c09Action{kind: c09ActCtxCanceled}
				waiting = false
			} else {
				done = nil
			}
		}
	}
	var (
		msg *dnsmessage.Msg
		err error
	)
	q := req.Question[0]
	switch act.kind {
	case c09ActCtxCanceled:
		err = ctx.Err()
		w.mu.Lock()
		call.ctxCancelled = true
		w.mu.Unlock()
	case c09ActOK:
		msg = c09BuildAnswer(q, act.respID, act.ansKind)
	case c09ActForeign:
		msg = c09BuildAnswer(act.foreign, act.respID, act.ansKind)
	case c09ActTrunc:
		// exactly what DoUDP.ForwardDNS returns for a TC=1 datagram
		msg = c09BuildTruncated(q, act.respID, act.partial)
		err = ErrDNSTruncated
	case c09ActTimeout:
		select {
		case <-ctx.Done():
			if f.proto == consts.L4ProtoStr_UDP {
				err = c09TimeoutErr{}
			} else {
				err = ctx.Err()
			}
		case <-w.abortCh:
			err = errC09Abort
		}
	case c09ActError:
		err = errC09Upstream
	case c09ActCanceled:
		err = context.Canceled
	default:
		err = errC09Abort
	}
	w.mu.Lock()
	f.inside--
	call.returned = true
	w.mu.Unlock()
	return msg, err
}

func (f *c09Fwd) Close() error {
	w := f.w
	w.mu.Lock()
	defer w.mu.Unlock()
	f.closeCalls++
	if f.closeCalls > 1 {
		w.violate("forwarder #%d (%s %s) closed %d times", f.id, f.proto, f.upstream, f.closeCalls)
	}
	if f.inside > 0 && !w.shutdown {
		w.violate("forwarder #%d (%s %s) closed while %d operation(s) were still inside ForwardDNS", f.id, f.proto, f.upstream, f.inside)
	}
	return nil
}

func (w *c09World) release(call *c09Call, act c09Action) {
	w.mu.Lock()
	call.released = true
	call.act = act
	call.lateAtRelease = call.ctx.Err() != nil
	w.mu.Unlock()
	call.ch <- act
}

func (w *c09World) parked() []*c09Call {
	w.mu.Lock()
	defer w.mu.Unlock()
	var out []*c09Call
	for _, c := range w.calls {
		if !c.released && !c.returned {
			out = append(out, c)
		}
	}
	return out
}

// inFlight: calls that have not returned (parked, or released with "timeout" and
// waiting for their context).
func (w *c09World) unreturned() []*c09Call {
	w.mu.Lock()
	defer w.mu.Unlock()
	var out []*c09Call
	for _, c := range w.calls {
		if !c.returned {
			out = append(out, c)
		}
	}
	return out
}

func (w *c09World) parkedFactory() []*c09FactoryCall {
	w.mu.Lock()
	defer w.mu.Unlock()
	var out []*c09FactoryCall
	for _, c := range w.factCalls {
		if !c.released && !c.returned {
			out = append(out, c)
		}
	}
	return out
}

func (w *c09World) releaseFactory(fc *c09FactoryCall, err error) {
	w.mu.Lock()
	fc.released = true
	w.mu.Unlock()
	fc.ch <- err
}

func (w *c09World) callReturned(c *c09Call) bool {
	w.mu.Lock()
	defer w.mu.Unlock()
	return c.returned
}

func (w *c09World) abort() {
	w.mu.Lock()
	if !w.aborted {
		w.aborted = true
		close(w.abortCh)
	}
	w.mu.Unlock()
}

func (w *c09World) takeViolations() []string {
	w.mu.Lock()
	defer w.mu.Unlock()
	v := w.violations
	w.violations = nil
	return v
}

func (w *c09World) failOnViolations(t *rapid.T, trace *[]string) {
	if v := w.takeViolations(); len(v) > 0 {
		t.Fatalf("C09 violated: %s\nschedule:\n  %s", strings.Join(v, "; "), strings.Join(*trace, "\n  "))
	}
}

// c09WaitReturned advances virtual time until the call has returned (it was released
// with an action that waits for its context), at most ~40 s.
func c09WaitReturned(w *c09World, c *c09Call) bool {
	for i := 0; i < 80; i++ {
		synctest.Wait()
		if w.callReturned(c) {
			return true
		}
		time.Sleep(500 * time.Millisecond)
	}
	synctest.Wait()
	return w.callReturned(c)
}

func c09NewCacheFn(fqdn string, answers, ns, extra []dnsmessage.RR, deadline, originalDeadline time.Time) (*DnsCache, error) {
	return &DnsCache{Answer: answers, NS: ns, Extra: extra, Deadline: deadline, OriginalDeadline: originalDeadline}, nil
}

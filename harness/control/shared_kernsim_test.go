// shared_kernsim_test.go — Go client for kernsim (package control, identifiers `ks*`).
//
// kernsim = /repo/control/kern/tproxy.c (working tree, unmodified) compiled natively
// with clang + ASan/UBSan against the userspace helper model in /verif/cshim/helpers.c,
// serving a binary protocol on stdin/stdout (wire format: top of /verif/cshim/main.c,
// mirrored by the encoders below). The driver builds it (cshim/build.sh) for every unit
// with "needs_kernsim": true and exports its path as $VERIF_KERNSIM. List this file in
// your unit's "files" next to your own cNN_*_test.go.
//
// ---------------------------------------------------------------------------- API
//   k := ksGet(t)                 one shared child per test process; (re)started on demand.
//                                 t is *testing.T or *rapid.T (anything with Fatalf/Helper).
//                                 Missing/unstartable binary => harness error (process exits 3,
//                                 the driver reports exit 2) — never a test failure.
//   k.Reset()                     all maps empty, sockets gone, clock 0, PARAM zero, max_entries restored
//   k.SetParam(raw) / GetParam()  raw bytes of struct dae_param (written into .rodata via mprotect)
//   k.SetClock(ns)                value returned by bpf_ktime_get_ns()
//   k.MapUpdate(name,key,val,flags) int32   kernel-style return (0 / -E2BIG / -EEXIST / -ENOENT ...)
//   k.MapDelete(name,key) int32
//   k.MapLookup(name,key) (val, found)      LPM maps: longest-prefix match, like the kernel
//   k.MapDump(name) []ksKV                  deterministic order; name "lpm#<slot>" = inner trie of lpm_array_map
//   k.LpmSlotInstall(slot, keys, values) int32   fresh inner LPM trie (spec of unused_lpm_type) into lpm_array_map[slot]
//   k.LpmSlotRemove(slot) int32
//   k.Sockets([]ksSock) int32     replaces the socket table used by bpf_sk*_lookup_*, listen_socket_map slots
//   k.SetMaxEntries(name,n)       shrink a map to inject "map full" (HASH: -E2BIG on a new key)
//   k.Route(ksRouteIn) ksRouteOut calls the real route(flag[8], l4hdr, saddr, daddr, mac) -> s64; also returns the
//                                 lpm_key_{saddr,daddr,mac} bytes route() built and the map-op log
//   k.Run(prog, ksRunIn) ksRunOut runs a SEC() program by C function name (e.g. "tproxy_lan_ingress_l2",
//                                 "tproxy_wan_egress_l3", "tproxy_dae0peer_ingress", "tproxy_wan_cg_connect4"):
//                                 verdict, skb->mark, cb[], pkt_type, redirect kind/ifindex/flags, bpf_sk_assign
//                                 target, leaked socket refs, resulting frame bytes, ringbuf events, map-op log.
//                                 LinearLen = bytes in the linear area at entry (direct packet access sees only
//                                 these); PullFails makes bpf_skb_pull_data (only that helper; bpf_skb_store_bytes
//                                 still linearises) fail when it would have to pull: LinearLen 0 + PullFails forces
//                                 the bpf_skb_load_bytes parsing path.
//                                 NOTE (kernel semantics, modelled literally): bpf_skb_pull_data(skb, 128) FAILS on
//                                 a frame shorter than 128 bytes, so short frames always take parse_transport_slow.
//   k.KeysFromFrame(...) ksFrameKeys   runs the real parse_packet()/get_tuples()/copy_reversed_tuples()/
//                                 fill_redirect_tuple_from_forward_packet() on a frame: tuples_key bytes, reversed
//                                 key bytes, redirect_tuple bytes, dscp, l4proto, parse return code
//   k.Alive(outbound,l4proto,dportBE,protoBE) (bool, []ksOp)   real wan_outbound_is_alive(); the log shows the
//                                 outbound_connectivity_map key it looked up
//   k.Info() ksInfo               sizeof(struct dae_param), every map (type,key,value,max_entries,flags), programs
//   ksMarshal(v) []byte           bytes cilium/ebpf v0.20 would write for v (sysenc.Marshal rule, see below)
//   ksRouteDecode(ret) (outbound uint8, mark uint32, must bool)
//   ksHtons, ksProtoIP4/6, ksTcActOK/Shot/Pipe/Redirect, ksBpf* map type ids, ksOpsOn(ops, map) filter
//
// A sanitizer report / crash inside the C code is a *test failure* (k fails the current t with
// the stderr of the child and writes the request transcript since the last Reset to
// $VERIF_RUNDIR/kernsim-crash-N.bin); a model limitation ("KERNSIM-HARNESS: ..." on stderr, exit 70)
// is a harness error (exit 3). Per-cpu scratch maps are left out of the op log.
package control

import (
	"bufio"
	"bytes"
	"encoding/binary"
	"fmt"
	"io"
	"os"
	"os/exec"
	"path/filepath"
	"reflect"
	"strings"
	"sync"
	"unsafe"
)

const (
	ksOpReset         = 1
	ksOpSetParam      = 2
	ksOpSetClock      = 3
	ksOpMapUpdate     = 4
	ksOpMapDelete     = 5
	ksOpMapLookup     = 6
	ksOpMapDump       = 7
	ksOpLpmSlot       = 8
	ksOpSockets       = 9
	ksOpRoute         = 10
	ksOpRun           = 11
	ksOpKeysFrame     = 12
	ksOpAlive         = 13
	ksOpSetMaxEntries = 14
	ksOpInfo          = 15
	ksOpGetParam      = 16

	ksTcActOK       = 0
	ksTcActShot     = 2
	ksTcActPipe     = 3
	ksTcActRedirect = 7

	ksBpfMapHash        = 1
	ksBpfMapArray       = 2
	ksBpfMapPercpuArray = 6
	ksBpfMapLpmTrie     = 11
	ksBpfMapArrayOfMaps = 12
	ksBpfMapSockmap     = 15
	ksBpfMapSockhash    = 18
	ksBpfMapRingbuf     = 27

	ksBpfTcpEstablished = 1
	ksBpfTcpListen      = 10
	ksBpfTcpTimeWait    = 6

	ksEthPIP   = 0x0800
	ksEthPIPV6 = 0x86DD
)

// ksHtons converts a host-order u16 to the value a little-endian CPU holds for the
// network-order bytes (what tproxy.c compares with bpf_htons(x)).
func ksHtons(v uint16) uint16 { return v<<8 | v>>8 }

// skb->protocol values.
var (
	ksProtoIP4 = uint32(ksHtons(ksEthPIP))
	ksProtoIP6 = uint32(ksHtons(ksEthPIPV6))
)

type ksTB interface {
	Helper()
	Fatalf(format string, args ...any)
}

type ksOp struct {
	Op  byte // 'L' lookup (Res 1 found / 0 not), 'U' update (Res = return), 'D' delete (Res = return)
	Map string
	Key []byte
	Res int32
}

type ksKV struct{ Key, Value []byte }

type ksSock struct {
	ID         uint32
	Proto      uint8 // 6 tcp, 17 udp
	Family     uint8 // 4 or 6
	State      uint8 // ksBpfTcp*
	ListenSlot int8  // -1, or slot of listen_socket_map (0 tcp4, 1 udp, 2 tcp6)
	LocalIP    [16]byte // family 4: last four bytes; all zero = wildcard
	LocalPort  uint16   // host order
	RemoteIP   [16]byte
	RemotePort uint16 // host order; 0 = unconnected
	Mark       uint32
}

type ksRouteIn struct {
	Flag  [8]uint32 // [0] l4proto type, [1] ip version type, [2..5] pname, [6] dscp, [7] is_wan
	L4Hdr []byte    // struct tcphdr / udphdr bytes (network order ports first), <= 64 bytes
	Saddr [16]byte
	Daddr [16]byte
	Mac   [16]byte // __be32[4] as route() receives it
	NoLog bool
}

type ksRouteOut struct {
	Ret         int64
	LpmKeySaddr [20]byte
	LpmKeyDaddr [20]byte
	LpmKeyMac   [20]byte
	HDport      uint16
	HSport      uint16
	IsWan       uint8
	Ops         []ksOp
}

type ksSkbMeta struct {
	Protocol       uint32 // skb->protocol (ksProtoIP4 / ksProtoIP6)
	Ifindex        uint32
	IngressIfindex uint32
	Mark           uint32
	Cb             [5]uint32
	PktType        uint32
	Cookie         uint64 // bpf_get_socket_cookie
	PidTgid        uint64 // bpf_get_current_pid_tgid (cgroup programs)
	Comm           [16]byte
	Args           string // process argv string for get_pid_pname (<=127 bytes)
}

type ksRunIn struct {
	Meta      ksSkbMeta
	Frame     []byte
	LinearLen uint32
	PullFails bool
	NoLog     bool
}

type ksRunOut struct {
	Verdict         int32
	Mark            uint32
	Cb              [5]uint32
	PktType         uint32
	RedirectKind    uint8 // 0 none, 1 bpf_redirect, 2 bpf_redirect_peer
	RedirectIfindex uint32
	RedirectFlags   uint64
	AssignedSock    int32 // ksSock.ID or -1
	SockRefsLeaked  int32 // acquired-but-not-released socket references (verifier would reject != 0)
	LinearLen       uint32
	PullCalls       uint32
	PullFailed      uint32
	LoadBytesCalls  uint32
	StoreBytesCalls uint32
	Frame           []byte
	Events          [][]byte // bpf_ringbuf_output records (struct dae_event)
	Ops             []ksOp
}

type ksFrameKeys struct {
	ParseRet      int32 // parse_packet(): 0 ok, 1 not handled, 2 fragment, <0 malformed
	TuplesKey     []byte
	ReversedKey   []byte
	Dscp          uint8
	L4Proto       uint8
	RedirectTuple []byte
	SrcMac        [6]byte
}

type ksMapInfo struct {
	Name                                      string
	Type, KeySize, ValueSize, MaxEntries, Flags uint32
}

type ksInfo struct {
	ParamSize uint32
	Maps      []ksMapInfo
	Progs     [][2]string // C function name, section
	Consts    map[string]int64 // enum/#define values as the C compiler sees them (L4ProtoType_TCP, OUTBOUND_*, ...)
}

type ksSim struct {
	mu         sync.Mutex
	cmd        *exec.Cmd
	in         io.WriteCloser
	out        *bufio.Reader
	stderr     *ksSyncBuf
	dead       bool
	tb         ksTB
	transcript bytes.Buffer
	crashes    int
}

type ksSyncBuf struct {
	mu sync.Mutex
	b  bytes.Buffer
}

func (s *ksSyncBuf) Write(p []byte) (int, error) {
	s.mu.Lock()
	defer s.mu.Unlock()
	if s.b.Len() < 1<<20 {
		s.b.Write(p)
	}
	return len(p), nil
}
func (s *ksSyncBuf) String() string { s.mu.Lock(); defer s.mu.Unlock(); return s.b.String() }

var (
	ksShared   *ksSim
	ksSharedMu sync.Mutex
)

// ksHarnessFatal ends the test process in a way the driver maps to exit 2 (harness
// problem), not to a violation: no "--- FAIL" line is printed.
func ksHarnessFatal(format string, args ...any) {
	fmt.Fprintf(os.Stderr, "KERNSIM HARNESS ERROR: "+format+"\n", args...)
	os.Exit(3)
}

// ksGet returns the shared kernsim child, starting (or restarting after a crash) it.
func ksGet(tb ksTB) *ksSim {
	ksSharedMu.Lock()
	defer ksSharedMu.Unlock()
	if ksShared == nil || ksShared.dead {
		crashes := 0
		if ksShared != nil {
			crashes = ksShared.crashes
		}
		ksShared = ksStart()
		ksShared.crashes = crashes
	}
	ksShared.tb = tb
	return ksShared
}

func ksStart() *ksSim {
	path := os.Getenv("VERIF_KERNSIM")
	if path == "" {
		ksHarnessFatal("VERIF_KERNSIM is not set (unit needs \"needs_kernsim\": true)")
	}
	if _, err := os.Stat(path); err != nil {
		ksHarnessFatal("kernsim binary: %v", err)
	}
	cmd := exec.Command(path)
	in, err := cmd.StdinPipe()
	if err != nil {
		ksHarnessFatal("pipe: %v", err)
	}
	outp, err := cmd.StdoutPipe()
	if err != nil {
		ksHarnessFatal("pipe: %v", err)
	}
	se := &ksSyncBuf{}
	cmd.Stderr = se
	if err := cmd.Start(); err != nil {
		ksHarnessFatal("start %s: %v", path, err)
	}
	return &ksSim{cmd: cmd, in: in, out: bufio.NewReaderSize(outp, 1<<16), stderr: se}
}

// Close terminates the child (optional; the child exits on stdin EOF anyway).
func (k *ksSim) Close() {
	k.mu.Lock()
	defer k.mu.Unlock()
	if k.dead {
		return
	}
	k.dead = true
	_ = k.in.Close()
	_ = k.cmd.Wait()
}

func (k *ksSim) crashed(cause error) {
	k.dead = true
	_ = k.in.Close()
	werr := k.cmd.Wait()
	se := k.stderr.String()
	code := -1
	if k.cmd.ProcessState != nil {
		code = k.cmd.ProcessState.ExitCode()
	}
	if strings.Contains(se, "KERNSIM-HARNESS") || code == 70 {
		ksHarnessFatal("kernsim model limitation (exit %d): %s", code, se)
	}
	k.crashes++
	dump := ""
	if dir := os.Getenv("VERIF_RUNDIR"); dir != "" {
		dump = filepath.Join(dir, fmt.Sprintf("kernsim-crash-%d.bin", k.crashes))
		_ = os.WriteFile(dump, k.transcript.Bytes(), 0o644)
	}
	if len(se) > 6000 {
		se = se[:6000] + "\n...(truncated)"
	}
	k.tb.Fatalf("kernsim died while serving a request (%v; wait: %v; exit %d) — a sanitizer report here means the C code did something a kernel verifier would have to reject.\ntranscript: %s\nstderr:\n%s", cause, werr, code, dump, se)
}

// call sends one request and returns the response payload (after the status byte).
func (k *ksSim) call(op byte, payload []byte) []byte {
	k.tb.Helper()
	k.mu.Lock()
	defer k.mu.Unlock()
	if k.dead {
		k.tb.Fatalf("kernsim child is dead (call ksGet again)")
		return nil
	}
	var hdr [5]byte
	binary.LittleEndian.PutUint32(hdr[:4], uint32(len(payload)+1))
	hdr[4] = op
	if op == ksOpReset {
		k.transcript.Reset()
	}
	if k.transcript.Len() < 8<<20 {
		k.transcript.Write(hdr[:])
		k.transcript.Write(payload)
	}
	if _, err := k.in.Write(append(hdr[:], payload...)); err != nil {
		k.crashed(err)
		return nil
	}
	var lb [4]byte
	if _, err := io.ReadFull(k.out, lb[:]); err != nil {
		k.crashed(err)
		return nil
	}
	n := binary.LittleEndian.Uint32(lb[:])
	resp := make([]byte, n)
	if _, err := io.ReadFull(k.out, resp); err != nil {
		k.crashed(err)
		return nil
	}
	if len(resp) == 0 {
		ksHarnessFatal("empty kernsim response")
	}
	if resp[0] != 0 {
		// malformed request: a bug in the harness, not in the tested code
		ksHarnessFatal("kernsim rejected request op=%d: %q", op, string(resp[2:]))
	}
	return resp[1:]
}

// ---- little encoders / decoders

type ksW struct{ b []byte }

func (w *ksW) u8(v uint8)   { w.b = append(w.b, v) }
func (w *ksW) u16(v uint16) { w.b = binary.LittleEndian.AppendUint16(w.b, v) }
func (w *ksW) u32(v uint32) { w.b = binary.LittleEndian.AppendUint32(w.b, v) }
func (w *ksW) u64(v uint64) { w.b = binary.LittleEndian.AppendUint64(w.b, v) }
func (w *ksW) raw(p []byte) { w.b = append(w.b, p...) }
func (w *ksW) str(s string) {
	if len(s) > 255 {
		ksHarnessFatal("string too long for kernsim protocol")
	}
	w.u8(uint8(len(s)))
	w.b = append(w.b, s...)
}
func (w *ksW) blob(p []byte) { w.u32(uint32(len(p))); w.b = append(w.b, p...) }
func (w *ksW) bool(v bool) {
	if v {
		w.u8(1)
	} else {
		w.u8(0)
	}
}

type ksR struct {
	b   []byte
	pos int
}

func (r *ksR) take(n int) []byte {
	if r.pos+n > len(r.b) {
		ksHarnessFatal("short kernsim response (want %d more bytes at %d of %d)", n, r.pos, len(r.b))
	}
	p := r.b[r.pos : r.pos+n]
	r.pos += n
	return p
}
func (r *ksR) u8() uint8     { return r.take(1)[0] }
func (r *ksR) u16() uint16   { return binary.LittleEndian.Uint16(r.take(2)) }
func (r *ksR) u32() uint32   { return binary.LittleEndian.Uint32(r.take(4)) }
func (r *ksR) i32() int32    { return int32(r.u32()) }
func (r *ksR) u64() uint64   { return binary.LittleEndian.Uint64(r.take(8)) }
func (r *ksR) str() string   { n := int(r.u8()); return string(r.take(n)) }
func (r *ksR) blob() []byte  { n := int(r.u32()); return append([]byte(nil), r.take(n)...) }
func (r *ksR) done()         { if r.pos != len(r.b) { ksHarnessFatal("trailing bytes in kernsim response") } }
func (r *ksR) ops() []ksOp {
	n := int(r.u32())
	ops := make([]ksOp, 0, n)
	for i := 0; i < n; i++ {
		var o ksOp
		o.Op = r.u8()
		o.Map = r.str()
		kl := int(r.u16())
		o.Key = append([]byte(nil), r.take(kl)...)
		o.Res = r.i32()
		ops = append(ops, o)
	}
	return ops
}

// ---- requests

func (k *ksSim) Reset() { k.tb.Helper(); k.call(ksOpReset, nil) }

func (k *ksSim) SetParam(raw []byte) {
	k.tb.Helper()
	var w ksW
	w.blob(raw)
	k.call(ksOpSetParam, w.b)
}

func (k *ksSim) GetParam() []byte {
	k.tb.Helper()
	r := ksR{b: k.call(ksOpGetParam, nil)}
	return r.blob()
}

func (k *ksSim) SetClock(ns uint64) {
	k.tb.Helper()
	var w ksW
	w.u64(ns)
	k.call(ksOpSetClock, w.b)
}

func (k *ksSim) MapUpdate(name string, key, value []byte, flags uint64) int32 {
	k.tb.Helper()
	var w ksW
	w.str(name)
	w.blob(key)
	w.blob(value)
	w.u64(flags)
	r := ksR{b: k.call(ksOpMapUpdate, w.b)}
	return r.i32()
}

func (k *ksSim) MapDelete(name string, key []byte) int32 {
	k.tb.Helper()
	var w ksW
	w.str(name)
	w.blob(key)
	r := ksR{b: k.call(ksOpMapDelete, w.b)}
	return r.i32()
}

func (k *ksSim) MapLookup(name string, key []byte) ([]byte, bool) {
	k.tb.Helper()
	var w ksW
	w.str(name)
	w.blob(key)
	r := ksR{b: k.call(ksOpMapLookup, w.b)}
	found := r.u8() != 0
	v := r.blob()
	return v, found
}

func (k *ksSim) MapDump(name string) []ksKV {
	k.tb.Helper()
	var w ksW
	w.str(name)
	r := ksR{b: k.call(ksOpMapDump, w.b)}
	ks, vs, n := int(r.u32()), int(r.u32()), int(r.u32())
	out := make([]ksKV, 0, n)
	for i := 0; i < n; i++ {
		kv := ksKV{Key: append([]byte(nil), r.take(ks)...)}
		kv.Value = append([]byte(nil), r.take(vs)...)
		out = append(out, kv)
	}
	return out
}

// LpmSlotInstall creates a fresh LPM trie holding (keys[i] -> values[i]) and installs it
// in lpm_array_map[slot]. keys[i] = 20 bytes (u32 prefixlen + 16 data bytes), exactly what
// cilium/ebpf would write for a _bpfLpmKey (use ksMarshal).
func (k *ksSim) LpmSlotInstall(slot uint32, keys [][]byte, values []uint32) int32 {
	k.tb.Helper()
	if len(keys) != len(values) {
		ksHarnessFatal("LpmSlotInstall: %d keys, %d values", len(keys), len(values))
	}
	var w ksW
	w.u32(slot)
	w.u8(0)
	w.u32(uint32(len(keys)))
	for i := range keys {
		if len(keys[i]) != 20 {
			ksHarnessFatal("LpmSlotInstall: key %d has %d bytes, want 20", i, len(keys[i]))
		}
		w.raw(keys[i])
		w.u32(values[i])
	}
	r := ksR{b: k.call(ksOpLpmSlot, w.b)}
	return r.i32()
}

func (k *ksSim) LpmSlotRemove(slot uint32) int32 {
	k.tb.Helper()
	var w ksW
	w.u32(slot)
	w.u8(1)
	w.u32(0)
	r := ksR{b: k.call(ksOpLpmSlot, w.b)}
	return r.i32()
}

func (k *ksSim) Sockets(socks []ksSock) int32 {
	k.tb.Helper()
	var w ksW
	w.u32(uint32(len(socks)))
	for _, s := range socks {
		w.u32(s.ID)
		w.u8(s.Proto)
		w.u8(s.Family)
		w.u8(s.State)
		w.u8(uint8(s.ListenSlot))
		w.raw(s.LocalIP[:])
		w.u16(s.LocalPort)
		w.raw(s.RemoteIP[:])
		w.u16(s.RemotePort)
		w.u32(s.Mark)
	}
	r := ksR{b: k.call(ksOpSockets, w.b)}
	return r.i32()
}

func (k *ksSim) SetMaxEntries(name string, n uint32) int32 {
	k.tb.Helper()
	var w ksW
	w.str(name)
	w.u32(n)
	r := ksR{b: k.call(ksOpSetMaxEntries, w.b)}
	return r.i32()
}

func (k *ksSim) Route(in ksRouteIn) ksRouteOut {
	k.tb.Helper()
	var w ksW
	w.bool(!in.NoLog)
	for _, f := range in.Flag {
		w.u32(f)
	}
	w.blob(in.L4Hdr)
	w.raw(in.Saddr[:])
	w.raw(in.Daddr[:])
	w.raw(in.Mac[:])
	r := ksR{b: k.call(ksOpRoute, w.b)}
	var o ksRouteOut
	o.Ret = int64(r.u64())
	copy(o.LpmKeySaddr[:], r.take(20))
	copy(o.LpmKeyDaddr[:], r.take(20))
	copy(o.LpmKeyMac[:], r.take(20))
	o.HDport = r.u16()
	o.HSport = r.u16()
	o.IsWan = r.u8()
	o.Ops = r.ops()
	r.done()
	return o
}

func (k *ksSim) Run(prog string, in ksRunIn) ksRunOut {
	k.tb.Helper()
	var w ksW
	w.str(prog)
	w.bool(!in.NoLog)
	m := in.Meta
	w.u32(m.Protocol)
	w.u32(m.Ifindex)
	w.u32(m.IngressIfindex)
	w.u32(m.Mark)
	for _, c := range m.Cb {
		w.u32(c)
	}
	w.u32(m.PktType)
	w.u64(m.Cookie)
	w.u64(m.PidTgid)
	w.raw(m.Comm[:])
	w.str(m.Args)
	w.blob(in.Frame)
	w.u32(in.LinearLen)
	w.bool(in.PullFails)
	r := ksR{b: k.call(ksOpRun, w.b)}
	var o ksRunOut
	o.Verdict = r.i32()
	o.Mark = r.u32()
	for i := range o.Cb {
		o.Cb[i] = r.u32()
	}
	o.PktType = r.u32()
	o.RedirectKind = r.u8()
	o.RedirectIfindex = r.u32()
	o.RedirectFlags = r.u64()
	o.AssignedSock = r.i32()
	o.SockRefsLeaked = r.i32()
	o.LinearLen = r.u32()
	o.PullCalls = r.u32()
	o.PullFailed = r.u32()
	o.LoadBytesCalls = r.u32()
	o.StoreBytesCalls = r.u32()
	o.Frame = r.blob()
	ne := int(r.u32())
	for i := 0; i < ne; i++ {
		o.Events = append(o.Events, r.blob())
	}
	o.Ops = r.ops()
	r.done()
	return o
}

func (k *ksSim) KeysFromFrame(linkHLen uint32, protocol uint32, frame []byte, linearLen uint32, pullFails bool) ksFrameKeys {
	k.tb.Helper()
	var w ksW
	w.u32(linkHLen)
	w.u32(protocol)
	w.blob(frame)
	w.u32(linearLen)
	w.bool(pullFails)
	r := ksR{b: k.call(ksOpKeysFrame, w.b)}
	var o ksFrameKeys
	o.ParseRet = r.i32()
	o.TuplesKey = r.blob()
	o.ReversedKey = r.blob()
	o.Dscp = r.u8()
	o.L4Proto = r.u8()
	o.RedirectTuple = r.blob()
	copy(o.SrcMac[:], r.blob())
	r.done()
	return o
}

// Alive calls wan_outbound_is_alive(skb{protocol}, outbound, l4proto, dport) — dportBE is the
// network-order port as stored in tuples_key (ksHtons(port)).
func (k *ksSim) Alive(outbound, l4proto uint8, dportBE uint16, protocol uint32) (bool, []ksOp) {
	k.tb.Helper()
	var w ksW
	w.u8(outbound)
	w.u8(l4proto)
	w.u16(dportBE)
	w.u32(protocol)
	r := ksR{b: k.call(ksOpAlive, w.b)}
	alive := r.u8() != 0
	ops := r.ops()
	r.done()
	return alive, ops
}

func (k *ksSim) Info() ksInfo {
	k.tb.Helper()
	r := ksR{b: k.call(ksOpInfo, nil)}
	var o ksInfo
	o.ParamSize = r.u32()
	n := int(r.u32())
	for i := 0; i < n; i++ {
		var m ksMapInfo
		m.Name = r.str()
		m.Type, m.KeySize, m.ValueSize, m.MaxEntries, m.Flags = r.u32(), r.u32(), r.u32(), r.u32(), r.u32()
		o.Maps = append(o.Maps, m)
	}
	n = int(r.u32())
	for i := 0; i < n; i++ {
		name := r.str()
		sec := r.str()
		o.Progs = append(o.Progs, [2]string{name, sec})
	}
	o.Consts = map[string]int64{}
	n = int(r.u32())
	for i := 0; i < n; i++ {
		name := r.str()
		o.Consts[name] = int64(r.u64())
	}
	r.done()
	return o
}

// ksOpsOn filters an op log by map name.
func ksOpsOn(ops []ksOp, mapName string) []ksOp {
	var out []ksOp
	for _, o := range ops {
		if o.Map == mapName {
			out = append(out, o)
		}
	}
	return out
}

// ksRouteDecode splits a non-negative route() result the way the three call sites do.
func ksRouteDecode(ret int64) (outbound uint8, mark uint32, must bool) {
	return uint8(ret & 0xff), uint32(ret >> 8), (ret>>40)&1 == 1
}

// ---- cilium/ebpf marshalling rule (internal/sysenc.Marshal of v0.20.0, which package
// control cannot import): []byte/string as is; fixed-size ints native-endian; a pointer
// or slice whose binary.Size equals its in-memory size and that has no unexported
// non-blank fields is written as raw memory; everything else through binary.Append
// (native endian; blank fields as zeros; NO implicit padding).
func ksMarshal(v any) []byte {
	switch x := v.(type) {
	case []byte:
		return append([]byte(nil), x...)
	case string:
		return []byte(x)
	}
	if mem := ksBackingMemory(v); mem != nil {
		return append([]byte(nil), mem...)
	}
	b, err := binary.Append(nil, binary.NativeEndian, v)
	if err != nil {
		ksHarnessFatal("ksMarshal(%T): %v", v, err)
	}
	return b
}

func ksBackingMemory(data any) []byte {
	value := reflect.ValueOf(data)
	var size int
	switch value.Kind() {
	case reflect.Pointer:
		if value.IsNil() {
			return nil
		}
		if et := value.Type().Elem(); et.Kind() != reflect.Slice {
			size = int(et.Size())
			break
		}
		value = value.Elem()
		fallthrough
	case reflect.Slice:
		size = int(value.Type().Elem().Size()) * value.Len()
	default:
		return nil
	}
	if bs := binary.Size(data); bs == -1 || bs != size {
		return nil
	}
	if ksHasUnexported(reflect.TypeOf(data)) {
		return nil
	}
	if size == 0 {
		return []byte{}
	}
	return unsafe.Slice((*byte)(value.UnsafePointer()), size)
}

func ksHasUnexported(t reflect.Type) bool {
	switch t.Kind() {
	case reflect.Slice, reflect.Array, reflect.Pointer:
		return ksHasUnexported(t.Elem())
	case reflect.Struct:
		for i := 0; i < t.NumField(); i++ {
			f := t.Field(i)
			if (!f.IsExported() && f.Name != "_") || ksHasUnexported(f.Type) {
				return true
			}
		}
	}
	return false
}

// ---- frame builder (shared by C19/C02/C03 harnesses)

const (
	ksTCPFin = 0x01
	ksTCPSyn = 0x02
	ksTCPRst = 0x04
	ksTCPAck = 0x10
)

// ksPkt describes one frame. Src/Dst must be of the same family after Unmap():
// v4 (also given as ::ffff:a.b.c.d) => IPv4 header unless ForceV6 is set.
type ksPkt struct {
	L2       bool // prepend an Ethernet header
	SrcMac   [6]byte
	DstMac   [6]byte
	SrcIP    [16]byte // As16()
	DstIP    [16]byte
	V6       bool // IPv6 header (addresses written as 16 bytes) else IPv4 header (last 4 bytes)
	Proto    uint8 // 6 / 17 (anything else: no L4 header is written, Payload follows)
	Sport    uint16
	Dport    uint16
	TCPFlags uint8
	Dscp     uint8
	IHL      uint8   // IPv4 header length in words (default 5; >5 pads NOP options)
	FragOff  uint16  // fragment offset in 8-byte units (IPv4 field / IPv6 fragment header)
	MoreFrag bool    // IPv4 MF flag / M bit of the IPv6 fragment header (needs 44 in ExtHdrs)
	ExtHdrs  []uint8 // IPv6 extension chain: 0 hop-by-hop, 43 routing, 60 dst opts, 44 fragment
	Payload  []byte
}

func (p ksPkt) Protocol() uint32 {
	if p.V6 {
		return ksProtoIP6
	}
	return ksProtoIP4
}

func (p ksPkt) Bytes() []byte {
	var b []byte
	if p.L2 {
		b = append(b, p.DstMac[:]...)
		b = append(b, p.SrcMac[:]...)
		if p.V6 {
			b = append(b, 0x86, 0xDD)
		} else {
			b = append(b, 0x08, 0x00)
		}
	}
	var l4 []byte
	switch p.Proto {
	case 6:
		l4 = make([]byte, 20)
		binary.BigEndian.PutUint16(l4[0:], p.Sport)
		binary.BigEndian.PutUint16(l4[2:], p.Dport)
		binary.BigEndian.PutUint32(l4[4:], 0x01020304)
		binary.BigEndian.PutUint32(l4[8:], 0x05060708)
		l4[12] = 5 << 4
		l4[13] = p.TCPFlags
		binary.BigEndian.PutUint16(l4[14:], 0xffff)
	case 17:
		l4 = make([]byte, 8)
		binary.BigEndian.PutUint16(l4[0:], p.Sport)
		binary.BigEndian.PutUint16(l4[2:], p.Dport)
		binary.BigEndian.PutUint16(l4[4:], uint16(8+len(p.Payload)))
	}
	l4 = append(l4, p.Payload...)
	if !p.V6 {
		ihl := p.IHL
		if ihl < 5 {
			ihl = 5
		}
		h := make([]byte, int(ihl)*4)
		h[0] = 0x40 | ihl
		h[1] = p.Dscp << 2
		binary.BigEndian.PutUint16(h[2:], uint16(len(h)+len(l4)))
		fo := p.FragOff & 0x1fff
		if p.MoreFrag {
			fo |= 0x2000
		}
		binary.BigEndian.PutUint16(h[6:], fo)
		h[8] = 64
		h[9] = p.Proto
		copy(h[12:16], p.SrcIP[12:])
		copy(h[16:20], p.DstIP[12:])
		for i := 20; i < len(h); i++ {
			h[i] = 1 // NOP
		}
		b = append(b, h...)
		return append(b, l4...)
	}
	var ext []byte
	next := p.Proto
	// build the chain back to front
	for i := len(p.ExtHdrs) - 1; i >= 0; i-- {
		var e []byte
		if p.ExtHdrs[i] == 44 {
			e = make([]byte, 8)
			e[0] = next
			fo := (p.FragOff & 0x1fff) << 3
			if p.MoreFrag {
				fo |= 1
			}
			binary.BigEndian.PutUint16(e[2:], fo)
		} else {
			e = make([]byte, 8)
			e[0] = next
			e[1] = 0 // (0+1)*8 bytes
			e[2], e[3], e[4], e[5], e[6], e[7] = 1, 4, 0, 0, 0, 0 // PadN
		}
		ext = append(e, ext...)
		next = p.ExtHdrs[i]
	}
	h := make([]byte, 40)
	tc := p.Dscp << 2
	h[0] = 0x60 | tc>>4
	h[1] = tc << 4
	binary.BigEndian.PutUint16(h[4:], uint16(len(ext)+len(l4)))
	h[6] = next
	h[7] = 64
	copy(h[8:24], p.SrcIP[:])
	copy(h[24:40], p.DstIP[:])
	b = append(b, h...)
	b = append(b, ext...)
	return append(b, l4...)
}

package control

// C09 (a) — controller level, through the dnsForwarderFactory seam.
//
// 2-8 client queries (names from a pool of three with random letter case, three
// qtypes, transaction IDs from a pool of four so that they collide, two resolvers in
// as-is mode) enter DnsController.HandleWithResponseWriter_ at rapid-chosen steps. The
// fake upstream parks every ForwardDNS call; the scheduler releases parked calls in a
// rapid-chosen order with a rapid-chosen behaviour (right answer in five shapes / late
// / answer to a different question under the right ID / TC=1 / nothing / error; for
// tcp+udp upstreams a failed UDP attempt falls back to TCP) and advances the virtual
// clock. Replies are observed at the ResponseWriter.

import (
	"context"
	"fmt"
	"net/netip"
	"sort"
	"strconv"
	"strings"
	"sync"
	"testing"
	"testing/synctest"
	"time"

	"github.com/daeuniverse/dae/common/consts"
	componentdns "github.com/daeuniverse/dae/component/dns"
	"github.com/daeuniverse/dae/config"
	dnsmessage "github.com/miekg/dns"
	"pgregory.net/rapid"
)

const c09UnitCtl = "C09.controller"

var c09IDs = []uint16{0x0000, 0x0001, 0x1234, 0xffff}
var c09Resolvers = []netip.AddrPort{netip.MustParseAddrPort("8.8.8.8:53"), netip.MustParseAddrPort("1.1.1.1:53")}
var c09Modes = []string{"asis", "udp", "tcp", "tcp+udp"}

type c09Client struct {
	idx     int
	name    string // as sent (mixed case)
	lname   string
	qtype   uint16
	id      uint16
	realDst netip.AddrPort
	key     string
	msg     *dnsmessage.Msg
	w       *c09Writer

	mu      sync.Mutex
	started bool
	done    bool
	err     error

	delPark *c09DeletePark // set while the client sits in the cache delete callback

	ctx       context.Context // request context (nil: Background)
	cancel    context.CancelFunc
	cancelled bool
}

func (c *c09Client) isDone() (bool, error) {
	c.mu.Lock()
	defer c.mu.Unlock()
	return c.done, c.err
}

func (c *c09Client) String() string {
	return fmt.Sprintf("client%d{%s/%d id=%#04x dst=%s}", c.idx, c.name, c.qtype, c.id, c.realDst)
}

type c09CtlEnv struct {
	w       *c09World
	c       *DnsController // the current generation's facade
	mode    string
	restore func()
	routing *componentdns.Dns
	option  func() *DnsControllerOption
}

func c09Routing(mode string) (*componentdns.Dns, error) {
	cfg := &config.Dns{
		Routing: config.DnsRouting{
			Request:  config.DnsRequestRouting{Fallback: "asis"},
			Response: config.DnsResponseRouting{Fallback: "accept"},
		},
	}
	if mode != "asis" {
		cfg.Upstream = []config.KeyableString{config.KeyableString("u1:" + mode + "://10.9.0.1:53")}
		cfg.Routing.Request.Fallback = "u1"
	}
	return componentdns.New(cfg, &componentdns.NewOption{
		Logger:                c09Log(),
		UpstreamReadyCallback: func(*componentdns.Upstream) error { return nil },
	})
}

func c09BestDialer(ctx context.Context, req *udpRequest, upstream *componentdns.Upstream) (*dialArgument, error) {
	l4 := consts.L4ProtoStr_UDP
	if upstream.Scheme == componentdns.UpstreamScheme_TCP {
		l4 = consts.L4ProtoStr_TCP
	}
	ip := upstream.Ip4
	if !ip.IsValid() {
		ip = upstream.Ip6
	}
	return &dialArgument{l4proto: l4, ipversion: consts.IpVersionStr_4, bestTarget: netip.AddrPortFrom(ip, upstream.Port)}, nil
}

// c09Prefer: dns.ip_version_prefer of the controller the next c09NewCtlEnv builds
// (0 = off). Cases run one at a time, so a package variable is enough.
var c09Prefer int

func c09NewCtlEnv(mode string) (*c09CtlEnv, error) {
	c09ResetGlobals()
	w := c09NewWorld()
	routing, err := c09Routing(mode)
	if err != nil {
		return nil, err
	}
	routing.InitUpstreams(context.Background())
	option := func() *DnsControllerOption {
		return &DnsControllerOption{
			Log:               c09Log(),
			LifecycleContext:  context.Background(),
			NewCache:          c09NewCacheFn,
			BestDialerChooser: c09BestDialer,
			IpVersionPrefer:   c09Prefer,
			// the production seam between a client's own cache lookup (which evicts an
			// expired entry) and its entry into the singleflight
			CacheDeleteCallback: w.cacheDeleteCallback,
		}
	}
	ctl, err := NewDnsController(routing, option())
	if err != nil {
		return nil, err
	}
	// "one upstream resolution": no upstream call may start while the cache holds a
	// fresh answer to that very question (the resolution inside the singleflight has
	// to look again before it dials).
	w.onForward = func(f *c09Fwd, req *dnsmessage.Msg) string {
		q := req.Question[0]
		base := ctl.cacheKey(q.Name, q.Qtype)
		for _, key := range []string{base + "|asis@" + f.target.String(), base + "|upstream@" + f.upstream} {
			if v, ok := ctl.dnsCache.Load(key); ok {
				if e := v.(*DnsCache); e.Deadline.After(time.Now()) {
					return fmt.Sprintf("an upstream resolution for %s/%d was started on forwarder #%d although the cache holds a fresh answer under %q (identical overlapping questions must be resolved once)", q.Name, q.Qtype, f.id, key)
				}
			}
		}
		return ""
	}
	orig := dnsForwarderFactory
	dnsForwarderFactory = w.factory
	return &c09CtlEnv{w: w, c: ctl, mode: mode, restore: func() { dnsForwarderFactory = orig }, routing: routing, option: option}, nil
}

func (e *c09CtlEnv) teardown() {
	e.w.abort()
	// let every client goroutine run to its end against the (now failing) fakes
	// before the real factory is put back
	synctest.Wait()
	e.w.mu.Lock()
	e.w.shutdown = true
	e.w.mu.Unlock()
	_ = e.c.Close()
	e.restore()
}

func (e *c09CtlEnv) callKey(c *c09Call) string {
	q := c.req.Question[0]
	scope := ""
	if e.mode == "asis" {
		scope = c.fwd.target.String()
	}
	return strings.ToLower(q.Name) + "/" + strconv.Itoa(int(q.Qtype)) + "|" + scope
}

func c09GenClients(t *rapid.T, mode string) []*c09Client {
	n := rapid.IntRange(2, 8).Draw(t, "nClients")
	// few distinct questions so that identical ones meet
	nNames := rapid.IntRange(1, 3).Draw(t, "nNames")
	types := c09DrawQtypeSet(t)
	out := make([]*c09Client, n)
	for i := range out {
		base := c09Names[rapid.IntRange(0, nNames-1).Draw(t, "name")]
		mask := uint32(0)
		if rapid.IntRange(0, 2).Draw(t, "mixedCase") == 0 {
			mask = rapid.Uint32().Draw(t, "caseMask")
		}
		cl := &c09Client{
			idx:     i,
			name:    c09MangleCase(base, mask),
			lname:   base,
			qtype:   types[rapid.IntRange(0, len(types)-1).Draw(t, "qtype")],
			id:      rapid.SampledFrom(c09IDs).Draw(t, "id"),
			realDst: netip.MustParseAddrPort("192.0.2.53:53"),
			w:       &c09Writer{},
		}
		scope := ""
		if mode == "asis" {
			cl.realDst = c09Resolvers[rapid.IntRange(0, 1).Draw(t, "resolver")]
			scope = cl.realDst.String()
		}
		cl.key = cl.lname + "/" + strconv.Itoa(int(cl.qtype)) + "|" + scope
		m := new(dnsmessage.Msg)
		m.Id = cl.id
		m.RecursionDesired = true
		m.Question = []dnsmessage.Question{{Name: cl.name, Qtype: cl.qtype, Qclass: dnsmessage.ClassINET}}
		cl.msg = m
		cl.ctx, cl.cancel = context.WithCancel(context.Background())
		out[i] = cl
	}
	return out
}

func (e *c09CtlEnv) startClient(cl *c09Client) {
	cl.mu.Lock()
	cl.started = true
	cl.mu.Unlock()
	req := &udpRequest{
		realSrc:       netip.AddrPortFrom(netip.AddrFrom4([4]byte{192, 0, 2, byte(100 + cl.idx)}), uint16(40000+cl.idx)),
		realDst:       cl.realDst,
		routingResult: &bpfRoutingResult{},
	}
	req.src = req.realSrc
	ctx := cl.ctx
	if ctx == nil {
		ctx = context.Background()
	}
	ctl := e.c // the facade that is current when the query arrives
	go func() {
		err := ctl.HandleWithResponseWriter_(ctx, cl.msg, req, cl.w)
		cl.mu.Lock()
		cl.done, cl.err = true, err
		cl.mu.Unlock()
	}()
}

// c09DrawAction draws what the upstream does with a parked call.
func c09DrawAction(t *rapid.T, call *c09Call, unit string) c09Action {
	udp := call.fwd.proto == consts.L4ProtoStr_UDP
	kinds := []int{c09ActOK, c09ActOK, c09ActOK, c09ActOK, c09ActForeign, c09ActForeign, c09ActTimeout, c09ActError}
	if udp {
		kinds = append(kinds, c09ActTrunc)
	}
	k := rapid.SampledFrom(kinds).Draw(t, "upstreamDoes")
	if k == c09ActForeign && vkKnown("F4") {
		// known, unrepaired: an upstream answer to a different question under the right
		// ID is forwarded and cached. Keep the generator off that exact shape.
		vkExcluded(unit, "F4")
		k = c09ActOK
	}
	act := c09Action{kind: k, respID: call.req.Id}
	if !udp {
		// a stream transport answers under its own pipeline ID
		act.respID = uint16(rapid.IntRange(0, 4095).Draw(t, "pipelineID"))
	}
	switch k {
	case c09ActOK:
		act.ansKind = rapid.IntRange(0, c09AnsKinds-1).Draw(t, "answerShape")
	case c09ActTrunc:
		act.partial = rapid.IntRange(0, 2).Draw(t, "partialRecords")
	case c09ActForeign:
		act.ansKind = rapid.SampledFrom([]int{c09AnsAddr, c09AnsAddr, c09AnsTTL0, c09AnsCname, c09AnsCnameAddr1st}).Draw(t, "answerShape")
		act.foreign = c09OtherQuestion(t, call.req.Question[0])
	}
	return act
}

func c09ActString(a c09Action) string {
	s := c09ActNames[a.kind]
	switch a.kind {
	case c09ActOK:
		s += "(" + c09AnsKindNames[a.ansKind] + ")"
	case c09ActForeign:
		s += fmt.Sprintf("(%s/%d,%s)", a.foreign.Name, a.foreign.Qtype, c09AnsKindNames[a.ansKind])
	case c09ActTrunc:
		s += fmt.Sprintf("(%d partial records)", a.partial)
	}
	return s
}

// c09CheckClientReplies validates everything the controller wrote to the client.
func c09CheckClientReplies(cl *c09Client) error {
	cl.w.mu.Lock()
	defer cl.w.mu.Unlock()
	for i, m := range cl.w.msgs {
		if err := c09CheckReply(m, true, cl.id, cl.name, cl.qtype); err != nil {
			return fmt.Errorf("%s, reply %d of %d: %v\n    reply: %s", cl, i+1, len(cl.w.msgs), err, strings.ReplaceAll(m.String(), "\n", "\n    "))
		}
	}
	return nil
}

func c09ControllerCase(t *rapid.T) {
	mode := rapid.SampledFrom(c09Modes).Draw(t, "mode")
	clients := c09GenClients(t, mode)
	directed := rapid.IntRange(0, 3).Draw(t, "directedOverlap") == 0
	if directed {
		// three clients with the identical question (IDs and letter case stay as drawn)
		for len(clients) < 3 {
			cp := *clients[0]
			clients = append(clients, &c09Client{idx: len(clients), name: cp.name, lname: cp.lname, qtype: cp.qtype, id: cp.id ^ uint16(len(clients)), realDst: cp.realDst, w: &c09Writer{}})
		}
		for _, cl := range clients[1:3] {
			cl.lname, cl.qtype, cl.realDst, cl.key = clients[0].lname, clients[0].qtype, clients[0].realDst, clients[0].key
			cl.name = c09MangleCase(cl.lname, uint32(cl.id)*2654435761)
			m := new(dnsmessage.Msg)
			m.Id = cl.id
			m.RecursionDesired = true
			m.Question = []dnsmessage.Question{{Name: cl.name, Qtype: cl.qtype, Qclass: dnsmessage.ClassINET}}
			cl.msg = m
		}
	}
	for _, cl := range clients {
		if cl.cancel == nil {
			cl.ctx, cl.cancel = context.WithCancel(context.Background())
		}
	}
	defer func() {
		for _, cl := range clients {
			cl.cancel()
		}
	}()
	// ip_version_prefer: answers of the non-preferred family are held back briefly for
	// the preferred one; whatever is released must still be the client's own reply
	c09Prefer = rapid.SampledFrom([]int{0, 0, 0, 4, 6}).Draw(t, "ip_version_prefer")
	if c09RaceBuild {
		c09Prefer = 0 // see c09_racebuild_on_test.go
	}
	env, err := c09NewCtlEnv(mode)
	c09Prefer = 0
	if err != nil {
		t.Fatalf("harness: cannot build controller: %v", err)
	}
	defer env.teardown()
	w := env.w

	var trace []string
	classes := map[string]bool{"mode:" + mode: true, fmt.Sprintf("ip_version_prefer_%d", env.c.currentQtypePrefer()): true}
	fail := func(format string, a ...any) {
		t.Fatalf("C09 violated: %s\nmode=%s\nschedule:\n  %s", fmt.Sprintf(format, a...), mode, strings.Join(trace, "\n  "))
	}

	inflightOfKey := func(key string) []*c09Client {
		var out []*c09Client
		for _, cl := range clients {
			cl.mu.Lock()
			// a client parked between its cache miss and the singleflight is in
			// flight but not (yet) a waiter of any resolution
			if cl.started && !cl.done && cl.key == key && (cl.delPark == nil || w.deleteReturned(cl.delPark)) {
				out = append(out, cl)
			}
			cl.mu.Unlock()
		}
		return out
	}
	checkParkedUnique := func() {
		seen := map[string]*c09Call{}
		for _, c := range w.unreturned() {
			k := env.callKey(c)
			if o := seen[k]; o != nil {
				fail("two upstream resolutions are in flight for the same question %s (forwarder #%d %s and #%d %s)", k, o.fwd.id, o.fwd.proto, c.fwd.id, c.fwd.proto)
			}
			seen[k] = c
		}
	}

	faulty, maxWaiters, coalesced := false, 0, false

	doRelease := func(call *c09Call, forced *c09Action) {
		key := env.callKey(call)
		before := inflightOfKey(key)
		if len(before) > maxWaiters {
			maxWaiters = len(before)
		}
		if len(before) >= 2 {
			coalesced = true
			classes["coalesced"] = true
		}
		var act c09Action
		if forced != nil {
			act = *forced
			act.respID = call.req.Id
			if call.fwd.proto != consts.L4ProtoStr_UDP {
				act.respID = 7
			}
		} else {
			act = c09DrawAction(t, call, c09UnitCtl)
		}
		if act.kind != c09ActOK {
			faulty = true
		}
		late := call.ctx.Err() != nil
		if late {
			classes["late"] = true
			faulty = true
		}
		classes["upstream:"+c09ActNames[act.kind]] = true
		if act.kind == c09ActOK {
			classes["shape:"+c09AnsKindNames[act.ansKind]] = true
		}
		trace = append(trace, fmt.Sprintf("release call#%d fwd#%d(%s) %s -> %s late=%v waiters=%d", call.serial, call.fwd.id, call.fwd.proto, key, c09ActString(act), late, len(before)))
		w.release(call, act)
		if !c09WaitReturned(w, call) {
			fail("harness: released call #%d did not return", call.serial)
		}
		synctest.Wait()
		w.failOnViolations(t, &trace)
		checkParkedUnique()

		// What became of the resolution this call belonged to?
		var next []*c09Call
		for _, c := range w.unreturned() {
			if env.callKey(c) == key {
				next = append(next, c)
			}
		}
		failedStep := act.kind == c09ActTrunc || act.kind == c09ActTimeout || act.kind == c09ActError
		if len(next) == 1 {
			np := next[0]
			// an answer to a different question may be rejected, i.e. count as a failed step
			fallbackOK := mode == "tcp+udp" && call.fwd.proto == consts.L4ProtoStr_UDP && np.fwd.proto == consts.L4ProtoStr_TCP &&
				(failedStep || act.kind == c09ActForeign)
			if !fallbackOK {
				fail("after upstream step %s for %s a second upstream call (fwd#%d %s) was started although this is not a UDP->TCP fallback", c09ActString(act), key, np.fwd.id, np.fwd.proto)
			}
			classes["fallback"] = true
			for _, cl := range before {
				if d, _ := cl.isDone(); d {
					fail("%s finished although the UDP->TCP fallback of its resolution is still running", cl)
				}
			}
			return
		}
		if mode == "tcp+udp" && call.fwd.proto == consts.L4ProtoStr_UDP && failedStep {
			fail("the UDP attempt for %s ended with %s but no TCP retry was started for this tcp+udp upstream", key, c09ActString(act))
		}
		// resolution over: every waiter must have its result now, and the same one.
		// (with ip_version_prefer an answer of the other family is held back for the
		// documented resolution delay first)
		prefer := env.c.currentQtypePrefer()
		nOK, nErr := 0, 0
		for _, cl := range before {
			if prefer != 0 && (cl.qtype == dnsmessage.TypeA || cl.qtype == dnsmessage.TypeAAAA) && cl.qtype != prefer {
				// held back for the preferred family's answer (which the schedule may
				// release within the delay): its reply is validated at the end
				classes["non_preferred_answer_held_back"] = true
				continue
			}
			if cl.cancelled {
				// its own request was cancelled: whatever it gets is accepted (what it
				// was sent, if anything, is still validated at the end)
				continue
			}
			d, cerr := cl.isDone()
			if !d {
				fail("%s is still waiting although the upstream resolution for %s ended (%s)", cl, key, c09ActString(act))
			}
			if cerr == nil {
				nOK++
				cl.w.mu.Lock()
				nmsg := len(cl.w.msgs)
				cl.w.mu.Unlock()
				if nmsg == 0 {
					fail("%s: handler returned success without writing a reply", cl)
				}
			} else {
				nErr++
			}
			if err := c09CheckClientReplies(cl); err != nil {
				fail("%v", err)
			}
		}
		if nOK > 0 && nErr > 0 {
			fail("waiters of one resolution for %s got different outcomes: %d replies, %d failures", key, nOK, nErr)
		}
		if act.kind == c09ActOK && nErr > 0 {
			fail("upstream answered %s correctly but %d waiter(s) got a failure", key, nErr)
		}
		if failedStep && nOK > 0 {
			fail("upstream step %s ended the resolution for %s in failure but %d waiter(s) got a reply", c09ActString(act), key, nOK)
		}
	}

	// startStep starts a client; with arm, a cache lookup of that client that evicts an
	// expired entry parks in the delete callback, i.e. after the client's cache miss
	// and before it enters the singleflight.
	startStep := func(cl *c09Client, arm bool) {
		nParks := len(w.parkedDeletes())
		w.armDeletePark(arm)
		trace = append(trace, "start "+cl.String())
		env.startClient(cl)
		synctest.Wait()
		w.armDeletePark(false)
		if ps := w.parkedDeletes(); len(ps) > nParks {
			cl.mu.Lock()
			cl.delPark = ps[len(ps)-1]
			cl.mu.Unlock()
			classes["parked-between-miss-and-singleflight"] = true
			trace = append(trace, fmt.Sprintf("  (%s evicted the expired entry %q and is parked in the delete callback)", cl, cl.delPark.key))
		}
	}
	parkedForKey := func(key string) *c09Call {
		for _, c := range w.parked() {
			if env.callKey(c) == key {
				return c
			}
		}
		return nil
	}

	reloads := 0
	started := 0
	if directed {
		// Aimed prefix: P resolves the question with a short TTL; the entry expires; B
		// asks the same, evicts the expired entry and is parked before the singleflight;
		// A asks the same and its resolution completes (and is cached). What happens
		// when B goes on is left to the random schedule below.
		classes["directed-overlap"] = true
		p, b, a := clients[0], clients[1], clients[2]
		startStep(p, false)
		for i := 0; i < 2; i++ { // tcp+udp: at most UDP then TCP
			if c := parkedForKey(p.key); c != nil {
				doRelease(c, &c09Action{kind: c09ActOK, ansKind: c09AnsTTL2})
			}
		}
		trace = append(trace, "advance 3s")
		time.Sleep(3 * time.Second)
		synctest.Wait()
		startStep(b, true)
		startStep(a, false)
		if c := parkedForKey(a.key); c != nil {
			shape := rapid.SampledFrom([]int{c09AnsAddr, c09AnsAddr, c09AnsCname, c09AnsCnameAddr1st, c09AnsEmpty, c09AnsTTL2}).Draw(t, "overlapAnswerShape")
			doRelease(c, &c09Action{kind: c09ActOK, ansKind: shape})
		}
		started = 3
	}
	for step := 0; step < 120; step++ {
		synctest.Wait()
		w.failOnViolations(t, &trace)
		checkParkedUnique()
		parked := w.parked()
		var opts []string
		if started < len(clients) {
			opts = append(opts, "start", "start")
		}
		if len(parked) > 0 {
			opts = append(opts, "release", "release")
		}
		if len(w.parkedDeletes()) > 0 {
			opts = append(opts, "unpark")
		}
		if len(opts) == 0 {
			break
		}
		var cancellable []*c09Client
		for _, cl := range clients {
			if d, _ := cl.isDone(); cl.started && !d && !cl.cancelled {
				cancellable = append(cancellable, cl)
			}
		}
		if len(cancellable) > 0 {
			opts = append(opts, "cancel")
		}
		if reloads < 2 {
			opts = append(opts, "reload")
		}
		opts = append(opts, "advance")
		switch rapid.SampledFrom(opts).Draw(t, "step") {
		case "start":
			cl := clients[started]
			started++
			// is an identical question already being resolved?
			for _, c := range w.unreturned() {
				if env.callKey(c) == cl.key {
					classes["joins-inflight"] = true
				}
			}
			startStep(cl, rapid.IntRange(0, 1).Draw(t, "parkIfItEvicts") == 0)
		case "cancel":
			cl := cancellable[rapid.IntRange(0, len(cancellable)-1).Draw(t, "whichClient")]
			var others []*c09Client
			for _, o := range inflightOfKey(cl.key) {
				if o != cl && !o.cancelled {
					others = append(others, o)
				}
			}
			var flight *c09Call
			for _, c := range w.unreturned() {
				if env.callKey(c) == cl.key {
					flight = c
				}
			}
			trace = append(trace, fmt.Sprintf("cancel the request context of %s (flight parked upstream: %v, other waiters: %d)", cl, flight != nil, len(others)))
			cl.cancelled = true
			cl.cancel()
			classes["client-cancelled"] = true
			if flight != nil {
				classes["cancel-with-flight"] = true
				faulty = true
			}
			synctest.Wait()
			if flight != nil && len(others) > 0 {
				classes["cancel-with-other-waiters"] = true
				w.mu.Lock()
				gone := flight.ctxCancelled
				w.mu.Unlock()
				if gone {
					fail("cancelling the request of %s aborted the shared upstream resolution for %s although %d other client(s) are waiting for it (the healthy upstream's answer must reach every waiter)", cl, cl.key, len(others))
				}
				for _, o := range others {
					if d, oerr := o.isDone(); d && oerr != nil {
						fail("%s failed (%v) because the request of %s was cancelled, although its upstream resolution was healthy", o, oerr, cl)
					}
				}
			}
		case "reload":
			reloads++
			inflight := len(w.unreturned())
			trace = append(trace, fmt.Sprintf("ReuseForReload (same configuration) with %d upstream call(s) parked; later clients use the new facade", inflight))
			next, rerr := env.c.ReuseForReload(env.option(), env.routing)
			if rerr != nil || next == nil {
				fail("harness: ReuseForReload: %v", rerr)
			}
			env.c = next
			classes["reload"] = true
			if inflight > 0 {
				classes["reload-with-flights"] = true
			}
		case "unpark":
			ps := w.parkedDeletes()
			p := ps[rapid.IntRange(0, len(ps)-1).Draw(t, "whichPark")]
			// did a resolution of the same question complete while it was parked?
			if v, ok := env.c.dnsCache.Load(p.key); ok && v.(*DnsCache).Deadline.After(time.Now()) {
				classes["unpark-after-other-resolution-cached"] = true
				faulty = true
			}
			trace = append(trace, fmt.Sprintf("unpark the client waiting in the delete callback of %q", p.key))
			w.releaseDelete(p)
		case "release":
			call := parked[rapid.IntRange(0, len(parked)-1).Draw(t, "which")]
			doRelease(call, nil)
		case "advance":
			d := rapid.SampledFrom([]time.Duration{time.Millisecond, 900 * time.Millisecond, 3 * time.Second, 6 * time.Second, 9 * time.Second, 31 * time.Second, 61 * time.Second, 125 * time.Second}).Draw(t, "sleep")
			trace = append(trace, "advance "+d.String())
			time.Sleep(d)
		}
	}
	// drain: start what is left, release what is parked
	for guard := 0; guard < 400; guard++ {
		synctest.Wait()
		w.failOnViolations(t, &trace)
		checkParkedUnique()
		if started < len(clients) {
			cl := clients[started]
			started++
			trace = append(trace, "start "+cl.String())
			env.startClient(cl)
			continue
		}
		parked := w.parked()
		if len(parked) > 0 {
			doRelease(parked[0], nil)
			continue
		}
		if ps := w.parkedDeletes(); len(ps) > 0 {
			trace = append(trace, fmt.Sprintf("unpark the client waiting in the delete callback of %q", ps[0].key))
			w.releaseDelete(ps[0])
			continue
		}
		allDone := true
		for _, cl := range clients {
			if d, _ := cl.isDone(); !d {
				allDone = false
			}
		}
		if allDone {
			break
		}
		time.Sleep(time.Second)
	}
	synctest.Wait()
	w.failOnViolations(t, &trace)

	// ---- final oracle
	ptrOwner := map[*dnsmessage.Msg]*c09Client{}
	idSeen := map[uint16]int{}
	for _, cl := range clients {
		d, cerr := cl.isDone()
		if !d {
			fail("%s never finished", cl)
		}
		if err := c09CheckClientReplies(cl); err != nil {
			fail("%v", err)
		}
		var sharedWith *c09Client
		cl.w.mu.Lock()
		nmsg := len(cl.w.msgs)
		for _, p := range cl.w.ptrs {
			if o := ptrOwner[p]; o != nil && o != cl && o.id != cl.id {
				sharedWith = o
			}
			ptrOwner[p] = cl
		}
		cl.w.mu.Unlock()
		if sharedWith != nil {
			fail("%s and %s were handed the same *Msg object (no per-waiter copy): concurrent ID patching races", sharedWith, cl)
		}
		if cerr == nil && nmsg == 0 {
			fail("%s: handler returned success without writing a reply", cl)
		}
		if nmsg > 1 {
			classes["multi-write"] = true
		}
		if cerr != nil {
			// what the DNS listener does next (dns_listener.go): SERVFAIL built from the
			// request object the controller was given.
			m := new(dnsmessage.Msg)
			m.SetRcode(cl.msg, dnsmessage.RcodeServerFailure)
			if err := c09CheckReply(m, true, cl.id, cl.name, cl.qtype); err != nil {
				fail("%s: the request object was altered, the listener's SERVFAIL would be wrong: %v", cl, err)
			}
			classes["client:failed"] = true
		} else {
			classes["client:answered"] = true
		}
		idSeen[cl.id]++
		if cl.name != cl.lname {
			classes["mixedcase"] = true
		}
	}
	idCollision := false
	for _, n := range idSeen {
		if n > 1 {
			idCollision = true
			classes["idcollision"] = true
		}
	}
	// cache contents: under each key only answers to that key's name/type
	type c09CacheItem struct {
		key   string
		entry *DnsCache
	}
	var cached []c09CacheItem
	env.c.dnsCache.Range(func(k, v any) bool {
		cached = append(cached, c09CacheItem{k.(string), v.(*DnsCache)})
		return true
	})
	sort.Slice(cached, func(i, j int) bool { return cached[i].key < cached[j].key })
	for _, it := range cached {
		key, entry := it.key, it.entry
		base := dnsCacheBaseKey(key)
		dot := strings.LastIndex(base, ".")
		qt, convErr := strconv.Atoi(base[dot+1:])
		if dot < 0 || convErr != nil {
			fail("harness: cannot parse cache key %q", key)
		}
		name := base[:dot+1]
		for _, rr := range entry.Answer {
			if err := c09CheckRR(rr, name, uint16(qt)); err != nil {
				fail("cache entry %q holds a record that does not answer it: %v", key, err)
			}
		}
		if p := entry.GetPackedResponse(); p != nil {
			var pm dnsmessage.Msg
			if err := pm.Unpack(p); err != nil {
				fail("cache entry %q: packed response does not unpack: %v", key, err)
			}
			if err := c09CheckReply(&pm, false, 0, name, uint16(qt)); err != nil {
				fail("cache entry %q: packed response: %v", key, err)
			}
		}
		classes["cached"] = true
	}

	nt := ""
	if idCollision || faulty || coalesced {
		nt = mode + "\n" + strings.Join(trace, "\n")
	}
	cls := make([]string, 0, len(classes))
	for k := range classes {
		cls = append(cls, k)
	}
	sort.Strings(cls)
	vkCase(c09UnitCtl, nt, func() any {
		return map[string]any{"mode": mode, "clients": len(clients), "max_waiters": maxWaiters, "schedule": trace}
	}, cls...)
}

func TestC09_Controller(tt *testing.T) {
	vkNote(c09UnitCtl, "gap: replies are observed at the ResponseWriter only; the raw-UDP reply path (sendPkt, 2-byte ID patch of packed replies) has no seam and is not executed")
	vkNote(c09UnitCtl, "note: on this tree the packed-reply fast path of LookupDnsRespCache_ is dead (finding F3: deadlineNano never set), cache hits go through fillIntoWithTTLInPlace; mutation 'ID not patched in writeCachedResponse' is only observable once F3 is repaired (checked in a scratch tree: caught)")
	vkNote(c09UnitCtl, "sensitivity (scratch worktrees): singleflight key without qtype CAUGHT; waiter shares leader *Msg CAUGHT (aliasing oracle); DoUDP ID check dropped CAUGHT (transport); closeOnce removed CAUGHT and beginUse second retired check removed CAUGHT (real-thread stress only); retire() closing with ops in flight CAUGHT; idle eviction ignoring inFlight CAUGHT (lifecycle)")
	rapid.Check(tt, func(t *rapid.T) {
		c09RunBubble(tt, func() { c09ControllerCase(t) })
	})
}

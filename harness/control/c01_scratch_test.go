package control

import (
	"fmt"
	"testing"

	"github.com/daeuniverse/dae/config"
	"github.com/daeuniverse/dae/pkg/config_parser"
)

func TestC01_Scratch(t *testing.T) {
	for _, body := range []string{
		`dip(1.1.1.1) -> direct`,
		`dip(1.1.1.1)->direct`,
		`dip(1.1.1.1)->direct(mark: 1)`,
		`dip(1.1.1.1) -> direct(mark:0x10,must)`,
		`dip(::/0, 1.2.3.4/8, ::ffff:1.2.3.0/120, fe80::1) -> must_g0`,
`dip('::/0', 1.2.3.4/8, "::ffff:1.2.3.0/120", fe80::1, 2001:db8::/32) -> must_g0`,
		`dip(1.1.1.1) && !dport(80, 1-2)&&sport(0-65535) -> must_rules`,
		`domain(full:a.com, suffix: b.com, keyword:x, regex: '^a.*\.com$', a_b.x-1.com, domain: zz.com, contains: q) -> block`,
		`domain(regex: "^a+\.com$") -> block`,
		`domain(regex:^a+\.com$) -> block`,
		`domain(.com) -> block`,
		`pname(curl, 'a b', NetworkManager, abcdefghijklmnopqrst, a-b.c, 0abc) -> direct`,
		`mac(02:42:ac:11:00:02) -> direct`,
		`mac('02:42:ac:11:00:02', "00:00:00:00:00:00") -> direct`,
		`dscp(0x4, 8, 0) -> direct # comment
		/* block
		comment */ l4proto(tcp,udp) && ipversion(4 , 6) -> direct`,
		`dip(1.1.1.1,
		   2.2.2.2
		) &&
		dport(1) -> direct`,
		`dip(geoip:aa, ext:"my.dat:tag") -> direct`,
		`domain(geosite:aa@x, geosite:category-ads-!cn) -> direct`,
		`dport(80)->must_direct`,
		`dport(80) -> 0abc`,
	} {
		text := "global{}\nrouting{\n" + body + "\nfallback: direct\n}\n"
		secs, err := func() (s []*config_parser.Section, err error) {
			defer func() {
				if r := recover(); r != nil {
					err = fmt.Errorf("PANIC %v", r)
				}
			}()
			return config_parser.Parse(text)
		}()
		if err != nil {
			fmt.Printf("PARSE ERR %q: %.150v\n", body, err)
			continue
		}
		c, err := config.New(secs)
		if err != nil {
			fmt.Printf("NEW ERR %q: %v\n", body, err)
			continue
		}
		for _, r := range c.Routing.Rules {
			fmt.Printf("OK %q => %s | out=%q params=%d\n", body, r.String(false, true, true), r.Outbound.Name, len(r.Outbound.Params))
		}
	}
	for _, fb := range []string{"fallback: direct", "fallback:must_g0", "fallback: g0(mark: 3)", "fallback: g0(must, mark: 3)", "fallback: 'direct'"} {
		text := "global{}\ngroup{ g0 { policy: min } g1{policy: fixed(0)}}\nrouting{\n" + fb + "\n}\n"
		secs, err := config_parser.Parse(text)
		if err != nil {
			fmt.Printf("PARSE ERR %q: %v\n", fb, err)
			continue
		}
		c, err := config.New(secs)
		if err != nil {
			fmt.Printf("NEW ERR %q: %v\n", fb, err)
			continue
		}
		f, _ := config.ParseFunctionOrString(c.Routing.Fallback)
		fmt.Printf("OK %q => %T %s groups=%d\n", fb, c.Routing.Fallback, f.String(true, false, true), len(c.Group))
	}
}

package control

// C17 (c), rule-program size: routing sections (and dns request/response routing) with
// match-set counts around consts.MaxMatchSetLen (1023/1024/1025, domain sets at the
// last index) go text -> Parse -> config.New -> optimisers -> builders.
// At or below the limit the matcher must build and route correctly (first/last rule,
// bitmap word boundaries, fallback); beyond it the outcome must be a clean error or a
// matcher that still routes correctly - never a panic.

import (
	"fmt"
	"io"
	"net/netip"
	"runtime/debug"
	"strings"
	"testing"

	"github.com/daeuniverse/dae/common/consts"
	componentdns "github.com/daeuniverse/dae/component/dns"
	"github.com/daeuniverse/dae/component/routing"
	"github.com/daeuniverse/dae/config"
	"github.com/daeuniverse/dae/pkg/config_parser"
	"github.com/sirupsen/logrus"
	"pgregory.net/rapid"
)

// finding F-C17-2: a domain set whose match-set index is >= MaxMatchSetLen panics in
// AhocorasickSlimtrie.AddSet (index out of range) via BuildUserspace / dns Build.
const c17FLimit = "F-C17-2"

func c17Log() *logrus.Logger {
	l := logrus.New()
	l.SetOutput(io.Discard)
	return l
}

func c17Stack(st string) string {
	lines := strings.Split(st, "\n")
	var sb strings.Builder
	seen := false
	n := 0
	for i := 0; i+1 < len(lines) && n < 8; i++ {
		fn, loc := lines[i], lines[i+1]
		if !strings.HasPrefix(loc, "\t") || strings.HasPrefix(fn, "\t") {
			continue
		}
		if strings.HasPrefix(fn, "panic(") {
			seen = true
			continue
		}
		if !seen || strings.HasPrefix(fn, "runtime.") || !strings.Contains(fn, "daeuniverse/dae/") {
			continue
		}
		if k := strings.LastIndex(fn, "("); k > 0 {
			fn = fn[:k]
		}
		loc = strings.TrimSpace(loc)
		if k := strings.Index(loc, " +0x"); k > 0 {
			loc = loc[:k]
		}
		fmt.Fprintf(&sb, "  %s %s\n", fn, loc)
		n++
	}
	return sb.String()
}

// one written rule = one condition; Sets = number of match-sets it lowers to.
type c17LRule struct {
	Text     string
	Sets     int
	Domain   string // probe that hits the rule ("" = none)
	Port     uint16 // probe port that hits the rule (0 = none)
	QType    uint16
	Out      string
	DomainAt []int // offsets (within the rule) of its domain sets
}

type c17Program struct {
	Kind  string // "routing", "dns_request", "dns_response"
	Rules []c17LRule
	Total int // match-sets incl. fallback
	Text  string
}

func c17Wrap(kind string, rules []c17LRule) string {
	var sb strings.Builder
	for _, r := range rules {
		sb.WriteString("    " + r.Text + "\n")
	}
	switch kind {
	case "routing":
		return "global {}\ngroup { g0 { policy: min } }\nrouting {\n" + sb.String() + "    fallback: g0\n}\n"
	case "dns_request":
		return "global {}\nrouting {}\ndns {\n  upstream {\n    u0: 'udp://192.0.2.1:53'\n    u1: 'udp://192.0.2.2:53'\n  }\n  routing {\n   request {\n" + sb.String() + "    fallback: asis\n   }\n  }\n}\n"
	default:
		return "global {}\nrouting {}\ndns {\n  upstream {\n    u0: 'udp://192.0.2.1:53'\n    u1: 'udp://192.0.2.2:53'\n  }\n  routing {\n   response {\n" + sb.String() + "    fallback: accept\n   }\n  }\n}\n"
	}
}

// c17GenProgram writes rules until exactly `total-1` match-sets are used, then the fallback.
// Neighbouring rules use different outbounds so that MergeAndSortRulesOptimizer keeps them apart.
func c17GenProgram(t *rapid.T, kind string, total int, tailDomain bool) *c17Program {
	p := &c17Program{Kind: kind, Total: total}
	outs := []string{"direct", "block", "g0"}
	if kind == "dns_request" {
		outs = []string{"u0", "u1", "reject"}
	} else if kind == "dns_response" {
		outs = []string{"accept", "u0", "reject"}
	}
	fname := map[string]string{"routing": "domain", "dns_request": "qname", "dns_response": "qname"}[kind]
	used := 0
	want := total - 1
	i := 0
	for used < want {
		left := want - used
		out := outs[i%len(outs)]
		var r c17LRule
		k := rapid.IntRange(0, 9).Draw(t, "rulekind")
		lastOne := left <= 2
		if lastOne {
			// the tail decides what sits on the last index before the fallback
			if tailDomain {
				k = 0
			} else {
				k = 5
			}
			if left == 2 {
				if tailDomain {
					k = 3
				} else {
					k = 7
				}
			}
		}
		switch {
		case k <= 2 || (k == 3 && left < 2) || (k == 4 && left < 3): // one domain set
			d := fmt.Sprintf("h%d.example", i)
			r = c17LRule{Text: fmt.Sprintf("%s(full: %s) -> %s", fname, d, out), Sets: 1, Domain: d, Out: out, DomainAt: []int{0}}
		case k == 3: // two key groups = two domain sets
			d := fmt.Sprintf("h%d.example", i)
			r = c17LRule{Text: fmt.Sprintf("%s(full: x%d.example, suffix: %s) -> %s", fname, i, d, out), Sets: 2, Domain: "www." + d, Out: out, DomainAt: []int{0, 1}}
		case k == 4: // three key groups
			d := fmt.Sprintf("h%d.example", i)
			r = c17LRule{Text: fmt.Sprintf("%s(full: x%d.example, keyword: kw%dkw, suffix: %s) -> %s", fname, i, i, d, out), Sets: 3, Domain: d, Out: out, DomainAt: []int{0, 1, 2}}
		case k <= 6 || left < 2: // one port / qtype set
			if kind == "routing" {
				port := uint16(1 + i%60000)
				r = c17LRule{Text: fmt.Sprintf("dport(%d) -> %s", port, out), Sets: 1, Port: port, Out: out}
			} else {
				qt := uint16(256 + i%60000)
				r = c17LRule{Text: fmt.Sprintf("qtype(%d) -> %s", qt, out), Sets: 1, QType: qt, Out: out}
			}
		default: // two port / qtype sets
			if kind == "routing" {
				port := uint16(1 + i%60000)
				r = c17LRule{Text: fmt.Sprintf("dport(%d, %d) -> %s", 61000+i%4000, port, out), Sets: 2, Port: port, Out: out}
			} else {
				qt := uint16(256 + i%60000)
				r = c17LRule{Text: fmt.Sprintf("qtype(%d, %d) -> %s", 61000+i%4000, qt, out), Sets: 2, QType: qt, Out: out}
			}
		}
		p.Rules = append(p.Rules, r)
		used += r.Sets
		i++
	}
	p.Text = c17Wrap(kind, p.Rules)
	return p
}

// c17LastDomainIndex is the highest match-set index that holds a domain set (-1: none).
func (p *c17Program) c17LastDomainIndex() int {
	idx, last := 0, -1
	for _, r := range p.Rules {
		for _, off := range r.DomainAt {
			if idx+off > last {
				last = idx + off
			}
		}
		idx += r.Sets
	}
	return last
}

type c17Built struct {
	Err     error
	Stage   string
	Panic   any
	Stack   string
	NSets   int
	Routing *RoutingMatcher
	Req     *componentdns.RequestMatcher
	Resp    *componentdns.ResponseMatcher
}

func c17BuildProgram(p *c17Program) (b c17Built) {
	defer func() {
		if r := recover(); r != nil {
			b.Panic = r
			b.Stack = c17Stack(string(debug.Stack()))
		}
	}()
	log := c17Log()
	b.Stage = "parse"
	secs, err := config_parser.Parse(p.Text)
	if err != nil {
		b.Err = err
		return
	}
	b.Stage = "config.New"
	conf, err := config.New(secs)
	if err != nil {
		b.Err = err
		return
	}
	switch p.Kind {
	case "routing":
		b.Stage = "NewNormalizedProgram"
		prog, err := routing.NewNormalizedProgram(conf.Routing.Rules, conf.Routing.Fallback,
			&routing.AliasOptimizer{}, &routing.MergeAndSortRulesOptimizer{}, &routing.DeduplicateParamsOptimizer{})
		if err != nil {
			b.Err = err
			return
		}
		b.Stage = "NewRoutingMatcherBuilderFromProgram"
		builder, err := NewRoutingMatcherBuilderFromProgram(log, prog, map[string]uint8{"direct": 0, "block": 1, "g0": 2}, nil)
		if err != nil {
			b.Err = err
			return
		}
		b.NSets = len(builder.rules)
		b.Stage = "BuildUserspace"
		b.Routing, b.Err = builder.BuildUserspace()
	case "dns_request":
		b.Stage = "NewNormalizedRequestRoutingProgram"
		prog, err := componentdns.NewNormalizedRequestRoutingProgram(conf.Dns.Routing.Request.Rules, conf.Dns.Routing.Request.Fallback,
			&routing.MergeAndSortRulesOptimizer{}, &routing.DeduplicateParamsOptimizer{})
		if err != nil {
			b.Err = err
			return
		}
		b.Stage = "NewRequestMatcherBuilderFromProgram"
		builder, err := componentdns.NewRequestMatcherBuilderFromProgram(log, prog, map[string]uint8{"u0": 0, "u1": 1})
		if err != nil {
			b.Err = err
			return
		}
		b.NSets = -1
		b.Stage = "RequestMatcherBuilder.Build"
		b.Req, b.Err = builder.Build()
	default:
		b.Stage = "NewNormalizedProgram"
		prog, err := routing.NewNormalizedProgram(conf.Dns.Routing.Response.Rules, conf.Dns.Routing.Response.Fallback,
			&routing.MergeAndSortRulesOptimizer{}, &routing.DeduplicateParamsOptimizer{})
		if err != nil {
			b.Err = err
			return
		}
		b.Stage = "NewResponseMatcherBuilderFromProgram"
		builder, err := componentdns.NewResponseMatcherBuilderFromProgram(log, prog, map[string]uint8{"u0": 0, "u1": 1})
		if err != nil {
			b.Err = err
			return
		}
		b.NSets = -1
		b.Stage = "ResponseMatcherBuilder.Build"
		b.Resp, b.Err = builder.Build()
	}
	return
}

// c17Probe asks the built matcher for rule r (or the fallback when r == nil).
func c17Probe(p *c17Program, b *c17Built, r *c17LRule) (got string, err error) {
	defer func() {
		if rec := recover(); rec != nil {
			err = fmt.Errorf("panic while matching: %v\n%s", rec, c17Stack(string(debug.Stack())))
		}
	}()
	domain, port, qtype := "nomatch.invalid", uint16(60999), uint16(255)
	if r != nil {
		if r.Domain != "" {
			domain = r.Domain
		}
		if r.Port != 0 {
			port = r.Port
		}
		if r.QType != 0 {
			qtype = r.QType
		}
	}
	switch p.Kind {
	case "routing":
		src := netip.MustParseAddr("10.0.0.1").As16()
		dst := netip.MustParseAddr("93.184.216.34").As16()
		out, _, _, err := b.Routing.Match(src, dst, 40000, port, consts.IpVersion_4, consts.L4ProtoType_TCP, domain, [16]uint8{}, 0, [16]uint8{})
		if err != nil {
			return "", err
		}
		switch uint8(out) {
		case 0:
			return "direct", nil
		case 1:
			return "block", nil
		case 2:
			return "g0", nil
		}
		return fmt.Sprintf("<%d>", out), nil
	case "dns_request":
		out, err := b.Req.Match(domain, qtype)
		if err != nil {
			return "", err
		}
		switch out {
		case 0:
			return "u0", nil
		case 1:
			return "u1", nil
		case consts.DnsRequestOutboundIndex_Reject:
			return "reject", nil
		case consts.DnsRequestOutboundIndex_AsIs:
			return "asis", nil
		}
		return fmt.Sprintf("<%d>", out), nil
	default:
		out, err := b.Resp.Match(domain, qtype, []netip.Addr{netip.MustParseAddr("93.184.216.34")}, consts.DnsRequestOutboundIndex(0))
		if err != nil {
			return "", err
		}
		switch out {
		case 0:
			return "u0", nil
		case 1:
			return "u1", nil
		case consts.DnsResponseOutboundIndex_Reject:
			return "reject", nil
		case consts.DnsResponseOutboundIndex_Accept:
			return "accept", nil
		}
		return fmt.Sprintf("<%d>", out), nil
	}
}

func c17FallbackName(kind string) string {
	return map[string]string{"routing": "g0", "dns_request": "asis", "dns_response": "accept"}[kind]
}

func c17CheckRouting(fatalf func(string, ...any), p *c17Program, b *c17Built, probes []int) {
	for _, ri := range probes {
		r := &p.Rules[ri]
		got, err := c17Probe(p, b, r)
		if err != nil {
			fatalf("%s with %d match-sets: probing rule %d %q: %v", p.Kind, p.Total, ri, r.Text, err)
		}
		if got != r.Out {
			fatalf("%s with %d match-sets: rule %d %q answered %q", p.Kind, p.Total, ri, r.Text, got)
		}
	}
	got, err := c17Probe(p, b, nil)
	if err != nil || got != c17FallbackName(p.Kind) {
		fatalf("%s with %d match-sets: fallback probe answered %q (%v), want %q", p.Kind, p.Total, got, err, c17FallbackName(p.Kind))
	}
}

func TestC17_MatchSetLimit(t *testing.T) {
	max := consts.MaxMatchSetLen
	rapid.Check(t, func(t *rapid.T) {
		kind := rapid.SampledFrom([]string{"routing", "routing", "dns_request", "dns_response"}).Draw(t, "kind")
		total := rapid.SampledFrom([]int{max - 1, max, max, max + 1, max + 1, max + 2, max + 33, 2*max + 1, 64, 33}).Draw(t, "total")
		tailDomain := rapid.Bool().Draw(t, "tail_domain")
		if total > max && tailDomain && vkKnown(c17FLimit) {
			// known finding: keep domain sets off the indices beyond the limit.
			vkExcluded("C17.limit", c17FLimit)
			tailDomain = false
		}
		p := c17GenProgram(t, kind, total, tailDomain)
		if vkKnown(c17FLimit) && p.c17LastDomainIndex() >= max {
			// a random domain rule landed beyond the limit: rebuild with port/qtype rules only past it
			vkExcluded("C17.limit", c17FLimit)
			idx := 0
			for i := range p.Rules {
				beyond := false
				for _, off := range p.Rules[i].DomainAt {
					beyond = beyond || idx+off >= max
				}
				if beyond {
					r := &p.Rules[i]
					n := r.Sets
					if kind == "routing" {
						ports := []string{}
						for k := 0; k < n; k++ {
							ports = append(ports, fmt.Sprint(50000+((i*3+k)%9000)))
						}
						r.Port = uint16(50000 + ((i*3 + n - 1) % 9000))
						r.Text = fmt.Sprintf("dport(%s) -> %s", strings.Join(ports, ", "), r.Out)
					} else {
						qs := []string{}
						for k := 0; k < n; k++ {
							qs = append(qs, fmt.Sprint(30000+((i*3+k)%9000)))
						}
						r.QType = uint16(30000 + ((i*3 + n - 1) % 9000))
						r.Text = fmt.Sprintf("qtype(%s) -> %s", strings.Join(qs, ", "), r.Out)
					}
					r.Domain, r.DomainAt = "", nil
				}
				idx += p.Rules[i].Sets
			}
			p.Text = c17Wrap(kind, p.Rules)
		}
		b := c17BuildProgram(p)
		lastDom := p.c17LastDomainIndex()
		if b.Panic != nil {
			t.Fatalf("%s with %d match-sets (limit %d, last domain set at index %d): %s panicked: %v\n%s", kind, total, max, lastDom, b.Stage, b.Panic, b.Stack)
		}
		if kind == "routing" && b.NSets != 0 && b.NSets != total && b.Err == nil {
			t.Fatalf("harness: expected %d match-sets, the builder made %d", total, b.NSets)
		}
		cl := []string{kind, fmt.Sprintf("total_%s", c17TotalClass(total, max))}
		if lastDom == total-2 {
			cl = append(cl, "domain_set_at_last_index")
		}
		if total <= max {
			if b.Err != nil {
				t.Fatalf("%s with %d match-sets (limit %d) rejected at %s: %v", kind, total, max, b.Stage, b.Err)
			}
		} else if b.Err != nil {
			if b.Err.Error() == "" {
				t.Fatalf("empty error message")
			}
			cl = append(cl, "over_limit_rejected")
			vkCase("C17.limit", fmt.Sprintf("%s/%d/%v/err", kind, total, tailDomain), func() any {
				return map[string]any{"kind": kind, "match_sets": total, "error": b.Err.Error(), "stage": b.Stage}
			}, cl...)
			return
		} else {
			cl = append(cl, "over_limit_built")
		}
		// probe: first, last, the rules around bitmap word boundaries, a few random ones
		probes := []int{0, len(p.Rules) - 1}
		if len(p.Rules) > 3 {
			probes = append(probes, len(p.Rules)-2, 1)
		}
		idx := 0
		for i, r := range p.Rules {
			for _, edge := range []int{31, 32, 63, 64, 1022, 1023, 1024} {
				if idx <= edge && edge < idx+r.Sets {
					probes = append(probes, i)
				}
			}
			idx += r.Sets
		}
		for k := 0; k < 6; k++ {
			probes = append(probes, rapid.IntRange(0, len(p.Rules)-1).Draw(t, "probe"))
		}
		c17CheckRouting(t.Fatalf, p, &b, probes)
		vkCase("C17.limit", fmt.Sprintf("%s/%d/%v/%d", kind, total, tailDomain, len(p.Rules)), func() any {
			return map[string]any{"kind": kind, "match_sets": total, "rules": len(p.Rules), "last_domain_index": lastDom, "tail": p.Rules[len(p.Rules)-1].Text}
		}, cl...)
	})
}

func c17TotalClass(total, max int) string {
	switch {
	case total < max-1:
		return "small"
	case total == max-1:
		return "limit-1"
	case total == max:
		return "limit"
	case total == max+1:
		return "limit+1"
	default:
		return "beyond"
	}
}

// deterministic programs for finding F-C17-2.
func c17FixedProgram(kind string, total int, tailDomain bool) *c17Program {
	p := &c17Program{Kind: kind, Total: total}
	fname := "domain"
	outs := []string{"direct", "block"}
	if kind != "routing" {
		fname = "qname"
		outs = []string{"u0", "u1"}
	}
	for i := 0; i < total-1; i++ {
		out := outs[i%2]
		var r c17LRule
		if i == total-2 && !tailDomain {
			if kind == "routing" {
				r = c17LRule{Text: fmt.Sprintf("dport(%d) -> %s", 4000, out), Sets: 1, Port: 4000, Out: out}
			} else {
				r = c17LRule{Text: fmt.Sprintf("qtype(%d) -> %s", 4000, out), Sets: 1, QType: 4000, Out: out}
			}
		} else {
			d := fmt.Sprintf("h%d.example", i)
			r = c17LRule{Text: fmt.Sprintf("%s(full: %s) -> %s", fname, d, out), Sets: 1, Domain: d, Out: out, DomainAt: []int{0}}
		}
		p.Rules = append(p.Rules, r)
	}
	p.Text = c17Wrap(kind, p.Rules)
	return p
}

func TestC17_Finding_FC172(t *testing.T) {
	max := consts.MaxMatchSetLen
	kinds := []string{"routing", "dns_request", "dns_response"}
	if vkKnown(c17FLimit) {
		n := 0
		for _, kind := range kinds {
			b := c17BuildProgram(c17FixedProgram(kind, max+2, true))
			if b.Panic != nil && strings.Contains(fmt.Sprint(b.Panic), "index out of range") {
				n++
				t.Logf("%s: %s panicked: %v", kind, b.Stage, b.Panic)
			}
		}
		if n > 0 {
			vkKnownReproduced(c17FLimit)
		} else {
			t.Logf("%s is listed as known but no longer reproduces", c17FLimit)
		}
		return
	}
	for _, kind := range kinds {
		// at the limit: must work, the domain set on the last index included
		p := c17FixedProgram(kind, max, true)
		b := c17BuildProgram(p)
		if b.Panic != nil || b.Err != nil {
			t.Fatalf("%s: %d match-sets (the limit) must build: stage %s panic=%v err=%v\n%s", kind, max, b.Stage, b.Panic, b.Err, b.Stack)
		}
		c17CheckRouting(t.Fatalf, p, &b, []int{0, 31, 32, len(p.Rules) - 1})
		// beyond: clean error, or a matcher that routes correctly
		for _, total := range []int{max + 1, max + 2, max + 40} {
			p := c17FixedProgram(kind, total, true)
			b := c17BuildProgram(p)
			if b.Panic != nil {
				t.Fatalf("%s: %d match-sets (limit %d), domain set beyond the limit: %s panicked: %v\n%s", kind, total, max, b.Stage, b.Panic, b.Stack)
			}
			if b.Err != nil {
				if b.Err.Error() == "" {
					t.Fatalf("empty error")
				}
				continue
			}
			c17CheckRouting(t.Fatalf, p, &b, []int{0, len(p.Rules) - 1, len(p.Rules) - 2})
		}
	}
	vkCase("C17.limit_findings", c17FLimit, func() any { return "domain set beyond MaxMatchSetLen" })
}

package control

// C19 (b) — map keys and shared encodings: the bytes the control plane's key
// constructors produce (serialised the way cilium/ebpf writes them) must be
// byte-identical to what the real tproxy.c builds for the same logical entity,
// observed in kernsim (real parse_packet/get_tuples/copy_reversed_tuples, real
// route() scratch keys and map-op log, real wan_outbound_is_alive()).
// Build mode "real": the production bpf_utils.go encoders are compiled.

import (
	"bytes"
	"encoding/binary"
	"encoding/hex"
	"fmt"
	"io"
	"net"
	"net/netip"
	"testing"

	"github.com/daeuniverse/dae/common"
	"github.com/daeuniverse/dae/common/consts"
	"github.com/daeuniverse/dae/component/outbound/dialer"
	"github.com/daeuniverse/dae/component/routing/domain_matcher"
	dnsmessage "github.com/miekg/dns"
	"github.com/sirupsen/logrus"
	"pgregory.net/rapid"
)

const c19Unit = "C19.keys"

var c19PortPool = []uint16{0, 1, 53, 80, 255, 256, 443, 0x00ff, 0xff00, 0x1234, 0x3412, 65534, 65535}

func c19GenPort(t *rapid.T, label string) uint16 {
	if rapid.IntRange(0, 2).Draw(t, label+"_pool") == 0 {
		return rapid.SampledFrom(c19PortPool).Draw(t, label)
	}
	return rapid.Uint16().Draw(t, label)
}

func c19GenAddr(t *rapid.T, label string, v6 bool) netip.Addr {
	if !v6 {
		switch rapid.IntRange(0, 5).Draw(t, label+"_k") {
		case 0:
			return netip.AddrFrom4([4]byte{0, 0, 0, 0})
		case 1:
			return netip.AddrFrom4([4]byte{255, 255, 255, 255})
		case 2:
			return netip.AddrFrom4([4]byte{10, 0, 0, byte(rapid.IntRange(0, 255).Draw(t, label+"_b"))})
		}
		var a [4]byte
		copy(a[:], rapid.SliceOfN(rapid.Byte(), 4, 4).Draw(t, label))
		return netip.AddrFrom4(a)
	}
	switch rapid.IntRange(0, 6).Draw(t, label+"_k") {
	case 0:
		return netip.IPv6Unspecified()
	case 1:
		return netip.IPv6Loopback()
	case 2: // a v4-mapped address travelling in a real IPv6 header
		var a [16]byte
		a[10], a[11] = 0xff, 0xff
		copy(a[12:], rapid.SliceOfN(rapid.Byte(), 4, 4).Draw(t, label))
		return netip.AddrFrom16(a)
	case 3:
		var a [16]byte
		for i := range a {
			a[i] = 0xff
		}
		return netip.AddrFrom16(a)
	}
	var a [16]byte
	copy(a[:], rapid.SliceOfN(rapid.Byte(), 16, 16).Draw(t, label))
	return netip.AddrFrom16(a)
}

func c19MapInfo(t ksTB, k *ksSim, name string) ksMapInfo {
	for _, m := range k.Info().Maps {
		if m.Name == name {
			return m
		}
	}
	t.Fatalf("C map %q does not exist any more (the control plane still uses it)", name)
	return ksMapInfo{}
}

func c19MatchSet(t ksTB, typ consts.MatchType, value [16]byte, not bool, outbound uint8, must bool, mark uint32) []byte {
	ms := bpfMatchSet{Value: value, Type: uint8(typ), Outbound: outbound, Mark: mark}
	if not {
		ms.Not = 1
	}
	if must {
		ms.Must = 1
	}
	return ksMarshal(&ms)
}

// c19InstallRules writes match sets the way buildRoutingKernspace does: keys 0..n-1,
// value bytes as cilium/ebpf would marshal bpfMatchSet, routing_meta_map[0] = n.
func c19InstallRules(t ksTB, k *ksSim, sets [][]byte) {
	for i, ms := range sets {
		if r := k.MapUpdate("routing_map", ksMarshal(uint32(i)), ms, 0); r != 0 {
			t.Fatalf("routing_map[%d] update: %d (value %d bytes; C value size %d)", i, r, len(ms), c19MapInfo(t, k, "routing_map").ValueSize)
		}
	}
	if r := k.MapUpdate("routing_meta_map", ksMarshal(uint32(0)), ksMarshal(uint32(len(sets))), 0); r != 0 {
		t.Fatalf("routing_meta_map update: %d", r)
	}
}

func c19L4Hdr(sport, dport uint16) []byte {
	h := make([]byte, 20)
	binary.BigEndian.PutUint16(h[0:], sport)
	binary.BigEndian.PutUint16(h[2:], dport)
	return h
}

// ---------------------------------------------------------------- tuples

func c19CheckTuples(t *rapid.T, k *ksSim) (string, func() any, []string) {
	v6 := rapid.Bool().Draw(t, "v6")
	src := c19GenAddr(t, "src", v6)
	dst := c19GenAddr(t, "dst", v6)
	sport, dport := c19GenPort(t, "sport"), c19GenPort(t, "dport")
	proto := rapid.SampledFrom([]uint8{6, 17}).Draw(t, "proto")
	l2 := rapid.Bool().Draw(t, "l2")
	// fast path needs >= 128 bytes on the wire; shorter frames go through load_bytes
	payload := make([]byte, rapid.SampledFrom([]int{0, 0, 1, 60, 100, 200}).Draw(t, "payload"))
	pullFails := rapid.Bool().Draw(t, "pull_fails")
	var ext []uint8
	if v6 {
		ext = rapid.SliceOfN(rapid.SampledFrom([]uint8{0, 43, 60}), 0, 2).Draw(t, "ext")
	}
	p := ksPkt{L2: l2, SrcMac: [6]byte{2, 1, 2, 3, 4, 5}, DstMac: [6]byte{2, 9, 8, 7, 6, 5}, SrcIP: src.As16(), DstIP: dst.As16(),
		V6: v6, Proto: proto, Sport: sport, Dport: dport, TCPFlags: ksTCPSyn, Dscp: uint8(rapid.IntRange(0, 63).Draw(t, "dscp")),
		ExtHdrs: ext, Payload: payload}
	frame := p.Bytes()
	linkH := uint32(0)
	if l2 {
		linkH = 14
	}
	linear := uint32(len(frame))
	if rapid.Bool().Draw(t, "short_linear") {
		linear = uint32(rapid.IntRange(0, len(frame)).Draw(t, "linear"))
	}
	fk := k.KeysFromFrame(linkH, p.Protocol(), frame, linear, pullFails)
	if fk.ParseRet != 0 {
		t.Fatalf("kernel parse_packet rejected a well-formed frame: ret=%d frame=%x", fk.ParseRet, frame)
	}

	// The control plane sees the flow as netip.AddrPorts; IPv4 peers arrive either as
	// 4-byte or as v4-mapped 16-byte addresses (dual-stack listener).
	goSrc, goDst := src, dst
	mapped := false
	if !v6 {
		if rapid.Bool().Draw(t, "src_as_4in6") {
			goSrc = netip.AddrFrom16(src.As16())
			mapped = true
		}
		if rapid.Bool().Draw(t, "dst_as_4in6") {
			goDst = netip.AddrFrom16(dst.As16())
			mapped = true
		}
	} else if src.Is4In6() || dst.Is4In6() {
		mapped = true
	}
	key := bpfTuplesKeyFromAddrPorts(netip.AddrPortFrom(goSrc, sport), netip.AddrPortFrom(goDst, dport), proto)
	goBytes := ksMarshal(&key)
	rkey := bpfTuplesKeyFromAddrPorts(netip.AddrPortFrom(goDst, dport), netip.AddrPortFrom(goSrc, sport), proto)
	goRev := ksMarshal(&rkey)
	if !bytes.Equal(goBytes, fk.TuplesKey) {
		t.Fatalf("tuples key differs\n go  bpfTuplesKeyFromAddrPorts(%v:%d -> %v:%d, %d) = %x\n C   get_tuples(frame)                       = %x", goSrc, sport, goDst, dport, proto, goBytes, fk.TuplesKey)
	}
	if !bytes.Equal(goRev, fk.ReversedKey) {
		t.Fatalf("reversed tuples key differs\n go  = %x\n C copy_reversed_tuples = %x", goRev, fk.ReversedKey)
	}
	for _, mn := range []string{"conn_state_map", "routing_handoff_map"} {
		if mi := c19MapInfo(t, k, mn); int(mi.KeySize) != len(goBytes) {
			t.Fatalf("%s key size: C %d, Go bpfTuplesKey marshals to %d bytes", mn, mi.KeySize, len(goBytes))
		}
	}
	// redirect_track key: Go type bpfRedirectTuple {Sip, Dip}
	var rt bpfRedirectTuple
	rt.Sip.U6Addr8 = key.Sip.U6Addr8
	rt.Dip.U6Addr8 = key.Dip.U6Addr8
	if g := ksMarshal(&rt); !bytes.Equal(g, fk.RedirectTuple) {
		t.Fatalf("redirect tuple differs\n go = %x\n C  = %x", g, fk.RedirectTuple)
	}
	cl := []string{"tuples"}
	nt := ""
	if mapped {
		cl = append(cl, "tuples_v4mapped_convergence")
		nt = "m"
	}
	if sport>>8 != sport&0xff || dport>>8 != dport&0xff {
		cl = append(cl, "tuples_port_byteorder_visible")
		nt += "p"
	}
	if v6 {
		cl = append(cl, "tuples_v6")
	}
	if len(frame) >= 128 && !pullFails {
		cl = append(cl, "tuples_fastpath")
	} else {
		cl = append(cl, "tuples_slowpath")
	}
	if nt != "" {
		nt = "tuples|" + hex.EncodeToString(goBytes)
	}
	return nt, func() any {
		return map[string]any{"kind": "tuples", "src": fmt.Sprint(goSrc, ":", sport), "dst": fmt.Sprint(goDst, ":", dport), "proto": proto, "key": hex.EncodeToString(goBytes)}
	}, cl
}

// ---------------------------------------------------- connectivity slot keys

func c19CheckConnectivity(t *rapid.T, k *ksSim) (string, func() any, []string) {
	outbound := uint8(rapid.OneOf(rapid.SampledFrom([]int{0, 1, 2, 127, 128, 129, 251, 252, 253, 254, 255}), rapid.IntRange(0, 255), rapid.IntRange(128, 255)).Draw(t, "outbound"))
	udp := rapid.Bool().Draw(t, "udp")
	v6 := rapid.Bool().Draw(t, "v6")
	nt := dialer.NetworkType{L4Proto: consts.L4ProtoStr_TCP, IpVersion: consts.IpVersionStr_4}
	if udp {
		nt.L4Proto = consts.L4ProtoStr_UDP
		nt.UdpHealthDomain = rapid.SampledFrom([]dialer.UdpHealthDomain{dialer.UdpHealthDomainUnset, dialer.UdpHealthDomainData, dialer.UdpHealthDomainDns}).Draw(t, "domain")
		nt.IsDns = rapid.Bool().Draw(t, "isdns")
	}
	if v6 {
		nt.IpVersion = consts.IpVersionStr_6
	}
	goKey := outboundConnectivityMapKey(outbound, &nt)
	mi := c19MapInfo(t, k, "outbound_connectivity_map")
	if goKey >= mi.MaxEntries {
		t.Fatalf("outboundConnectivityMapKey(%d,%v)=%d is outside the C array (max_entries %d)", outbound, nt, goKey, mi.MaxEntries)
	}
	goBytes := ksMarshal(goKey)
	if int(mi.KeySize) != len(goBytes) {
		t.Fatalf("outbound_connectivity_map key size %d vs Go %d", mi.KeySize, len(goBytes))
	}
	cl := []string{"conn"}
	if outbound >= 128 {
		cl = append(cl, "conn_id_ge128")
	}
	dnsDomain := udp && nt.EffectiveUdpHealthDomain() == dialer.UdpHealthDomainDns
	if dnsDomain {
		// The kernel treats DNS (dport 53) as always alive and never reads the DNS-UDP
		// slot; what remains checkable is the documented slot formula of tproxy.c:
		// outbound*6 + domain*2 + ipversion, domain 1 = DNS UDP.
		ip := uint32(0)
		if v6 {
			ip = 1
		}
		if want := uint32(outbound)*6 + 1*2 + ip; goKey != want {
			t.Fatalf("DNS-UDP slot: Go key %d, documented layout gives %d", goKey, want)
		}
		alive, ops := k.Alive(outbound, 17, ksHtons(53), map[bool]uint32{false: ksProtoIP4, true: ksProtoIP6}[v6])
		if !alive || len(ksOpsOn(ops, "outbound_connectivity_map")) != 0 {
			t.Fatalf("kernel consulted the connectivity map for a DNS datagram: alive=%v ops=%v", alive, ops)
		}
		cl = append(cl, "conn_dns_slot")
		return "", func() any { return nil }, cl
	}
	// the slot the Go side would clear is dead, its neighbours (other ip version, other
	// domains, adjacent outbounds) are alive
	k.Reset()
	for _, d := range []int64{-12, -7, -6, -5, -4, -3, -2, -1, 1, 2, 3, 4, 5, 6, 7, 12} {
		i := int64(goKey) + d
		if i < 0 || i >= int64(mi.MaxEntries) {
			continue
		}
		if r := k.MapUpdate("outbound_connectivity_map", ksMarshal(uint32(i)), ksMarshal(uint32(1)), 0); r != 0 {
			t.Fatalf("outbound_connectivity_map[%d] update: %d", i, r)
		}
	}
	l4 := uint8(6)
	if udp {
		l4 = 17
	}
	dport := c19GenPort(t, "dport")
	if dport == 53 {
		dport = 54
	}
	proto := ksProtoIP4
	if v6 {
		proto = ksProtoIP6
	}
	alive, ops := k.Alive(outbound, l4, ksHtons(dport), proto)
	looked := ksOpsOn(ops, "outbound_connectivity_map")
	if len(looked) != 1 || looked[0].Op != 'L' {
		t.Fatalf("expected exactly one lookup in outbound_connectivity_map, got %v", ops)
	}
	if !bytes.Equal(looked[0].Key, goBytes) {
		t.Fatalf("connectivity key differs for outbound=%d %s%s: Go writes slot %x, kernel reads slot %x", outbound, nt.L4Proto, nt.IpVersion, goBytes, looked[0].Key)
	}
	if alive {
		t.Fatalf("kernel still considers outbound %d alive after the Go-side slot %d was cleared", outbound, goKey)
	}
	if r := k.MapUpdate("outbound_connectivity_map", goBytes, ksMarshal(uint32(1)), 0); r != 0 {
		t.Fatalf("outbound_connectivity_map[%d] update: %d", goKey, r)
	}
	if alive, _ = k.Alive(outbound, l4, ksHtons(dport), proto); !alive {
		t.Fatalf("kernel considers outbound %d dead although the Go-side slot %d says alive", outbound, goKey)
	}
	ntKey := ""
	if outbound >= 128 || udp {
		ntKey = fmt.Sprintf("conn|%d|%v|%v", outbound, udp, v6)
	}
	return ntKey, func() any {
		return map[string]any{"kind": "connectivity", "outbound": outbound, "network": nt.StringWithoutDns(), "key": goKey}
	}, cl
}

// ------------------------------------------------------------- LPM prefix keys

func c19PrefixMatchBits(p netip.Prefix, a netip.Addr) bool {
	// LPM definition on the 128-bit strings, independent of the Go encoder.
	bits := p.Bits()
	if p.Addr().Is4() {
		bits += 96
	}
	pa, aa := p.Addr().As16(), a.As16()
	for i := 0; i < bits; i++ {
		if (pa[i/8]^aa[i/8])>>(7-uint(i%8))&1 != 0 {
			return false
		}
	}
	return true
}

func c19CheckLpm(t *rapid.T, k *ksSim) (string, func() any, []string) {
	v6 := rapid.Bool().Draw(t, "v6")
	base := c19GenAddr(t, "base", v6)
	max := 32
	if v6 {
		max = 128
	}
	bits := rapid.OneOf(rapid.SampledFrom([]int{0, 1, 7, 8, 9, max - 1, max}), rapid.IntRange(0, max)).Draw(t, "bits")
	prefix := netip.PrefixFrom(base, bits)
	if rapid.Bool().Draw(t, "masked") {
		prefix = prefix.Masked()
	}
	key := cidrToBpfLpmKey(prefix)
	goBytes := ksMarshal(&key)
	mi := c19MapInfo(t, k, "unused_lpm_type")
	if int(mi.KeySize) != len(goBytes) {
		t.Fatalf("LPM key size: C %d, Go _bpfLpmKey marshals to %d", mi.KeySize, len(goBytes))
	}
	which := rapid.SampledFrom([]consts.MatchType{consts.MatchType_IpSet, consts.MatchType_SourceIpSet}).Draw(t, "which")
	slot := uint32(rapid.OneOf(rapid.SampledFrom([]int{0, 1, 255, 256, 1023}), rapid.IntRange(0, consts.MaxMatchSetLen-1)).Draw(t, "slot"))
	k.Reset()
	if r := k.LpmSlotInstall(slot, [][]byte{goBytes}, []uint32{1}); r != 0 {
		t.Fatalf("kernel LPM trie rejected the Go key %x: %d", goBytes, r)
	}
	var val [16]byte
	binary.LittleEndian.PutUint32(val[:4], slot) // as routing_matcher_builder writes the set index
	hit, miss := uint8(7), uint8(9)
	c19InstallRules(t, k, [][]byte{
		c19MatchSet(t, which, val, false, hit, false, 0),
		c19MatchSet(t, consts.MatchType_Fallback, [16]byte{}, false, miss, false, 0),
	})
	// probes: inside, neighbours, other family, random
	probes := []netip.Addr{prefix.Addr()}
	flip := func(a netip.Addr, bit int) netip.Addr {
		b := a.As16()
		off := 0
		if a.Is4() {
			off = 96
		}
		b[(off+bit)/8] ^= 1 << (7 - uint((off+bit)%8))
		if a.Is4() {
			return netip.AddrFrom16(b).Unmap()
		}
		return netip.AddrFrom16(b)
	}
	if bits > 0 {
		probes = append(probes, flip(prefix.Addr(), bits-1)) // last prefix bit flipped: outside
	}
	if bits < max {
		probes = append(probes, flip(prefix.Addr(), bits)) // first host bit flipped: inside
		probes = append(probes, flip(prefix.Addr(), max-1))
	}
	probes = append(probes, c19GenAddr(t, "probe_same", v6), c19GenAddr(t, "probe_other", !v6))
	nHit, nMiss := 0, 0
	for _, a := range probes {
		a16 := a.As16()
		in := ksRouteIn{Flag: [8]uint32{uint32(consts.L4ProtoType_TCP), uint32(consts.IpVersion_4)}, L4Hdr: c19L4Hdr(1000, 80)}
		other := netip.MustParseAddr("2001:db8::1").As16()
		if which == consts.MatchType_IpSet {
			in.Daddr, in.Saddr = a16, other
		} else {
			in.Saddr, in.Daddr = a16, other
		}
		out := k.Route(in)
		if out.Ret < 0 {
			t.Fatalf("route() failed with %d for prefix %v key %x", out.Ret, prefix, goBytes)
		}
		ob, _, _ := ksRouteDecode(out.Ret)
		want := miss
		if c19PrefixMatchBits(prefix, a) {
			want = hit
			nHit++
		} else {
			nMiss++
		}
		if ob != want {
			t.Fatalf("prefix %v (Go key %x in lpm_array_map[%d]) vs address %v: kernel route() -> outbound %d, want %d", prefix, goBytes, slot, a, ob, want)
		}
		// the lookup key the kernel builds for a host equals the Go key of the host route
		host := ksMarshalLpm(cidrToBpfLpmKey(netip.PrefixFrom(a, a.BitLen())))
		got := out.LpmKeyDaddr[:]
		if which == consts.MatchType_SourceIpSet {
			got = out.LpmKeySaddr[:]
		}
		if !bytes.Equal(host, got) {
			t.Fatalf("host key differs for %v: Go cidrToBpfLpmKey(/%d) = %x, kernel lookup key = %x", a, a.BitLen(), host, got)
		}
		// and the set index travelled intact
		lk := ksOpsOn(out.Ops, "lpm_array_map")
		if len(lk) != 1 || !bytes.Equal(lk[0].Key, ksMarshal(slot)) || lk[0].Res != 1 {
			t.Fatalf("kernel looked up lpm_array_map with %v, want slot %d", lk, slot)
		}
	}
	cl := []string{"lpm"}
	if bits == 0 {
		cl = append(cl, "lpm_bits0")
	}
	if bits == max {
		cl = append(cl, "lpm_hostroute")
	}
	if !v6 {
		cl = append(cl, "lpm_v4_plus96")
	}
	ntKey := ""
	if nHit > 0 && nMiss > 0 {
		ntKey = "lpm|" + hex.EncodeToString(goBytes)
	}
	return ntKey, func() any {
		return map[string]any{"kind": "lpm", "prefix": prefix.String(), "key": hex.EncodeToString(goBytes), "slot": slot}
	}, cl
}

func ksMarshalLpm(k _bpfLpmKey) []byte { return ksMarshal(&k) }

// ---------------------------------------------------- domain table key + bitmap

func c19CheckDomain(t *rapid.T, k *ksSim) (string, func() any, []string) {
	v6 := rapid.Bool().Draw(t, "v6")
	addr := c19GenAddr(t, "ip", v6)
	bitLen := consts.MaxMatchSetLen
	idx := rapid.OneOf(rapid.SampledFrom([]int{0, 1, 31, 32, 33, 63, 64, bitLen - 33, bitLen - 32, bitLen - 2}), rapid.IntRange(0, bitLen-2)).Draw(t, "ruleindex")
	// Go side: the production matcher computes the bitmap, the tracker copies it and
	// keys it by Ipv6ByteSliceToUint32Array(ip.As16()).
	lg := logrus.New()
	lg.SetOutput(io.Discard)
	dm := domain_matcher.NewAhocorasickSlimtrie(lg, bitLen)
	dm.AddSet(idx, []string{"example.com"}, consts.RoutingDomainKey_Suffix)
	if err := dm.Build(); err != nil {
		t.Fatalf("domain matcher build: %v", err)
	}
	bitmap := dm.MatchDomainBitmap("www.example.com")
	var val bpfDomainRouting
	if len(bitmap) != len(val.Bitmap) {
		t.Fatalf("domain bitmap has %d words, bpfDomainRouting.Bitmap %d", len(bitmap), len(val.Bitmap))
	}
	copy(val.Bitmap[:], bitmap)
	a16 := addr.As16()
	// key and value as the control plane derives them from a cached DNS answer: the
	// production buildDomainRoutingOwnerSnapshot on an A/AAAA record in the forms the
	// DNS library produces (4-byte A from the wire, 16-byte A built by net.ParseIP).
	var rr dnsmessage.RR
	form := "aaaa16"
	if addr.Unmap().Is4() {
		ip4 := addr.Unmap().As4()
		form = "a4"
		aip := net.IP(ip4[:])
		if rapid.Bool().Draw(t, "a_record_16_byte_form") {
			aip, form = aip.To16(), "a16"
		}
		rr = &dnsmessage.A{Hdr: dnsmessage.RR_Header{Name: "www.example.com.", Rrtype: dnsmessage.TypeA, Class: dnsmessage.ClassINET, Ttl: 60}, A: aip}
	} else {
		rr = &dnsmessage.AAAA{Hdr: dnsmessage.RR_Header{Name: "www.example.com.", Rrtype: dnsmessage.TypeAAAA, Class: dnsmessage.ClassINET, Ttl: 60}, AAAA: net.IP(a16[:])}
	}
	snap, serr := buildDomainRoutingOwnerSnapshot(&DnsCache{DomainBitmap: bitmap, Answer: []dnsmessage.RR{rr}})
	gkey := common.Ipv6ByteSliceToUint32Array(a16[:])
	if serr != nil || len(snap.ips) > 1 || (len(snap.ips) == 0 && !addr.Unmap().IsUnspecified()) {
		// (answers of 0.0.0.0 / :: may be left out of the table: then the bare encoder keys the probe)
		t.Fatalf("buildDomainRoutingOwnerSnapshot(%s record %v): err=%v keys=%d, want exactly one key", form, addr, serr, len(snap.ips))
	}
	for kk := range snap.ips {
		gkey = kk
	}
	if snap.bitmap != val {
		t.Fatalf("buildDomainRoutingOwnerSnapshot changed the bitmap")
	}
	goKey, goVal := ksMarshal(&gkey), ksMarshal(&val)
	mi := c19MapInfo(t, k, "domain_routing_map")
	if int(mi.KeySize) != len(goKey) || int(mi.ValueSize) != len(goVal) {
		t.Fatalf("domain_routing_map: C key/value %d/%d bytes, Go %d/%d", mi.KeySize, mi.ValueSize, len(goKey), len(goVal))
	}
	k.Reset()
	if r := k.MapUpdate("domain_routing_map", goKey, goVal, 0); r != 0 {
		t.Fatalf("domain_routing_map update: %d", r)
	}
	// routing program: idx never-matching single-set rules, then the domain set at
	// position idx (the kernel uses the position as the bit index), then fallback.
	sets := make([][]byte, 0, idx+2)
	never := c19MatchSet(t, consts.MatchType_L4Proto, [16]byte{}, false, 3, false, 0) // mask 0 matches nothing
	for i := 0; i < idx; i++ {
		sets = append(sets, never)
	}
	hit, miss := uint8(11), uint8(12)
	sets = append(sets, c19MatchSet(t, consts.MatchType_DomainSet, [16]byte{}, false, hit, false, 0))
	sets = append(sets, c19MatchSet(t, consts.MatchType_Fallback, [16]byte{}, false, miss, false, 0))
	c19InstallRules(t, k, sets)

	probe := func(a [16]byte, want uint8, wantFound int32) {
		out := k.Route(ksRouteIn{Flag: [8]uint32{uint32(consts.L4ProtoType_TCP), uint32(consts.IpVersion_4)}, L4Hdr: c19L4Hdr(1000, 443), Daddr: a,
			Saddr: netip.MustParseAddr("2001:db8::1").As16()})
		if out.Ret < 0 {
			t.Fatalf("route() failed: %d", out.Ret)
		}
		ob, _, _ := ksRouteDecode(out.Ret)
		lk := ksOpsOn(out.Ops, "domain_routing_map")
		if len(lk) != 1 {
			t.Fatalf("expected one domain_routing_map lookup, got %v", lk)
		}
		ak := common.Ipv6ByteSliceToUint32Array(a[:])
		if !bytes.Equal(lk[0].Key, ksMarshal(&ak)) {
			t.Fatalf("domain table key differs for %x: Go key %x, kernel looked up %x", a, ksMarshal(&ak), lk[0].Key)
		}
		if lk[0].Res != wantFound || ob != want {
			t.Fatalf("domain bitmap bit %d for %v: kernel found=%d outbound=%d, want found=%d outbound=%d (bitmap word %d = %#x)", idx, addr, lk[0].Res, ob, wantFound, want, idx/32, val.Bitmap[idx/32])
		}
	}
	probe(a16, hit, 1)
	b16 := a16
	b16[rapid.IntRange(0, 15).Draw(t, "flipbyte")] ^= 1 << uint(rapid.IntRange(0, 7).Draw(t, "flipbit"))
	probe(b16, miss, 0)
	// neighbour bit must not leak: same address, set moved one position further
	sets2 := append(append([][]byte{}, sets[:idx]...), never, sets[idx], sets[idx+1])
	if len(sets2) <= consts.MaxMatchSetLen {
		c19InstallRules(t, k, sets2)
		probe(a16, miss, 1)
	}
	cl := []string{"domain"}
	if idx%32 == 0 || idx%32 == 31 {
		cl = append(cl, "domain_word_boundary")
	}
	return fmt.Sprintf("domain|%x|%d", a16, idx), func() any {
		return map[string]any{"kind": "domain", "ip": addr.String(), "rule_index": idx, "key": hex.EncodeToString(goKey)}
	}, cl
}

// ------------------------------------------------------------------ port range

func c19CheckPort(t *rapid.T, k *ksSim) (string, func() any, []string) {
	a, b := c19GenPort(t, "start"), c19GenPort(t, "end")
	if a > b {
		a, b = b, a
	}
	which := rapid.SampledFrom([]consts.MatchType{consts.MatchType_Port, consts.MatchType_SourcePort}).Draw(t, "which")
	enc := bpfPortRange{PortStart: a, PortEnd: b}.Encode()
	hit, miss := uint8(21), uint8(22)
	mark := rapid.Uint32().Draw(t, "mark")
	must := rapid.Bool().Draw(t, "must")
	k.Reset()
	c19InstallRules(t, k, [][]byte{
		c19MatchSet(t, which, enc, false, hit, must, mark),
		c19MatchSet(t, consts.MatchType_Fallback, [16]byte{}, false, miss, false, 0),
	})
	probes := []uint16{a, b, a - 1, b + 1, c19GenPort(t, "probe"), ksHtons(a), ksHtons(b)}
	nHit, nMiss := 0, 0
	for _, p := range probes {
		if p == 53 {
			continue // DNS hand-over is C02's subject
		}
		sport, dport := uint16(40000), p
		if which == consts.MatchType_SourcePort {
			sport, dport = p, 40000
		}
		l4 := rapid.SampledFrom([]consts.L4ProtoType{consts.L4ProtoType_TCP, consts.L4ProtoType_UDP}).Draw(t, "l4")
		out := k.Route(ksRouteIn{Flag: [8]uint32{uint32(l4), uint32(consts.IpVersion_6)}, L4Hdr: c19L4Hdr(sport, dport)})
		if out.Ret < 0 {
			t.Fatalf("route() failed: %d", out.Ret)
		}
		ob, mk, ms := ksRouteDecode(out.Ret)
		in := p >= a && p <= b
		if in {
			nHit++
			if ob != hit || mk != mark || ms != must {
				t.Fatalf("port range [%d,%d] (Encode=%x) port %d: kernel -> outbound=%d mark=%#x must=%v, want %d/%#x/%v", a, b, enc[:4], p, ob, mk, ms, hit, mark, must)
			}
		} else {
			nMiss++
			if ob != miss {
				t.Fatalf("port range [%d,%d] (Encode=%x) port %d outside: kernel -> outbound=%d, want %d", a, b, enc[:4], p, ob, miss)
			}
		}
		if out.HDport != dport || out.HSport != sport {
			t.Fatalf("kernel read ports %d/%d from the L4 header, sent %d/%d", out.HSport, out.HDport, sport, dport)
		}
	}
	// ParsePortRange is the Go-side decoder of the same bytes
	if s, e := ParsePortRange(enc[:]); s != a || e != b {
		t.Fatalf("ParsePortRange(Encode(%d,%d)) = %d,%d", a, b, s, e)
	}
	ntKey := ""
	if nHit > 0 && nMiss > 0 && (a>>8 != a&0xff || b>>8 != b&0xff) {
		ntKey = fmt.Sprintf("port|%d|%d|%d", a, b, which)
	}
	return ntKey, func() any {
		return map[string]any{"kind": "port_range", "start": a, "end": b, "encode": hex.EncodeToString(enc[:4]), "mark": mark, "must": must}
	}, []string{"port"}
}

func TestC19_Keys(t *testing.T) {
	rapid.Check(t, func(t *rapid.T) {
		k := ksGet(t)
		kind := rapid.SampledFrom([]string{"tuples", "tuples", "tuples", "conn", "conn", "lpm", "lpm", "domain", "port"}).Draw(t, "kind")
		var (
			nt     string
			sample func() any
			cl     []string
		)
		switch kind {
		case "tuples":
			nt, sample, cl = c19CheckTuples(t, k)
		case "conn":
			nt, sample, cl = c19CheckConnectivity(t, k)
		case "lpm":
			nt, sample, cl = c19CheckLpm(t, k)
		case "domain":
			nt, sample, cl = c19CheckDomain(t, k)
		case "port":
			nt, sample, cl = c19CheckPort(t, k)
		}
		vkCase(c19Unit, nt, sample, cl...)
	})
}

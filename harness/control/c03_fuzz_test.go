package control

// C03 — native fuzz target over raw frame bytes (thorough tier only). Oracle: the two
// header-parsing paths agree (same outputs, same map contents) and the C code never
// trips ASan/UBSan (on a real kernel the verifier plays that role), for every TC
// program, on a small fixed rule set with live and dead outbounds.

import (
	"bytes"
	"net/netip"
	"testing"

	"pgregory.net/rapid"
)

var c03FuzzProgs = []string{"tproxy_lan_ingress_l2", "tproxy_lan_ingress_l3", "tproxy_wan_egress_l2", "tproxy_wan_egress_l3",
	"tproxy_lan_egress_l2", "tproxy_lan_egress_l3", "tproxy_wan_ingress_l2", "tproxy_wan_ingress_l3", "tproxy_dae0_ingress", "tproxy_dae0peer_ingress"}

var c03FuzzCapture *c02Capture

func c03FuzzRules(t ksTB) c02Capture {
	if c03FuzzCapture != nil {
		return *c03FuzzCapture
	}
	globalNextLpmIndex.Store(0)
	p := vrProgram{Groups: []string{"g0", "g1"}, Fallback: vrOutbound{Name: "g0"}, FallbackPos: 4, Rules: []vrRule{
		{Conds: []vrCond{{Func: "dport", Vals: []vrValue{{Val: "443"}}}}, Out: vrOutbound{Name: "direct", Params: []vrValue{{Key: "mark", Val: "0x20"}}}},
		{Conds: []vrCond{{Func: "dip", Vals: []vrValue{{Val: "10.0.0.0/8"}, {Val: "2001:db8::/32", Quote: '\''}}}}, Out: vrOutbound{Name: "g1"}},
		{Conds: []vrCond{{Func: "sport", Vals: []vrValue{{Val: "1000-2000"}}}, {Func: "l4proto", Vals: []vrValue{{Val: "udp"}}}}, Out: vrOutbound{Name: "block"}},
		{Conds: []vrCond{{Func: "mac", Vals: []vrValue{{Val: "02:00:00:00:00:09", Quote: '\''}}}}, Out: vrOutbound{Name: "direct"}},
	}}
	c, err := vrCompile(vrRender(p), vrCompileOpts{})
	if err != nil {
		t.Fatalf("fuzz rule set: %v", err)
	}
	cp := c02BuildKernspace(t, c.Builder.KernspaceSnapshot())
	c03FuzzCapture = &cp
	return cp
}

// c03SynAck walks the headers the way the programs do and reports a TCP SYN+ACK.
func c03SynAck(frame []byte, l2 bool, v6hint bool) bool {
	off := 0
	v6 := v6hint
	if l2 {
		if len(frame) < 14 {
			return false
		}
		switch {
		case frame[12] == 0x08 && frame[13] == 0x00:
			v6 = false
		case frame[12] == 0x86 && frame[13] == 0xdd:
			v6 = true
		default:
			return false
		}
		off = 14
	}
	var proto byte
	if !v6 {
		if len(frame) < off+20 {
			return false
		}
		proto = frame[off+9]
		off += int(frame[off]&0x0f) * 4
	} else {
		if len(frame) < off+40 {
			return false
		}
		proto = frame[off+6]
		off += 40
		for i := 0; i < 8; i++ {
			if proto == 44 {
				if len(frame) < off+8 {
					return false
				}
				proto = frame[off]
				off += 8
				continue
			}
			if proto != 0 && proto != 43 && proto != 60 {
				break
			}
			if len(frame) < off+2 {
				return false
			}
			proto, off = frame[off], off+(int(frame[off+1])+1)*8
		}
	}
	if proto != 6 || len(frame) < off+14 {
		return false
	}
	return frame[off+13]&(ksTCPSyn|ksTCPAck) == ksTCPSyn|ksTCPAck
}

func FuzzC03_Frame(f *testing.F) {
	mk := func(v6 bool, proto uint8, flags uint8, payload int, ext []uint8) []byte {
		src, dst := netip.MustParseAddr("192.168.1.10"), netip.MustParseAddr("10.2.3.4")
		if v6 {
			src, dst = netip.MustParseAddr("fd00::10"), netip.MustParseAddr("2001:db8::7")
		}
		return ksPkt{L2: true, SrcMac: [6]byte{2, 0, 0, 0, 0, 9}, DstMac: c03GwMac, SrcIP: src.As16(), DstIP: dst.As16(), V6: v6, Proto: proto,
			Sport: 1500, Dport: 443, TCPFlags: flags, ExtHdrs: ext, Payload: make([]byte, payload)}.Bytes()
	}
	for sel := uint8(0); sel < 20; sel++ {
		f.Add(mk(false, 6, ksTCPSyn, 120, nil), sel)
		f.Add(mk(true, 17, 0, 150, []uint8{0, 60}), sel)
	}
	f.Add(mk(false, 6, ksTCPAck, 0, nil), uint8(0))
	f.Add(mk(true, 6, ksTCPFin|ksTCPAck, 200, []uint8{44}), uint8(2))
	f.Add(mk(false, 17, 0, 10, nil)[14:], uint8(1))
	f.Fuzz(func(t *testing.T, frame []byte, sel uint8) { c03FrameOracle(t, "C03.fuzz", frame, sel) })
}

type c03TB interface {
	ksTB
	Logf(format string, args ...any)
}

// c03FrameOracle: one raw frame on one TC program, direct-access parser vs byte-load
// parser on identical fresh state; the frame is sent twice so the second pass meets the
// state the first one left.
func c03FrameOracle(t c03TB, unit string, frame []byte, sel uint8) {
	if len(frame) > 2000 {
		return
	}
	prog := c03FuzzProgs[int(sel)%len(c03FuzzProgs)]
	v6 := sel&0x40 != 0
	l2 := prog[len(prog)-1] == '2' || prog == "tproxy_dae0_ingress" || prog == "tproxy_dae0peer_ingress"
	if l2 && len(frame) >= 14 && frame[12] == 0x86 && frame[13] == 0xdd {
		v6 = true
	} else if l2 && len(frame) >= 14 && frame[12] == 0x08 && frame[13] == 0x00 {
		v6 = false
	}
	if vkKnown("F8") && c03SynAck(frame, l2, v6) {
		vkExcluded(unit, "F8")
		return
	}
	k := ksGet(t)
	cp := c03FuzzRules(t)
	proto := ksProtoIP4
	if v6 {
		proto = ksProtoIP6
	}
	meta := ksSkbMeta{Protocol: proto, Ifindex: c03LanIf, IngressIfindex: c03LanIf, Cookie: 77}
	if sel&0x80 != 0 {
		meta.IngressIfindex = 0
	}
	if prog == "tproxy_dae0peer_ingress" && sel&0x20 != 0 {
		meta.Cb[0] = uint32(k.Info().Consts["TPROXY_MARK"])
		meta.Cb[1] = uint32(sel & 0x1f)
	}
	one := func(slow bool) ([]byte, map[string][]ksKV) {
		k.Reset()
		p := bpfDaeParam{ControlPlanePid: c03CpPid, Dae0Ifindex: c03DaeIf, Dae0peerMac: c03PeerMac}
		k.SetParam(c03Raw(&p))
		k.SetClock(5000 * c03Sec)
		c02Install(t, k, cp)
		one := ksMarshal(uint32(1))
		for i := uint32(12); i < 18; i++ { // outbound 2 (g0) alive, outbound 3 (g1) dead
			k.MapUpdate("outbound_connectivity_map", ksMarshal(i), one, 0)
		}
		k.Sockets([]ksSock{{ID: 1, Proto: 6, Family: 4, State: ksBpfTcpListen, ListenSlot: 0, LocalPort: c03TproxyP},
			{ID: 2, Proto: 17, Family: 6, State: 7, ListenSlot: 1, LocalPort: c03TproxyP},
			{ID: 3, Proto: 6, Family: 6, State: ksBpfTcpListen, ListenSlot: 2, LocalPort: c03TproxyP}})
		in := ksRunIn{Meta: meta, Frame: frame, LinearLen: uint32(len(frame)), NoLog: true}
		if slow {
			in.LinearLen, in.PullFails = 0, true
		}
		// the same frame twice: the second pass meets the state the first one left
		o1 := k.Run(prog, in)
		o2 := k.Run(prog, in)
		if o1.SockRefsLeaked != 0 || o2.SockRefsLeaked != 0 {
			t.Fatalf("%s leaked socket references", prog)
		}
		return append(c03RunDigest(o1), c03RunDigest(o2)...), c03Dumps(k)
	}
	fd, fm := one(false)
	sd, sm := one(true)
	if !bytes.Equal(fd, sd) {
		t.Fatalf("%s: the parsing path changes the result for frame %x\n direct access: %s\n byte loads:    %s", prog, frame, fd, sd)
	}
	for _, m := range c03DumpMaps {
		if c03KVs(fm[m]) != c03KVs(sm[m]) {
			t.Fatalf("%s: the parsing path changes map %s for frame %x\n direct access: %s\n byte loads:    %s", prog, m, frame, c03KVs(fm[m]), c03KVs(sm[m]))
		}
	}
	nt := ""
	if len(frame) >= 128 {
		nt = string(frame) + prog
	}
	vkCase(unit, nt, nil, prog)
}

// The same oracle driven by rapid (quick tier): well-formed frames of every shape the
// datapath parses, then damaged by byte edits, truncation, insertion and splicing.
func TestC03_FrameMutations(t *testing.T) {
	rapid.Check(t, func(t *rapid.T) {
		v6 := rapid.Bool().Draw(t, "v6")
		p := ksPkt{L2: true, SrcMac: [6]byte{2, 0, 0, 0, 0, 9}, DstMac: c03GwMac, V6: v6,
			Proto:    rapid.SampledFrom([]uint8{6, 6, 17, 17, 58, 1, 50}).Draw(t, "proto"),
			Sport:    rapid.SampledFrom([]uint16{53, 1500, 40000}).Draw(t, "sport"),
			Dport:    rapid.SampledFrom([]uint16{53, 443, 80}).Draw(t, "dport"),
			TCPFlags: rapid.SampledFrom([]uint8{ksTCPSyn, ksTCPAck, ksTCPSyn | ksTCPAck, ksTCPFin | ksTCPAck, ksTCPRst, 0, 0xff}).Draw(t, "flags"),
			Dscp:     uint8(rapid.IntRange(0, 63).Draw(t, "dscp")),
			Payload:  make([]byte, rapid.SampledFrom([]int{0, 1, 40, 100, 128, 300}).Draw(t, "payload"))}
		if v6 {
			p.SrcIP, p.DstIP = netip.MustParseAddr("fd00::10").As16(), netip.MustParseAddr("2001:db8::7").As16()
			p.ExtHdrs = rapid.SliceOfN(rapid.SampledFrom([]uint8{0, 43, 60, 44, 51, 59}), 0, 9).Draw(t, "ext")
			p.FragOff = uint16(rapid.SampledFrom([]int{0, 0, 0, 1, 100}).Draw(t, "fragoff"))
		} else {
			p.SrcIP, p.DstIP = netip.MustParseAddr("::ffff:192.168.1.10").As16(), netip.MustParseAddr("::ffff:10.2.3.4").As16()
			p.IHL = uint8(rapid.SampledFrom([]int{5, 5, 5, 6, 15}).Draw(t, "ihl"))
			p.FragOff = uint16(rapid.SampledFrom([]int{0, 0, 0, 1, 8191}).Draw(t, "fragoff"))
		}
		p.MoreFrag = rapid.IntRange(0, 3).Draw(t, "more_fragments") == 0
		sel := uint8(rapid.IntRange(0, 255).Draw(t, "sel"))
		prog := c03FuzzProgs[int(sel)%len(c03FuzzProgs)]
		p.L2 = prog[len(prog)-1] != '3'
		frame := p.Bytes()
		for i, n := 0, rapid.IntRange(0, 6).Draw(t, "nedits"); i < n && len(frame) > 0; i++ {
			pos := rapid.IntRange(0, len(frame)-1).Draw(t, "pos")
			if rapid.Bool().Draw(t, "in_headers") && pos > 80 {
				pos %= 80
			}
			switch rapid.IntRange(0, 5).Draw(t, "edit") {
			case 0:
				frame[pos] ^= 1 << uint(rapid.IntRange(0, 7).Draw(t, "bit"))
			case 1:
				frame[pos] = rapid.SampledFrom([]byte{0, 1, 4, 5, 6, 17, 43, 44, 58, 59, 60, 0x45, 0x4f, 0x60, 0xff}).Draw(t, "byte")
			case 2:
				frame = frame[:pos]
			case 3:
				frame = append(frame[:pos:pos], append(make([]byte, rapid.IntRange(1, 64).Draw(t, "ins")), frame[pos:]...)...)
			case 4:
				frame = append(frame[:pos:pos], frame[min(len(frame), pos+rapid.IntRange(1, 16).Draw(t, "del")):]...)
			default:
				frame = append(frame, make([]byte, rapid.IntRange(1, 200).Draw(t, "pad"))...)
			}
		}
		c03FrameOracle(t, "C03.mutations", frame, sel)
	})
}

package control

// C01 — traffic is routed by the first matching rule, exactly as the rules are
// written. Generated routing programs (text) go through the production path
// config_parser.Parse -> config.New -> optimiser chain of control_plane.go ->
// NewRoutingMatcherBuilderFromProgram -> BuildUserspace and are asked through
// ControlPlane.Route (and RoutingMatcher.Match directly); the oracle is the
// independent interpreter of the written rule list in shared_rules_test.go.

import (
	"fmt"
	"net/netip"
	"sort"
	"strings"
	"testing"

	"pgregory.net/rapid"
)

const c01Unit = "C01.firstmatch"

func c01ProgramClasses(p vrProgram) []string {
	cl := map[string]bool{}
	domainSets := 0
	for _, r := range p.Rules {
		if len(r.Conds) > 1 {
			cl["prog_and_rule"] = true
		}
		if r.Out.Name == "must_rules" {
			cl["prog_must_rules"] = true
		}
		if strings.HasPrefix(r.Out.Name, "must_") && r.Out.Name != "must_rules" {
			cl["prog_must_prefix"] = true
		}
		for _, pa := range r.Out.Params {
			if pa.Key == "mark" {
				cl["prog_mark"] = true
			}
		}
		for _, c := range r.Conds {
			if c.Not {
				cl["prog_negation"] = true
			}
			cl["fn_"+vrCanonFunc(c.Func)] = true
			keys := map[string]bool{}
			v4, v6 := false, false
			for _, v := range c.Vals {
				keys[v.Key] = true
				if vrCanonFunc(c.Func) == "ip" || c.Func == "sip" {
					if strings.Contains(v.Val, ":") {
						v6 = true
					} else {
						v4 = true
					}
				}
			}
			if c.Func == "domain" {
				domainSets += len(keys)
				if len(keys) > 1 {
					cl["prog_multikey_or_chain"] = true
				}
			} else if len(c.Vals) > 1 {
				cl["prog_multivalue"] = true
			}
			if v4 && v6 {
				cl["prog_family_mix_in_cond"] = true
			}
		}
	}
	if domainSets >= 2 {
		cl["prog_ge2_domain_sets"] = true
	}
	out := []string{}
	for c := range cl {
		out = append(out, c)
	}
	sort.Strings(out)
	return out
}

func c01Check(t *rapid.T, unit string, o vrOpts, npk int, geoDir string) {
	p := vrGenProgram(t, o)
	text := vrRender(p)
	m, c, err := vrBuildMatcher(text, vrCompileOpts{GeoDir: geoDir})
	if err != nil {
		t.Fatalf("well-formed routing program rejected: %v\n%s", err, text)
	}
	for i := 0; i < p.ExcludedF1; i++ {
		vkExcluded(unit, "F1")
	}
	for i := 0; i < p.ExcludedF2; i++ {
		vkExcluded(unit, "F2")
	}
	vkClass(unit, c01ProgramClasses(p)...)
	nsets := len(m.compiledMatches)
	switch {
	case nsets > 992:
		vkClass(unit, "sets_gt992")
	case nsets > 64:
		vkClass(unit, "sets_65_992")
	case nsets > 32:
		vkClass(unit, "sets_33_64")
	}
	seeds := vrDomainSeeds(p)
	for i := 0; i < npk; i++ {
		k := vrGenPacketSeeds(t, p, seeds)
		want := vrInterpret(p, k)
		ob, mark, must, err := vrRoute(m, k)
		ok, got := vrAgree(c, want, ob, mark, must, err)
		via := "ControlPlane.Route"
		if ok && i%4 == 0 {
			ob, mark, must, err = vrMatchDirect(m, k)
			ok, got = vrAgree(c, want, ob, mark, must, err)
			via = "RoutingMatcher.Match"
		}
		if !ok {
			t.Fatalf("%s decided %s, the written rule list says %s\npacket %v\n--- config ---\n%s--- triage ---\n%s",
				via, got, want, k, text, vrTriage(p, k, geoDir))
		}
		cls := []string{}
		nt := ""
		if (want.Rule >= 0 && want.NearMiss) || want.MustLine {
			nt = text + "\x00" + k.String()
			cls = append(cls, "nontrivial")
		}
		if want.Rule < 0 {
			cls = append(cls, "pk_fallback")
		} else {
			cls = append(cls, "pk_rule")
		}
		if want.MustLine {
			cls = append(cls, "pk_must_rules_fired")
		}
		if want.Must {
			cls = append(cls, "pk_must")
		}
		if want.Mark != 0 {
			cls = append(cls, "pk_mark")
		}
		if k.Domain == "" {
			cls = append(cls, "pk_empty_domain")
		}
		if k.Pname[0] == 0 {
			cls = append(cls, "pk_empty_pname")
		}
		if k.Mac == ([6]byte{}) {
			cls = append(cls, "pk_zero_mac")
		}
		if k.Dst.Addr().Is4In6() {
			cls = append(cls, "pk_dst_4in6")
		} else if k.Dst.Addr().Is4() {
			cls = append(cls, "pk_dst_v4")
		} else {
			cls = append(cls, "pk_dst_v6")
		}
		if k.Dst.Addr().Unmap().Is4() != k.Src.Addr().Unmap().Is4() {
			cls = append(cls, "pk_family_mix")
		}
		kk := k
		vkCase(unit, nt, func() any {
			return map[string]any{"config": text, "packet": kk.String(), "decision": want.String()}
		}, cls...)
	}
}

func TestC01_FirstMatch(t *testing.T) {
	npk := 24
	if vkThorough() {
		npk = 40
	}
	spent := vrBudget(t)
	rapid.Check(t, func(t *rapid.T) {
		if spent() {
			vkClass(c01Unit, "skipped_wall_clock_budget")
			return
		}
		c01Check(t, c01Unit, vrOpts{}, npk, "")
	})
}

// Size sweep: programs of about 1000..1024 match-sets (just under MaxMatchSetLen), so
// that domain bitmap word boundaries (31/32/63/64/.../1023) and the tail of the
// match-set array are exercised.
func TestC01_SizeSweep(t *testing.T) {
	spent := vrBudget(t)
	rapid.Check(t, func(t *rapid.T) {
		if spent() {
			vkClass("C01.sweep", "skipped_wall_clock_budget")
			return
		}
		c01Check(t, "C01.sweep", vrOpts{Sweep: true}, 40, "")
	})
}

// Finding F2 (pkg/trie Prefix2bin128, property C12): a zero-length IPv6 prefix is
// compiled to a 128-bit key, so dip('::/0') only matches "::". The generator stays
// away from that shape while F2 is listed as known; this test pins it.
func TestC01_Finding_F2(t *testing.T) {
	p := vrProgram{
		Groups:      []string{"g0"},
		Rules:       []vrRule{{Conds: []vrCond{{Func: "dip", Vals: []vrValue{{Val: "::/0", Quote: '\''}}}}, Out: vrOutbound{Name: "block"}}},
		Fallback:    vrOutbound{Name: "direct"},
		FallbackPos: 1,
	}
	m, c, err := vrBuildMatcher(vrRender(p), vrCompileOpts{})
	if err != nil {
		t.Fatalf("build: %v", err)
	}
	bad := []string{}
	for _, a := range []string{"2001:db8::1", "::1", "ffff::", "::ffff:1.2.3.4", "1.2.3.4", "::"} {
		k := vrPacket{Src: netip.MustParseAddrPort("[fe80::1]:1000"), Dst: netip.AddrPortFrom(netip.MustParseAddr(a), 443), L4: "tcp"}
		want := vrInterpret(p, k)
		if want.Outbound != "block" {
			t.Fatalf("reference interpreter: ::/0 must contain %s", a)
		}
		ob, mark, must, err := vrRoute(m, k)
		if ok, got := vrAgree(c, want, ob, mark, must, err); !ok {
			bad = append(bad, fmt.Sprintf("dst %s: got %s want %s", a, got, want))
		}
	}
	if vkKnown("F2") {
		if len(bad) > 0 {
			vkKnownReproduced("F2")
			t.Logf("known finding F2 still reproduces: %v", bad)
		} else {
			t.Logf("known finding F2 no longer reproduces")
		}
		vkCase("C01.finding_f2", "f2-known", nil)
		return
	}
	if len(bad) > 0 {
		t.Fatalf("dip('::/0') -> block does not match every address (F2): %v", bad)
	}
	vkCase("C01.finding_f2", "f2", nil)
}

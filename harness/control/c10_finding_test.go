package control

// Finding F-C10-1: the async BPF refresh worker applies a queued task without
// checking that the task's cache entry is still the one in dnsCache.
//
// processBpfUpdateTask calls CacheAccessCallback(task.cache) →
// BatchUpdateDomainRouting → syncOwner(owner, snapshot(task.cache)). Tasks are
// queued by RestoreReloadCache (every entry carried over a reload) and by
// LookupDnsRespCache. If the entry is removed (reject → RemoveDnsRespCacheFamily,
// expiry, LRU) or replaced between the enqueue and the moment the worker gets to
// the task, the worker re-installs the addresses of an entry that no longer
// exists; nothing ever removes them again (a later reject finds no cache entry,
// hence issues no delete callback).
//
// The interleaving is made deterministic without touching the code under test:
// the production CacheAccessCallback is wrapped by a closure that only *delays*
// (parks on a channel before calling the production callback) — i.e. it models
// the worker goroutine being descheduled right after it dequeued the task.

import (
	"context"
	"sync/atomic"
	"testing"
	"testing/synctest"
	"time"

	dnsmessage "github.com/miekg/dns"
)

func TestC10_Finding_F_C10_1(tt *testing.T) {
	const id = "F-C10-1"
	const unit = "C10.late_refresh"
	var (
		stale   bool
		parked  bool
		diff    string
		failure string
	)
	synctest.Test(tt, func(_ *testing.T) {
		shadow := c10NewShadow()
		verifSetHooks(&verifHooks{DomainRoutingSync: shadow.observe})
		defer verifSetHooks(nil)

		table := map[string]bpfDomainRouting{"a.example": c10Bits(0)}
		answer := func() []dnsmessage.RR {
			return []dnsmessage.RR{c10RR("a.example.", "A", c10V4[0], 3600)}
		}

		// generation 1 caches a.example A 1.1.1.1.
		ctx, cancel := context.WithCancel(context.Background())
		defer cancel()
		plane1 := c10NewPlane(ctx, table, true)
		ctrl1, err := NewDnsController(nil, plane1.dnsControllerOption())
		if err != nil {
			failure = "NewDnsController: " + err.Error()
			return
		}
		key := ctrl1.cacheKey("a.example.", dnsmessage.TypeA)
		if err := ctrl1.UpdateDnsCacheTtl("a.example.", dnsmessage.TypeA, answer(), nil, nil, 3600); err != nil {
			failure = "UpdateDnsCacheTtl: " + err.Error()
			_ = ctrl1.Close()
			return
		}
		carried := ctrl1.CloneCacheForReload()
		_ = ctrl1.Close()
		synctest.Wait()

		// generation 2 (fresh core, fresh tracker, fresh table) restores the cache,
		// exactly as (*ControlPlane).restorePendingDnsReloadCache does.
		shadow2 := c10NewShadow()
		verifSetHooks(&verifHooks{DomainRoutingSync: shadow2.observe})
		plane2 := c10NewPlane(ctx, table, true)
		option := plane2.dnsControllerOption()
		prod := option.CacheAccessCallback
		var gated atomic.Bool
		entered := make(chan struct{}, 16)
		gate := make(chan struct{})
		option.CacheAccessCallback = func(c *DnsCache) error {
			if gated.Load() {
				entered <- struct{}{}
				<-gate // worker goroutine "descheduled" after dequeuing the task
			}
			return prod(c)
		}
		ctrl2, err := NewDnsController(nil, option)
		if err != nil {
			failure = "NewDnsController(2): " + err.Error()
			return
		}
		defer func() { _ = ctrl2.Close() }()

		gated.Store(true)
		ctrl2.RestoreReloadCache(carried, plane2.routingMatcher.domainMatcher.MatchDomainBitmap, time.Now())
		synctest.Wait()
		select {
		case <-entered:
			parked = true
		default:
		}
		gated.Store(false)

		// a request for the name is now routed to "reject": the family is removed.
		ctrl2.RemoveDnsRespCacheFamily(key)
		synctest.Wait()
		close(gate) // the worker resumes with its queued task
		synctest.Wait()

		owners := map[string]c10Owner{}
		ctrl2.dnsCache.Range(func(k, v any) bool {
			o := c10Owner{bitmap: table["a.example"], addrs: map[c10Key]bool{}}
			for _, rr := range v.(*DnsCache).Answer {
				if a, ok := c10RRAddr(rr); ok {
					o.addrs[a] = true
				}
			}
			owners[k.(string)] = o
			return true
		})
		diff = c10Compare(shadow2.snapshot(), owners)
		stale = diff != ""
	})
	if failure != "" {
		tt.Fatalf("harness: %s", failure)
	}
	if !parked {
		// the premise (restore queues a task the worker picks up) no longer holds;
		// the scenario cannot be staged, which is not a violation.
		vkNote(unit, "F-C10-1: RestoreReloadCache did not hand a task to the async worker; scenario not staged")
		if stale {
			tt.Fatalf("table differs from the cache although no late task was staged:\n%s", diff)
		}
		return
	}
	vkCase(unit, "restore;reject-before-worker;worker-runs", func() any {
		return map[string]any{"history": []string{"gen1: cache a.example A 1.1.1.1", "reload: RestoreReloadCache queues async table update", "reject a.example (RemoveDnsRespCacheFamily) before the worker runs", "worker applies queued task"}, "stale": stale}
	}, "late_task_staged")
	if vkKnown(id) {
		if stale {
			vkKnownReproduced(id)
			tt.Logf("KNOWN F-C10-1 still reproduces:\n%s", diff)
		} else {
			tt.Logf("F-C10-1 is listed as known but no longer reproduces")
		}
		return
	}
	if stale {
		tt.Fatalf("a queued async table update applied after the entry was rejected leaves the table out of sync with the DNS cache:\n%s", diff)
	}
}

//go:build race

package control

// c09RaceBuild: the thorough-tier `race` unit. With ip_version_prefer on, the race
// detector reports DnsController.log being replaced by updateRuntime (reload) while a
// handler parked in applyPreferenceWait reads it. That is a data race in dae, but no
// reply, ID, question or cache entry is affected by which logger is used, so it is not
// a violation of the C09 statement: the race unit keeps ip_version_prefer off.
const c09RaceBuild = true

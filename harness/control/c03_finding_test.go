package control

// C03 findings, pinned as deterministic histories.

import (
	"net/netip"
	"testing"
)

func c03FixedEnv(t *testing.T, routing string, lanL2, wanL2 bool) *c03Env {
	k := ksGet(t)
	k.Reset()
	e := c03NewEnv(t, k)
	e.connMax = c03MapInfo(k, "conn_state_map").MaxEntries
	e.lanL2, e.wanL2 = lanL2, wanL2
	globalNextLpmIndex.Store(0)
	e.setup(false, 0, false)
	p := vrProgram{Groups: []string{"g0"}, Fallback: vrOutbound{Name: routing}}
	e.installProgram(p, true)
	return e
}

func (e *c03Env) send(f *c03Flow, reverse, viaLanEgress bool, flags uint8, payload int, slow bool) ksRunOut {
	o := c03FrameOpts{Flags: flags, Payload: payload, Reverse: reverse}
	prog, l2, meta := e.hookFor(f, reverse, viaLanEgress)
	o.HookL2 = l2
	frame, proto := e.frame(f, &o)
	meta.Protocol = proto
	in := ksRunIn{Meta: meta, Frame: frame, LinearLen: uint32(len(frame)), NoLog: true}
	if slow {
		in.LinearLen, in.PullFails = 0, true
	}
	return e.k.Run(prog, in)
}

// F8: parse_transport_fast() copies syn/fin/rst but not the ack bit into the scratch
// tcphdr (parse_transport_slow() loads the whole header). A SYN-ACK that reaches the
// direct-access parser (frame >= 128 bytes, e.g. TCP Fast Open data or padded options)
// therefore looks like a bare SYN: the reply of a LAN service to a connection opened from
// the WAN side is routed as a new connection instead of passing untouched, and the verdict
// depends on the parsing path.
func TestC03_Finding_F8(t *testing.T) {
	scenario := func(slow bool) (verdict string, tracked bool) {
		e := c03FixedEnv(t, "g0", true, true) // everything is proxied to g0
		f := &c03Flow{ID: 0, TCP: true, Origin: c03OrigInLan, Pk: vrPacket{L4: "tcp",
			Src: netip.MustParseAddrPort("192.168.1.10:8080"), // LAN service
			Dst: netip.MustParseAddrPort("203.0.113.7:40000"), // remote client
			Mac: [6]byte{2, 0, 0, 0, 0, 9}}}
		e.k.SetClock(e.now)
		// the client's SYN arrives from the WAN side ...
		if out := e.send(f, true, false, ksTCPSyn, 0, slow); e.verdictName(out.Verdict) != "PIPE" {
			t.Fatalf("wan_ingress SYN: %s", e.verdictName(out.Verdict))
		}
		// ... the LAN service answers with a SYN-ACK of 14+20+20+100 bytes
		out := e.send(f, false, false, ksTCPSyn|ksTCPAck, 100, slow)
		return e.verdictName(out.Verdict), out.RedirectKind != 0
	}
	fastV, fastRedir := scenario(false)
	slowV, slowRedir := scenario(true)
	t.Logf("SYN-ACK reply of a WAN-originated connection at lan_ingress: direct-access parser -> %s (redirect=%v), byte-load parser -> %s (redirect=%v)", fastV, fastRedir, slowV, slowRedir)
	bad := fastV != "OK" || fastRedir || slowV != "OK" || slowRedir
	if vkKnown("F8") {
		if bad {
			vkKnownReproduced("F8")
			t.Logf("known finding F8 still reproduces")
		} else {
			t.Logf("known finding F8 no longer reproduces")
		}
		vkCase("C03.finding_f8", "f8-known", nil)
		return
	}
	if bad {
		t.Fatalf("F8: reply (SYN-ACK, 154 bytes) of a connection opened from the WAN side must pass untouched on both parsing paths; direct-access parser: %s redirect=%v, byte-load parser: %s redirect=%v", fastV, fastRedir, slowV, slowRedir)
	}
	vkCase("C03.finding_f8", "f8", nil)
}

// F9 (provisional id): do_tproxy_wan_egress_udp() remembers a decision in the flow's
// conn state only when it is not "direct, no mark, no must". A locally originated UDP
// flow whose first datagram was routed direct is therefore tracked but re-routed on every
// later datagram, so a rule reload or a newly learned domain changes the path of a running
// flow - the LAN hook does remember direct decisions. The statement demands that a tracked
// flow keeps the decision of its first packet.
func TestC03_Finding_F9(t *testing.T) {
	e := c03FixedEnv(t, "direct", true, true)
	f := &c03Flow{ID: 0, Origin: c03OrigWan, Cookie: 1000, Pid: 2000, ProcName: "curl", Pk: vrPacket{L4: "udp",
		Src: netip.MustParseAddrPort("192.0.2.10:40000"), Dst: netip.MustParseAddrPort("203.0.113.7:443"), Mac: [6]byte{2, 0, 0, 0, 0, 9}}}
	e.registerProcess(f)
	first := e.send(f, false, false, 0, 32, false)
	if e.verdictName(first.Verdict) != "OK" || first.RedirectKind != 0 {
		t.Fatalf("first datagram under 'fallback: direct': %s", e.verdictName(first.Verdict))
	}
	// reload: everything new goes to the proxy group
	e.installProgram(vrProgram{Groups: []string{"g0"}, Fallback: vrOutbound{Name: "g0"}}, false)
	e.k.SetClock(e.now + c03Sec/2)
	second := e.send(f, false, false, 0, 32, false)
	v := e.verdictName(second.Verdict)
	t.Logf("second datagram of the tracked flow after the reload: %s (redirect=%v)", v, second.RedirectKind != 0)
	bad := v != "OK" || second.RedirectKind != 0
	if vkKnown(c03FindingUdpSticky) {
		if bad {
			vkKnownReproduced(c03FindingUdpSticky)
			t.Logf("known finding %s still reproduces", c03FindingUdpSticky)
		} else {
			t.Logf("known finding %s no longer reproduces", c03FindingUdpSticky)
		}
		vkCase("C03.finding_f9", "f9-known", nil)
		return
	}
	if bad {
		t.Fatalf("%s: a tracked, locally originated UDP flow decided 'direct' must stay direct after a rule reload; second datagram got %s", c03FindingUdpSticky, v)
	}
	vkCase("C03.finding_f9", "f9", nil)
}

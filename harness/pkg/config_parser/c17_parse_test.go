package config_parser

// C17 (a) round-trip fidelity and (b) totality of config_parser.Parse.
//
// An AST is generated over every production of dae_config.g4 (the lexer/parser rules
// were read from the generated ATN: ID = [A-Za-z_] SAFE*, NON_ID = [*+\-./0-9\\^] SAFE*,
// SAFE = ID head | NON_ID head | [!#$%=@]; quoted strings with \" / \' escapes;
// whitespace, '#' line comments and '/* */' block comments are skipped), rendered to a
// token list and then to text with random separators. Parse(text) must give exactly
// the AST back. Near-misses mutate the token list; whatever comes out must be a
// value xor a non-empty error, never a panic, and an accepted text must still contain
// every literal it spells, in order.

import (
	"fmt"
	"runtime/debug"
	"strings"
	"testing"

	"github.com/antlr/antlr4/runtime/Go/antlr/v4"
	"github.com/daeuniverse/dae-config-dist/go/dae_config"
	"pgregory.net/rapid"
)

// ---------------------------------------------------------------- AST

type c17Lit struct {
	Val   string
	Quote byte // 0 bare, '\'' or '"'
}

type c17Param struct {
	Key string
	Lit c17Lit
}

type c17Func struct {
	Not    bool
	Name   string
	Params []c17Param
}

const (
	c17ItemDeclLits = iota
	c17ItemDeclFuncs
	c17ItemLiteral
	c17ItemRule
	c17ItemSection
)

type c17Item struct {
	Kind     int
	Key      string
	Lits     []c17Lit
	Funcs    []c17Func
	Annot    []c17Param // nil = no annotation
	OutBare  bool
	Outbound c17Func // OutBare: only Name is used
	Sec      *c17Section
}

type c17Section struct {
	Name  string
	Items []c17Item
}

// ---------------------------------------------------------------- tokens

const (
	c17TokPunct = iota
	c17TokBare
	c17TokQuoted
)

type c17Tok struct {
	Text string
	Kind int
	Val  string // bare/quoted: value with quotes stripped
}

func c17P(s string) c17Tok { return c17Tok{Text: s, Kind: c17TokPunct} }

func c17LitTok(l c17Lit) c17Tok {
	if l.Quote == 0 {
		return c17Tok{Text: l.Val, Kind: c17TokBare, Val: l.Val}
	}
	q := string(l.Quote)
	return c17Tok{Text: q + l.Val + q, Kind: c17TokQuoted, Val: l.Val}
}

func c17Bare(s string) c17Tok { return c17Tok{Text: s, Kind: c17TokBare, Val: s} }

func c17ParamToks(ps []c17Param) (out []c17Tok) {
	for i, p := range ps {
		if i > 0 {
			out = append(out, c17P(","))
		}
		if p.Key != "" {
			out = append(out, c17Bare(p.Key), c17P(":"))
		}
		out = append(out, c17LitTok(p.Lit))
	}
	return
}

func c17FuncToks(f c17Func) (out []c17Tok) {
	if f.Not {
		out = append(out, c17P("!"))
	}
	out = append(out, c17Bare(f.Name), c17P("("))
	out = append(out, c17ParamToks(f.Params)...)
	out = append(out, c17P(")"))
	return
}

func c17FuncsToks(fs []c17Func) (out []c17Tok) {
	for i, f := range fs {
		if i > 0 {
			out = append(out, c17P("&&"))
		}
		out = append(out, c17FuncToks(f)...)
	}
	return
}

func c17SectionToks(s *c17Section) (out []c17Tok) {
	out = append(out, c17Bare(s.Name), c17P("{"))
	for _, it := range s.Items {
		switch it.Kind {
		case c17ItemDeclLits:
			out = append(out, c17Bare(it.Key), c17P(":"))
			for i, l := range it.Lits {
				if i > 0 {
					out = append(out, c17P(","))
				}
				out = append(out, c17LitTok(l))
			}
		case c17ItemDeclFuncs:
			out = append(out, c17Bare(it.Key), c17P(":"))
			out = append(out, c17FuncsToks(it.Funcs)...)
		case c17ItemLiteral:
			out = append(out, c17LitTok(it.Lits[0]))
		case c17ItemRule:
			out = append(out, c17FuncsToks(it.Funcs)...)
			out = append(out, c17P("->"))
			if it.OutBare {
				out = append(out, c17Bare(it.Outbound.Name))
			} else {
				out = append(out, c17FuncToks(it.Outbound)...)
			}
		case c17ItemSection:
			out = append(out, c17SectionToks(it.Sec)...)
		}
		if (it.Kind == c17ItemDeclLits || it.Kind == c17ItemDeclFuncs) && it.Annot != nil {
			out = append(out, c17P("["))
			out = append(out, c17ParamToks(it.Annot)...)
			out = append(out, c17P("]"))
		}
	}
	out = append(out, c17P("}"))
	return
}

func c17ASTToks(secs []*c17Section) (out []c17Tok) {
	for _, s := range secs {
		out = append(out, c17SectionToks(s)...)
	}
	return
}

// ---------------------------------------------------------------- generators

const c17SafeTail = "abcxyzABZ_0189*+-./\\^!#$%=@"

var c17WordsID = []string{"a", "b", "global", "routing", "fallback", "domain", "dip", "must_direct", "tcp_check_url",
	"_", "x-1", "a.b/c", "k#v", "geo*", "A!b", "a=b@c", "p/*q", "e\\f", "h^", "m$%", "include", "r-"}
var c17WordsNonID = []string{"0", "12345", "224.0.0.0/3", "-500ms", "1.1.1.1", "//LINK", "*.example.com", "+x", ".dae",
	"^re$", "\\d+", "9a!#", "/etc/dae/config.d/*.dae", "-", "0x1f", "../up.dae"}

func c17GenID(t *rapid.T, label string) string {
	if rapid.IntRange(0, 2).Draw(t, label+"_word") > 0 {
		return rapid.SampledFrom(c17WordsID).Draw(t, label+"_w")
	}
	head := rapid.SampledFrom([]string{"a", "z", "A", "Z", "_", "q"}).Draw(t, label+"_h")
	n := rapid.IntRange(0, 6).Draw(t, label+"_n")
	b := []byte(head)
	for i := 0; i < n; i++ {
		b = append(b, c17SafeTail[rapid.IntRange(0, len(c17SafeTail)-1).Draw(t, label+"_c")])
	}
	return string(b)
}

func c17GenNonID(t *rapid.T, label string) string {
	if rapid.IntRange(0, 2).Draw(t, label+"_word") > 0 {
		return rapid.SampledFrom(c17WordsNonID).Draw(t, label+"_w")
	}
	const heads = "0189*+-./\\^"
	b := []byte{heads[rapid.IntRange(0, len(heads)-1).Draw(t, label+"_h")]}
	n := rapid.IntRange(0, 6).Draw(t, label+"_n")
	for i := 0; i < n; i++ {
		b = append(b, c17SafeTail[rapid.IntRange(0, len(c17SafeTail)-1).Draw(t, label+"_c")])
	}
	s := string(b)
	if strings.HasPrefix(s, "/*") {
		// would open a block comment if a "*/" follows anywhere in the file.
		s = "/" + s[2:]
		if strings.HasPrefix(s, "/*") {
			s = "/"
		}
	}
	return s
}

var c17QuotedPieces = []string{"a", "b c", "http://cp.cloudflare.com", "1.1.1.1,2606:4700::1111", "ExpireAt:", "^my_", "é", "中文",
	" ", "#no comment", "/* no comment */", "{", "}", "->", "&&", "!", "[x]", "(", ")", ",", ":", "\n", "\t", "\\n", "\\\\x", "a\\b", "tuic://L -> vmess://L", "\U0001F600"}

func c17GenQuoted(t *rapid.T, label string) c17Lit {
	q := byte('\'')
	other := "\""
	if rapid.Bool().Draw(t, label+"_dq") {
		q, other = '"', "'"
	}
	n := rapid.IntRange(0, 3).Draw(t, label+"_n")
	var sb strings.Builder
	for i := 0; i < n; i++ {
		switch rapid.IntRange(0, 9).Draw(t, label+"_k") {
		case 0:
			sb.WriteString(other) // the other quote character is plain content
		case 1:
			// an escaped quote of the same kind stays in the value verbatim
			sb.WriteString("\\" + string(q))
			sb.WriteString("z")
		default:
			sb.WriteString(rapid.SampledFrom(c17QuotedPieces).Draw(t, label+"_p"))
		}
	}
	v := sb.String()
	// a trailing backslash would escape the closing quote.
	for strings.HasSuffix(v, "\\") {
		v += "_"
	}
	return c17Lit{Val: v, Quote: q}
}

func c17GenLit(t *rapid.T, label string) c17Lit {
	switch rapid.IntRange(0, 3).Draw(t, label+"_kind") {
	case 0:
		return c17Lit{Val: c17GenID(t, label)}
	case 1:
		return c17Lit{Val: c17GenNonID(t, label)}
	default:
		return c17GenQuoted(t, label)
	}
}

func c17GenParams(t *rapid.T, label string, min, max int) []c17Param {
	n := rapid.IntRange(min, max).Draw(t, label+"_np")
	ps := make([]c17Param, 0, n)
	for i := 0; i < n; i++ {
		p := c17Param{Lit: c17GenLit(t, label+"_v")}
		if rapid.IntRange(0, 2).Draw(t, label+"_keyed") == 0 {
			p.Key = c17GenID(t, label+"_k")
		}
		ps = append(ps, p)
	}
	return ps
}

func c17GenFunc(t *rapid.T, label string) c17Func {
	return c17Func{
		Not:    rapid.IntRange(0, 3).Draw(t, label+"_not") == 0,
		Name:   c17GenID(t, label+"_name"),
		Params: c17GenParams(t, label, 1, 4),
	}
}

func c17GenFuncs(t *rapid.T, label string) []c17Func {
	n := rapid.SampledFrom([]int{1, 1, 1, 2, 2, 3, 5}).Draw(t, label+"_nf")
	fs := make([]c17Func, 0, n)
	for i := 0; i < n; i++ {
		fs = append(fs, c17GenFunc(t, label))
	}
	return fs
}

func c17GenAnnot(t *rapid.T) []c17Param {
	if rapid.IntRange(0, 2).Draw(t, "annot") != 0 {
		return nil
	}
	return c17GenParams(t, "annot", 1, 3)
}

func c17GenSection(t *rapid.T, depth int) *c17Section {
	s := &c17Section{Name: c17GenID(t, "secname")}
	n := rapid.IntRange(0, 6).Draw(t, "nitems")
	for i := 0; i < n; i++ {
		kmax := c17ItemSection
		if depth >= 3 {
			kmax = c17ItemRule
		}
		it := c17Item{Kind: rapid.IntRange(0, kmax).Draw(t, "itemkind")}
		switch it.Kind {
		case c17ItemDeclLits:
			it.Key = c17GenID(t, "key")
			nl := rapid.SampledFrom([]int{1, 1, 1, 2, 3}).Draw(t, "nlits")
			for j := 0; j < nl; j++ {
				it.Lits = append(it.Lits, c17GenLit(t, "lit"))
			}
			it.Annot = c17GenAnnot(t)
		case c17ItemDeclFuncs:
			it.Key = c17GenID(t, "key")
			it.Funcs = c17GenFuncs(t, "df")
			it.Annot = c17GenAnnot(t)
		case c17ItemLiteral:
			it.Lits = []c17Lit{c17GenLit(t, "bareitem")}
		case c17ItemRule:
			it.Funcs = c17GenFuncs(t, "rf")
			if rapid.IntRange(0, 2).Draw(t, "outfunc") == 0 {
				it.Outbound = c17GenFunc(t, "out")
				if rapid.IntRange(0, 3).Draw(t, "outnot") != 0 {
					it.Outbound.Not = false
				}
			} else {
				it.OutBare = true
				if rapid.IntRange(0, 3).Draw(t, "outnonid") == 0 {
					it.Outbound.Name = c17GenNonID(t, "out")
				} else {
					it.Outbound.Name = c17GenID(t, "out")
				}
			}
		case c17ItemSection:
			it.Sec = c17GenSection(t, depth+1)
		}
		s.Items = append(s.Items, it)
	}
	return s
}

func c17GenAST(t *rapid.T) []*c17Section {
	n := rapid.IntRange(0, 4).Draw(t, "nsections")
	secs := make([]*c17Section, 0, n)
	for i := 0; i < n; i++ {
		secs = append(secs, c17GenSection(t, 1))
	}
	return secs
}

// ---------------------------------------------------------------- rendering

func c17StartsSafe(tk *c17Tok) bool {
	if tk == nil {
		return false
	}
	return tk.Kind == c17TokBare || tk.Text == "!" || tk.Text == "->"
}

var c17CommentPieces = []string{"x", "comment", " ", "{", "}", "'", "\"", "->", "&&", "a: b", "f(x) -> y", "*", "/", "#", "\t", "é", "[", "(", ")"}

func c17GenCommentBody(t *rapid.T, block bool) string {
	n := rapid.IntRange(0, 4).Draw(t, "cn")
	var sb strings.Builder
	for i := 0; i < n; i++ {
		sb.WriteString(rapid.SampledFrom(c17CommentPieces).Draw(t, "cp"))
		if block && rapid.IntRange(0, 4).Draw(t, "cnl") == 0 {
			sb.WriteString("\n")
		}
	}
	s := sb.String()
	if block {
		s = strings.ReplaceAll(s, "*/", "* /")
	}
	return s
}

const c17WS = " \n\t\r"

func c17GenWS(t *rapid.T) string {
	n := rapid.IntRange(1, 3).Draw(t, "wsn")
	b := make([]byte, n)
	for i := range b {
		b[i] = c17WS[rapid.SampledFrom([]int{0, 0, 0, 1, 1, 2, 3}).Draw(t, "wsc")]
	}
	return string(b)
}

// c17Render joins the tokens with random separators. Whitespace is inserted where
// the lexer needs it: after a bare literal when the next thing starts with a SAFE
// character ('!' and '-' of "->" included) or opens a comment; after a block comment
// whose text is made of SAFE characters only (it would otherwise lex as one NON_ID
// together with what follows).
func c17Render(t *rapid.T, toks []c17Tok, style int) (text string, classes map[string]bool) {
	classes = map[string]bool{}
	var sb strings.Builder
	lastBare := false // last thing written is a bare literal (no separator since)
	for i := 0; i <= len(toks); i++ {
		var next *c17Tok
		if i < len(toks) {
			next = &toks[i]
		}
		npieces := 0
		switch style {
		case 0: // minimal
			npieces = 0
		case 1: // single spaces
			npieces = -1
		default:
			npieces = rapid.SampledFrom([]int{0, 0, 1, 1, 1, 2, 3}).Draw(t, "npieces")
		}
		if npieces == -1 {
			sb.WriteString(" ")
			lastBare = false
		}
		tightBlock := false
		for p := 0; p < npieces; p++ {
			switch rapid.IntRange(0, 5).Draw(t, "piece") {
			case 0, 1, 2:
				sb.WriteString(c17GenWS(t))
				lastBare, tightBlock = false, false
			case 3:
				if lastBare || tightBlock {
					sb.WriteString(c17GenWS(t))
				}
				sb.WriteString("#" + c17GenCommentBody(t, false))
				if next != nil || p < npieces-1 || rapid.Bool().Draw(t, "eofnl") {
					sb.WriteString(rapid.SampledFrom([]string{"\n", "\r\n", "\n\n", "\r"}).Draw(t, "nl"))
				} else {
					classes["comment_at_eof"] = true
				}
				lastBare, tightBlock = false, false
				classes["line_comment"] = true
			default:
				if lastBare || tightBlock {
					sb.WriteString(c17GenWS(t))
				}
				body := c17GenCommentBody(t, true)
				if rapid.IntRange(0, 3).Draw(t, "tight") == 0 {
					// body of SAFE chars only, e.g. /*x*/ : needs whitespace afterwards.
					body = rapid.SampledFrom([]string{"", "x", "a.b", "**", "#"}).Draw(t, "tightbody")
					tightBlock = true
					classes["tight_block_comment"] = true
				} else {
					body = rapid.SampledFrom([]string{" ", "\n", "\t"}).Draw(t, "lead") + body
					tightBlock = false
				}
				sb.WriteString("/*" + body + "*/")
				lastBare = false
				classes["block_comment"] = true
			}
		}
		if next == nil {
			break
		}
		if (lastBare || tightBlock) && c17StartsSafe(next) {
			sb.WriteString(" ")
		}
		if tightBlock && (next.Kind == c17TokPunct && next.Text != "!" && next.Text != "->") {
			// harmless: punctuation ends the NON_ID candidate, the comment wins on rule order.
			classes["tight_block_before_punct"] = true
		}
		sb.WriteString(next.Text)
		lastBare = next.Kind == c17TokBare
	}
	return sb.String(), classes
}

// ---------------------------------------------------------------- dumping (for comparison)

func c17DumpParamsAST(ps []c17Param) string {
	if ps == nil {
		return "nil"
	}
	var sb strings.Builder
	sb.WriteString("[")
	for _, p := range ps {
		fmt.Fprintf(&sb, "(%q=%q)", p.Key, p.Lit.Val)
	}
	sb.WriteString("]")
	return sb.String()
}

func c17DumpFuncAST(f c17Func) string {
	return fmt.Sprintf("F(not=%v %q %s)", f.Not, f.Name, c17DumpParamsAST(f.Params))
}

func c17DumpFuncsAST(fs []c17Func) string {
	var sb strings.Builder
	sb.WriteString("{")
	for _, f := range fs {
		sb.WriteString(c17DumpFuncAST(f))
	}
	sb.WriteString("}")
	return sb.String()
}

func c17DumpSectionAST(sb *strings.Builder, s *c17Section, indent string) {
	fmt.Fprintf(sb, "%sS %q\n", indent, s.Name)
	for _, it := range s.Items {
		switch it.Kind {
		case c17ItemDeclLits:
			vals := make([]string, len(it.Lits))
			for i, l := range it.Lits {
				vals[i] = l.Val
			}
			fmt.Fprintf(sb, "%s P key=%q val=%q funcs=- annot=%s\n", indent, it.Key, strings.Join(vals, ","), c17DumpParamsAST(it.Annot))
		case c17ItemDeclFuncs:
			fmt.Fprintf(sb, "%s P key=%q val=%q funcs=%s annot=%s\n", indent, it.Key, "", c17DumpFuncsAST(it.Funcs), c17DumpParamsAST(it.Annot))
		case c17ItemLiteral:
			fmt.Fprintf(sb, "%s P key=%q val=%q funcs=- annot=nil\n", indent, "", it.Lits[0].Val)
		case c17ItemRule:
			out := it.Outbound
			if it.OutBare {
				out = c17Func{Name: it.Outbound.Name}
			}
			ob := c17DumpFuncAST(out)
			if it.OutBare {
				ob = fmt.Sprintf("F(not=false %q nil)", out.Name)
			}
			fmt.Fprintf(sb, "%s R %s -> %s\n", indent, c17DumpFuncsAST(it.Funcs), ob)
		case c17ItemSection:
			c17DumpSectionAST(sb, it.Sec, indent+"  ")
		}
	}
}

func c17DumpAST(secs []*c17Section) string {
	var sb strings.Builder
	for _, s := range secs {
		c17DumpSectionAST(&sb, s, "")
	}
	return sb.String()
}

func c17DumpParams(ps []*Param) string {
	if ps == nil {
		return "nil"
	}
	var sb strings.Builder
	sb.WriteString("[")
	for _, p := range ps {
		if p == nil {
			sb.WriteString("(<nil>)")
			continue
		}
		fmt.Fprintf(&sb, "(%q=%q)", p.Key, p.Val)
		if p.AndFunctions != nil || p.Annotation != nil {
			sb.WriteString("<unexpected nested content>")
		}
	}
	sb.WriteString("]")
	return sb.String()
}

func c17DumpFunc(f *Function) string {
	if f == nil {
		return "F(<nil>)"
	}
	return fmt.Sprintf("F(not=%v %q %s)", f.Not, f.Name, c17DumpParams(f.Params))
}

func c17DumpFuncs(fs []*Function) string {
	var sb strings.Builder
	sb.WriteString("{")
	for _, f := range fs {
		sb.WriteString(c17DumpFunc(f))
	}
	sb.WriteString("}")
	return sb.String()
}

func c17DumpSection(sb *strings.Builder, s *Section, indent string) {
	if s == nil {
		sb.WriteString(indent + "S <nil>\n")
		return
	}
	fmt.Fprintf(sb, "%sS %q\n", indent, s.Name)
	for _, it := range s.Items {
		if it == nil {
			sb.WriteString(indent + " <nil item>\n")
			continue
		}
		switch v := it.Value.(type) {
		case *Param:
			if it.Type != ItemType_Param {
				fmt.Fprintf(sb, "%s <type tag %v on *Param>\n", indent, it.Type)
			}
			fs := "-"
			if v.AndFunctions != nil {
				fs = c17DumpFuncs(v.AndFunctions)
			}
			fmt.Fprintf(sb, "%s P key=%q val=%q funcs=%s annot=%s\n", indent, v.Key, v.Val, fs, c17DumpParams(v.Annotation))
		case *RoutingRule:
			if it.Type != ItemType_RoutingRule {
				fmt.Fprintf(sb, "%s <type tag %v on *RoutingRule>\n", indent, it.Type)
			}
			fmt.Fprintf(sb, "%s R %s -> %s\n", indent, c17DumpFuncs(v.AndFunctions), c17DumpFunc(&v.Outbound))
		case *Section:
			if it.Type != ItemType_Section {
				fmt.Fprintf(sb, "%s <type tag %v on *Section>\n", indent, it.Type)
			}
			c17DumpSection(sb, v, indent+"  ")
		default:
			fmt.Fprintf(sb, "%s <unknown item %T>\n", indent, it.Value)
		}
	}
}

func c17Dump(secs []*Section) string {
	var sb strings.Builder
	for _, s := range secs {
		c17DumpSection(&sb, s, "")
	}
	return sb.String()
}

// c17Flatten lists every name/key/value of a parse result in source order.
func c17FlattenParams(out *[]string, ps []*Param) {
	for _, p := range ps {
		if p.Key != "" {
			*out = append(*out, p.Key)
		}
		*out = append(*out, p.Val)
	}
}

func c17FlattenFuncs(out *[]string, nots *int, fs []*Function) {
	for _, f := range fs {
		if f.Not {
			*nots++
		}
		*out = append(*out, f.Name)
		c17FlattenParams(out, f.Params)
	}
}

func c17FlattenSection(out *[]string, nots *int, s *Section) {
	*out = append(*out, s.Name)
	for _, it := range s.Items {
		switch v := it.Value.(type) {
		case *Param:
			if v.Key != "" {
				*out = append(*out, v.Key)
			}
			if v.AndFunctions != nil {
				c17FlattenFuncs(out, nots, v.AndFunctions)
			} else {
				*out = append(*out, v.Val)
			}
			c17FlattenParams(out, v.Annotation)
		case *RoutingRule:
			c17FlattenFuncs(out, nots, v.AndFunctions)
			c17FlattenFuncs(out, nots, []*Function{&v.Outbound})
		case *Section:
			c17FlattenSection(out, nots, v)
		}
	}
}

// ---------------------------------------------------------------- guarded Parse

type c17Outcome struct {
	Sections []*Section
	Err      error
	Panic    any
	Stack    string
}

// c17CompactStack keeps "function file:line" of the frames below the panic, without
// argument values and pc offsets: the failure message must be identical when rapid
// re-runs a case, otherwise it does not shrink.
func c17CompactStack(st string) string {
	lines := strings.Split(st, "\n")
	var sb strings.Builder
	seenPanic := false
	n := 0
	for i := 0; i+1 < len(lines) && n < 14; i++ {
		fn, loc := lines[i], lines[i+1]
		if !strings.HasPrefix(loc, "\t") || strings.HasPrefix(fn, "\t") {
			continue
		}
		if strings.HasPrefix(fn, "panic(") {
			seenPanic = true
			continue
		}
		if !seenPanic || strings.HasPrefix(fn, "runtime.") {
			continue
		}
		if k := strings.LastIndex(fn, "("); k > 0 {
			fn = fn[:k]
		}
		loc = strings.TrimSpace(loc)
		if k := strings.Index(loc, " +0x"); k > 0 {
			loc = loc[:k]
		}
		if !strings.Contains(fn, "/dae/pkg/config_parser.") {
			continue
		}
		fmt.Fprintf(&sb, "  %s %s\n", fn, loc)
		n++
		if strings.HasSuffix(fn, "config_parser.Parse") {
			break
		}
	}
	return sb.String()
}

func c17Parse(in string) (o c17Outcome) {
	defer func() {
		if r := recover(); r != nil {
			o.Panic = r
			o.Stack = c17CompactStack(string(debug.Stack()))
		}
	}()
	o.Sections, o.Err = Parse(in)
	return
}

// c17SynListener counts the syntax errors the generated lexer/parser report.
type c17SynListener struct {
	*antlr.DefaultErrorListener
	n int
}

func (l *c17SynListener) SyntaxError(antlr.Recognizer, any, int, int, string, antlr.RecognitionException) {
	l.n++
}

// c17HasSyntaxError runs the generated lexer and parser alone (no Walker) and tells
// whether they reported a syntax error. It is the reference for "this text is not in
// the grammar" and does not involve the code under test (walker.go, error.go).
func c17HasSyntaxError(in string) (syn bool, probePanic any) {
	defer func() {
		if r := recover(); r != nil {
			probePanic = r
		}
	}()
	l := &c17SynListener{DefaultErrorListener: antlr.NewDefaultErrorListener()}
	lexer := dae_config.Newdae_configLexer(antlr.NewInputStream(in))
	lexer.RemoveErrorListeners()
	lexer.AddErrorListener(l)
	parser := dae_config.Newdae_configParser(antlr.NewCommonTokenStream(lexer, 0))
	parser.RemoveErrorListeners()
	parser.AddErrorListener(l)
	parser.BuildParseTrees = true
	parser.Start()
	return l.n > 0, nil
}

const c17FSyn = "F-C17-1" // a syntax error after the first section makes the Walker panic

// c17IsF7 recognises the signature of finding F7: a text without any syntax error
// whose outbound function has no parameters; nil dereference in (*Walker).parseRoutingRule.
func c17IsF7(o c17Outcome, syn bool) bool {
	if o.Panic == nil || syn {
		return false
	}
	msg := fmt.Sprint(o.Panic)
	return strings.Contains(msg, "nil pointer dereference") && strings.Contains(o.Stack, "(*Walker).parseRoutingRule")
}

// c17IsFSyn recognises finding F-C17-1: the parser reported a syntax error and the
// Walker then panicked on the error-recovered tree instead of Parse returning the error.
func c17IsFSyn(o c17Outcome, syn bool) bool {
	return o.Panic != nil && syn && strings.Contains(o.Stack, "config_parser.(*Walker).")
}

// c17Judge applies the totality oracle to one input. It returns excluded != "" when
// the outcome is a listed known finding.
func c17Judge(in string, o c17Outcome) (excluded string, failure string) {
	syn, pp := c17HasSyntaxError(in)
	if pp != nil {
		// the generated parser itself blew up; Parse cannot do better, but must not panic either.
		if o.Panic != nil {
			return "", fmt.Sprintf("Parse panicked (so did the bare ANTLR parser: %v): %v\n%s", pp, o.Panic, o.Stack)
		}
		return "", ""
	}
	if o.Panic != nil {
		if vkKnown(c17FSyn) && c17IsFSyn(o, syn) {
			return c17FSyn, ""
		}
		if vkKnown("F7") && c17IsF7(o, syn) {
			return "F7", ""
		}
		return "", fmt.Sprintf("Parse panicked (syntax error reported by the grammar: %v): %v\n%s", syn, o.Panic, o.Stack)
	}
	if o.Err != nil {
		if o.Err.Error() == "" {
			return "", "Parse returned an error with an empty message"
		}
		if o.Sections != nil {
			return "", "Parse returned both sections and an error"
		}
		return "", ""
	}
	if syn {
		return "", "Parse accepted a text in which the grammar reports a syntax error"
	}
	return "", ""
}

// c17HasF7Shape: "->" followed by an outbound function with an empty parameter list.
func c17HasF7Shape(toks []c17Tok) bool {
	for i := 0; i < len(toks); i++ {
		if toks[i].Text != "->" || toks[i].Kind != c17TokPunct {
			continue
		}
		j := i + 1
		if j < len(toks) && toks[j].Kind == c17TokPunct && toks[j].Text == "!" {
			j++
		}
		if j+2 < len(toks) && toks[j].Kind == c17TokBare && toks[j+1].Text == "(" && toks[j+1].Kind == c17TokPunct &&
			toks[j+2].Text == ")" && toks[j+2].Kind == c17TokPunct {
			return true
		}
	}
	return false
}

// c17FixF7Shape gives every outbound function with an empty parameter list one parameter.
func c17FixF7Shape(toks []c17Tok) []c17Tok {
	out := make([]c17Tok, 0, len(toks)+2)
	for i := 0; i < len(toks); i++ {
		out = append(out, toks[i])
		if toks[i].Kind == c17TokPunct && toks[i].Text == "(" && i+1 < len(toks) && toks[i+1].Kind == c17TokPunct && toks[i+1].Text == ")" {
			j := i - 2 // token before the function name
			if j >= 0 && toks[j].Kind == c17TokPunct && toks[j].Text == "!" {
				j--
			}
			if j >= 0 && toks[j].Kind == c17TokPunct && toks[j].Text == "->" && toks[i-1].Kind == c17TokBare {
				out = append(out, c17Bare("x"))
			}
		}
	}
	return out
}

func c17Short(s string) string {
	if len(s) > 1500 {
		return s[:1500] + "…"
	}
	return s
}

// ---------------------------------------------------------------- (a) round trip

func c17CountAST(secs []*c17Section) (rules, nested, items int, cl map[string]bool) {
	cl = map[string]bool{}
	var walk func(s *c17Section, depth int)
	lit := func(l c17Lit) {
		switch l.Quote {
		case '\'':
			cl["single_quoted"] = true
		case '"':
			cl["double_quoted"] = true
		}
		if l.Quote != 0 && strings.Contains(l.Val, "\\"+string(l.Quote)) {
			cl["escaped_quote"] = true
		}
		if l.Quote != 0 && strings.Contains(l.Val, "\n") {
			cl["newline_in_string"] = true
		}
		if l.Quote != 0 && l.Val == "" {
			cl["empty_string"] = true
		}
	}
	params := func(ps []c17Param) {
		for _, p := range ps {
			lit(p.Lit)
			if p.Key != "" {
				cl["keyed_param"] = true
			}
		}
	}
	funcs := func(fs []c17Func) {
		if len(fs) > 1 {
			cl["and_chain"] = true
		}
		for _, f := range fs {
			if f.Not {
				cl["negation"] = true
			}
			params(f.Params)
		}
	}
	walk = func(s *c17Section, depth int) {
		if depth > 1 {
			nested++
		}
		if depth >= 3 {
			cl["depth3"] = true
		}
		if len(s.Items) == 0 {
			cl["empty_section"] = true
		}
		for _, it := range s.Items {
			items++
			switch it.Kind {
			case c17ItemDeclLits:
				if len(it.Lits) > 1 {
					cl["literal_list"] = true
				}
				for _, l := range it.Lits {
					lit(l)
				}
			case c17ItemDeclFuncs:
				cl["decl_funcs"] = true
				funcs(it.Funcs)
			case c17ItemLiteral:
				cl["bare_item"] = true
				lit(it.Lits[0])
			case c17ItemRule:
				rules++
				funcs(it.Funcs)
				if it.OutBare {
					cl["outbound_bare"] = true
				} else {
					cl["outbound_func"] = true
					params(it.Outbound.Params)
					if it.Outbound.Not {
						cl["outbound_not"] = true
					}
				}
			case c17ItemSection:
				walk(it.Sec, depth+1)
			}
			if it.Annot != nil {
				cl["annotation"] = true
				params(it.Annot)
			}
		}
	}
	for _, s := range secs {
		walk(s, 1)
	}
	return
}

func c17Classes(m map[string]bool, more map[string]bool) []string {
	out := []string{}
	for k := range m {
		out = append(out, k)
	}
	for k := range more {
		if !m[k] {
			out = append(out, k)
		}
	}
	return out
}

func TestC17_RoundTrip(t *testing.T) {
	rapid.Check(t, func(t *rapid.T) {
		ast := c17GenAST(t)
		toks := c17ASTToks(ast)
		style := rapid.SampledFrom([]int{0, 1, 2, 2, 2, 2}).Draw(t, "style")
		text, rcl := c17Render(t, toks, style)
		o := c17Parse(text)
		if o.Panic != nil {
			t.Fatalf("Parse panicked on a valid text: %v\ninput: %q\n%s", o.Panic, c17Short(text), o.Stack)
		}
		if o.Err != nil {
			t.Fatalf("Parse rejected a valid text: %v\ninput: %q", o.Err, c17Short(text))
		}
		want := c17DumpAST(ast)
		got := c17Dump(o.Sections)
		if got != want {
			t.Fatalf("parse result differs from what is written\ninput: %q\n--- want\n%s--- got\n%s", c17Short(text), want, got)
		}
		rules, nested, items, cl := c17CountAST(ast)
		cl[fmt.Sprintf("style_%d", style)] = true
		key := ""
		if rules >= 1 && nested >= 1 {
			key = text
		}
		if items == 0 {
			cl["no_items"] = true
		}
		vkCase("C17.roundtrip", key, func() any { return map[string]any{"text": c17Short(text)} }, c17Classes(cl, rcl)...)
	})
}

// ---------------------------------------------------------------- (b) near misses

var c17PunctAll = []string{",", "{", "}", ":", "[", "]", "!", "(", ")", "->", "&&"}

func c17Mutate(t *rapid.T, toks []c17Tok) ([]c17Tok, []string) {
	out := append([]c17Tok(nil), toks...)
	var ops []string
	n := rapid.IntRange(1, 3).Draw(t, "nmut")
	for m := 0; m < n; m++ {
		if len(out) == 0 {
			out = append(out, c17P(rapid.SampledFrom(c17PunctAll).Draw(t, "lonely")))
			ops = append(ops, "lonely")
			continue
		}
		i := rapid.IntRange(0, len(out)-1).Draw(t, "at")
		op := rapid.SampledFrom([]string{"delete", "delete", "dup", "swap", "swapfar", "punct", "insertpunct", "emptyparams",
			"emptyannot", "arrownothing", "truncate", "unclosed_quote", "dropclose", "lit2punct", "garbage"}).Draw(t, "op")
		ops = append(ops, op)
		switch op {
		case "delete":
			out = append(out[:i], out[i+1:]...)
		case "dup":
			out = append(out[:i+1], append([]c17Tok{out[i]}, out[i+1:]...)...)
		case "swap":
			if i+1 < len(out) {
				out[i], out[i+1] = out[i+1], out[i]
			}
		case "swapfar":
			j := rapid.IntRange(0, len(out)-1).Draw(t, "with")
			out[i], out[j] = out[j], out[i]
		case "punct":
			out[i] = c17P(rapid.SampledFrom(c17PunctAll).Draw(t, "p"))
		case "insertpunct":
			out = append(out[:i+1], append([]c17Tok{c17P(rapid.SampledFrom(c17PunctAll).Draw(t, "p"))}, out[i+1:]...)...)
		case "emptyparams":
			// empty the first parameter list at or after i
			for k := i; k < len(out); k++ {
				if out[k].Kind == c17TokPunct && out[k].Text == "(" {
					e := k + 1
					for e < len(out) && !(out[e].Kind == c17TokPunct && out[e].Text == ")") {
						e++
					}
					if e < len(out) {
						out = append(out[:k+1], out[e:]...)
					}
					break
				}
			}
		case "emptyannot":
			for k := i; k < len(out); k++ {
				if out[k].Kind == c17TokPunct && out[k].Text == "[" {
					e := k + 1
					for e < len(out) && !(out[e].Kind == c17TokPunct && out[e].Text == "]") {
						e++
					}
					if e < len(out) {
						out = append(out[:k+1], out[e:]...)
					}
					break
				}
			}
		case "arrownothing":
			// remove what follows the first "->" at or after i (one token)
			for k := i; k < len(out); k++ {
				if out[k].Kind == c17TokPunct && out[k].Text == "->" && k+1 < len(out) {
					out = append(out[:k+1], out[k+2:]...)
					break
				}
			}
		case "truncate":
			out = out[:i]
		case "unclosed_quote":
			out[i] = c17Tok{Text: rapid.SampledFrom([]string{"'", "\"", "'abc", "\"abc\\\""}).Draw(t, "uq"), Kind: c17TokPunct}
		case "dropclose":
			for k := len(out) - 1; k >= 0; k-- {
				if out[k].Kind == c17TokPunct && (out[k].Text == "}" || out[k].Text == ")" || out[k].Text == "]") {
					out = append(out[:k], out[k+1:]...)
					break
				}
			}
		case "lit2punct":
			for k := i; k < len(out); k++ {
				if out[k].Kind != c17TokPunct {
					out[k] = c17P(rapid.SampledFrom(c17PunctAll).Draw(t, "p"))
					break
				}
			}
		case "garbage":
			out[i] = c17Tok{Text: rapid.SampledFrom([]string{">", "&", "|", ";", "~", "`", "<", "?", "\x00", "\xff", "-", "/*", "*/", "\\"}).Draw(t, "g"), Kind: c17TokPunct}
		}
	}
	return out, ops
}

func c17JoinSpaces(toks []c17Tok) string {
	parts := make([]string, len(toks))
	for i, tk := range toks {
		parts[i] = tk.Text
	}
	return strings.Join(parts, " ")
}

// c17Clean: the token list still consists of well-formed tokens only (so the lexer
// sees exactly these tokens when they are joined by single spaces).
func c17Clean(ops []string) bool {
	for _, op := range ops {
		if op == "unclosed_quote" || op == "garbage" {
			return false
		}
	}
	return true
}

func TestC17_NearMiss(t *testing.T) {
	known := vkKnown("F7")
	rapid.Check(t, func(t *rapid.T) {
		ast := c17GenAST(t)
		base := c17ASTToks(ast)
		toks, ops := c17Mutate(t, base)
		if known && c17HasF7Shape(toks) {
			// known finding F7: steer away from exactly that shape (the outbound gets a parameter).
			vkExcluded("C17.nearmiss", "F7")
			toks = c17FixF7Shape(toks)
		}
		var text string
		clean := c17Clean(ops)
		if clean && rapid.IntRange(0, 3).Draw(t, "fancy") == 0 {
			text, _ = c17Render(t, toks, 2)
		} else {
			text = c17JoinSpaces(toks)
		}
		o := c17Parse(text)
		if ex, fail := c17Judge(text, o); fail != "" {
			t.Fatalf("%s\ninput: %q", fail, c17Short(text))
		} else if ex != "" {
			vkExcluded("C17.nearmiss", ex)
			vkClass("C17.nearmiss", "excluded_"+ex)
			return
		}
		cl := []string{}
		for _, op := range ops {
			cl = append(cl, "op_"+op)
		}
		if o.Err == nil {
			cl = append(cl, "accepted")
			if clean {
				// accepted text: everything written must be in the result, in order.
				var want []string
				wantNots := 0
				for _, tk := range toks {
					if tk.Kind != c17TokPunct {
						want = append(want, tk.Val)
					} else if tk.Text == "!" {
						wantNots++
					}
				}
				var got []string
				gotNots := 0
				for _, s := range o.Sections {
					c17FlattenSection(&got, &gotNots, s)
				}
				if strings.Join(got, ",") != strings.Join(want, ",") || gotNots != wantNots {
					t.Fatalf("accepted text lost or reordered content\ninput: %q\nwritten: %q (%d negations)\nparsed:  %q (%d negations)\n%s",
						c17Short(text), want, wantNots, got, gotNots, c17Dump(o.Sections))
				}
			}
		} else {
			cl = append(cl, "rejected")
		}
		key := ""
		if len(toks) >= 5 {
			key = text
		}
		vkCase("C17.nearmiss", key, func() any {
			e := ""
			if o.Err != nil {
				e = c17Short(o.Err.Error())
			}
			return map[string]any{"text": c17Short(text), "ops": ops, "err": e}
		}, cl...)
	})
}

// ---------------------------------------------------------------- finding F7

func TestC17_Finding_F7(t *testing.T) {
	inputs := []struct{ in, outbound string }{
		{"routing{ a(b) -> c() }", "c"},
		{"routing { domain(x) -> !cc() }", "cc"},
		{"dns { routing { request { qname(a) && qtype(b) -> up(  ) fallback: asis } } }", "up"},
	}
	if vkKnown("F7") {
		o := c17Parse(inputs[0].in)
		if syn, _ := c17HasSyntaxError(inputs[0].in); c17IsF7(o, syn) {
			vkKnownReproduced("F7")
			t.Logf("F7 still reproduces: %v", o.Panic)
		} else {
			t.Logf("F7 is listed as known but no longer reproduces (panic=%v err=%v)", o.Panic, o.Err)
		}
		return
	}
	for _, c := range inputs {
		o := c17Parse(c.in)
		if o.Panic != nil {
			t.Fatalf("F7: Parse(%q) panicked: %v\n%s", c.in, o.Panic, o.Stack)
		}
		// an outbound function without parameters may be accepted or rejected, but cleanly.
		if o.Err != nil {
			if o.Err.Error() == "" || o.Sections != nil {
				t.Fatalf("F7: Parse(%q): unclean error (%q, sections=%v)", c.in, o.Err, o.Sections)
			}
			continue
		}
		var got []string
		n := 0
		for _, s := range o.Sections {
			c17FlattenSection(&got, &n, s)
		}
		found := false
		for _, g := range got {
			found = found || g == c.outbound
		}
		if !found {
			t.Fatalf("F7: Parse(%q) accepted the text but lost the outbound: %q", c.in, got)
		}
	}
	vkCase("C17.findings", "F7", func() any { return inputs[0].in })
}

// Finding F-C17-1: the Walker runs over the error-recovered parse tree; a syntax error
// in any section after the first one makes it panic (positional child access and type
// assertions), so Parse crashes instead of returning the syntax error.
func TestC17_Finding_FC171(t *testing.T) {
	inputs := []string{
		"a{} b",
		"global{} routing{ a(b) -> }",
		"global{} routing{ a(b, ) -> c }",
		"global { } routing { fallback: x [ , y ] }",
		"A { } a } {",
		"global{} routing { pname(NetworkManager) -> direct\n dip(224.0.0.0/3, 'ff00::/8' -> direct\n fallback: my_group }",
	}
	if vkKnown(c17FSyn) {
		n := 0
		for _, in := range inputs {
			o := c17Parse(in)
			syn, _ := c17HasSyntaxError(in)
			if c17IsFSyn(o, syn) {
				n++
			}
		}
		if n > 0 {
			vkKnownReproduced(c17FSyn)
			t.Logf("%s still reproduces on %d of %d inputs", c17FSyn, n, len(inputs))
		} else {
			t.Logf("%s is listed as known but no longer reproduces", c17FSyn)
		}
		return
	}
	for _, in := range inputs {
		o := c17Parse(in)
		if o.Panic != nil {
			t.Fatalf("%s: Parse(%q) panicked: %v\n%s", c17FSyn, in, o.Panic, o.Stack)
		}
		if o.Err == nil || o.Err.Error() == "" || o.Sections != nil {
			t.Fatalf("%s: Parse(%q) must return a plain error, got sections=%v err=%v", c17FSyn, in, o.Sections, o.Err)
		}
	}
	vkCase("C17.findings", c17FSyn, func() any { return inputs[0] })
}

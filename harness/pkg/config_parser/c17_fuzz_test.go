package config_parser

// C17 (b) totality on raw bytes: native Go fuzzing (thorough tier only). Seed corpus:
// testdata/fuzz/FuzzC17_Parse (example.dae, the docs samples, near-misses).

import (
	"fmt"
	"os"
	"path/filepath"
	"strconv"
	"strings"
	"sync/atomic"
	"testing"
)

var c17FuzzExecs atomic.Int64

// Every fuzz worker is its own process; the kit's counters of the coordinating process
// never see the executions. Workers therefore leave their count in the run directory
// and the coordinator folds the counts after f.Fuzz returns.
func c17FuzzCountFile() string {
	d := os.Getenv("VERIF_RUNDIR")
	if d == "" {
		return ""
	}
	return filepath.Join(d, fmt.Sprintf("c17fuzz.%d.cnt", os.Getpid()))
}

func c17FuzzTick() {
	n := c17FuzzExecs.Add(1)
	if n%50 == 0 || n <= 50 {
		if p := c17FuzzCountFile(); p != "" {
			_ = os.WriteFile(p, []byte(strconv.FormatInt(n, 10)), 0o644)
		}
	}
}

func FuzzC17_Parse(f *testing.F) {
	f.Add([]byte(""))
	f.Add([]byte("global{}routing{}"))
	f.Add([]byte("routing{ a(b) -> c(d) }"))
	f.Add([]byte("g { k: f(a, k: 'v') && !g(x) [n: -1] 'lit' s { } }"))
	f.Fuzz(func(t *testing.T, data []byte) {
		c17FuzzTick()
		in := string(data)
		o := c17Parse(in)
		ex, fail := c17Judge(in, o)
		if fail != "" {
			t.Fatalf("%s\ninput: %q", fail, in)
		}
		if ex != "" {
			t.Skip("known finding " + ex)
		}
		if o.Err != nil {
			return
		}
		// accepted: the result must survive being dumped (no nil nodes inside).
		d := c17Dump(o.Sections)
		if strings.Contains(d, "<nil") || strings.Contains(d, "<unknown") || strings.Contains(d, "<type tag") {
			t.Fatalf("accepted text produced a malformed tree\ninput: %q\n%s", in, d)
		}
	})
	// coordinator (or plain seed-corpus run): fold the workers' counts into the evidence.
	d := os.Getenv("VERIF_RUNDIR")
	if d == "" {
		return
	}
	for _, a := range os.Args {
		if strings.HasPrefix(a, "-test.fuzzworker") {
			return
		}
	}
	files, _ := filepath.Glob(filepath.Join(d, "c17fuzz.*.cnt"))
	var total int64
	for _, fn := range files {
		if b, err := os.ReadFile(fn); err == nil {
			if n, err := strconv.ParseInt(strings.TrimSpace(string(b)), 10, 64); err == nil {
				total += n
			}
		}
	}
	if total > 0 {
		vkNote("C17.fuzz", "native fuzzing: about %d executions over %d worker processes", total, len(files))
		if total > 5_000_000 {
			total = 5_000_000
		}
		for i := int64(0); i < total; i++ {
			vkCase("C17.fuzz", "", nil)
		}
	}
}

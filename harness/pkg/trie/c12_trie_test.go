package trie

// C12 — address sets match by CIDR containment (userspace half).
//
//   - TestC12_Trie: generated prefix sets (nested chains, siblings, duplicates,
//     non-canonical host bits, /0, host routes, v4 + v6 + v4-mapped literals) through
//     NewTrieFromPrefixes / HasPrefix / Prefix2bin128, probed with the first and last
//     address inside and the neighbours just outside every prefix (plus random ones),
//     against netip.Prefix.Contains evaluated in the 128-bit (IPv4-mapped) space.
//   - TestC12_TrieStrings: NewTrie/HasPrefix over arbitrary alphabets against a
//     map-based prefix set (the rank/select machinery C11 and C12 both stand on).
//   - TestC12_Finding_F2: `::/0` (see /verif/DESIGN.md §4 F2).

import (
	"fmt"
	"math/bits"
	"net/netip"
	"sort"
	"strings"
	"testing"

	"pgregory.net/rapid"
)

// ---------------------------------------------------------------- reference model

// c12Bits128 is the prefix length in the 128-bit space (IPv4 offset by 96).
func c12Bits128(p netip.Prefix) int {
	n := p.Bits()
	if p.Addr().Is4() {
		n += 96
	}
	return n
}

// c12As6 re-expresses a prefix in the IPv4-mapped 128-bit space, masked.
func c12As6(p netip.Prefix) netip.Prefix {
	return netip.PrefixFrom(netip.AddrFrom16(p.Addr().As16()), c12Bits128(p)).Masked()
}

func c12BitAt(a [16]byte, i int) byte { return (a[i/8] >> (7 - uint(i%8))) & 1 }

// c12Contains: the statement, literally — "some prefix contains the address, with
// IPv4 treated as IPv4-mapped IPv6". Primary oracle is netip.Prefix.Contains in the
// 128-bit space; a hand-written bit comparison cross-checks the harness itself.
func c12Contains(p netip.Prefix, a netip.Addr) bool {
	a16 := a.As16()
	want := c12As6(p).Contains(netip.AddrFrom16(a16))
	n := c12Bits128(p)
	p16 := p.Addr().As16()
	manual := true
	for i := 0; i < n; i++ {
		if c12BitAt(p16, i) != c12BitAt(a16, i) {
			manual = false
			break
		}
	}
	if manual != want {
		panic(fmt.Sprintf("c12 harness bug: oracle disagreement for %v / %v: netip=%v manual=%v", p, a, want, manual))
	}
	return want
}

func c12SetContains(set []netip.Prefix, a netip.Addr) bool {
	for _, p := range set {
		if c12Contains(p, a) {
			return true
		}
	}
	return false
}

// c12RefBin is the leading bit string of a prefix in the 128-bit space.
func c12RefBin(p netip.Prefix) string {
	n := c12Bits128(p)
	a := p.Addr().As16()
	var sb strings.Builder
	for i := 0; i < n; i++ {
		sb.WriteByte('0' + c12BitAt(a, i))
	}
	return sb.String()
}

// ---------------------------------------------------------------- 128-bit helpers

func c12Inc(a [16]byte) (r [16]byte, overflow bool) {
	r = a
	for i := 15; i >= 0; i-- {
		r[i]++
		if r[i] != 0 {
			return r, false
		}
	}
	return r, true
}

func c12Dec(a [16]byte) (r [16]byte, underflow bool) {
	r = a
	for i := 15; i >= 0; i-- {
		r[i]--
		if r[i] != 0xff {
			return r, false
		}
	}
	return r, true
}

// c12Range returns the first and last address of the prefix in the 128-bit space.
func c12Range(p netip.Prefix) (first, last [16]byte) {
	n := c12Bits128(p)
	a := p.Addr().As16()
	for i := 0; i < 128; i++ {
		bit := c12BitAt(a, i)
		if i >= n {
			bit = 0
		}
		first[i/8] |= bit << (7 - uint(i%8))
		if i >= n {
			bit = 1
		}
		last[i/8] |= bit << (7 - uint(i%8))
	}
	return
}

// ---------------------------------------------------------------- generators

var c12SpecialBases = [][16]byte{
	{}, // ::
	{0xff, 0xff, 0xff, 0xff, 0xff, 0xff, 0xff, 0xff, 0xff, 0xff, 0xff, 0xff, 0xff, 0xff, 0xff, 0xff},
	{0, 0, 0, 0, 0, 0, 0, 0, 0, 0, 0xff, 0xff, 0, 0, 0, 0},             // ::ffff:0.0.0.0
	{0, 0, 0, 0, 0, 0, 0, 0, 0, 0, 0xff, 0xff, 0xff, 0xff, 0xff, 0xff}, // ::ffff:255.255.255.255
	{0, 0, 0, 0, 0, 0, 0, 0, 0, 0, 0xff, 0xfe, 0xff, 0xff, 0xff, 0xff}, // just below the mapped range
	{0, 0, 0, 0, 0, 0, 0, 0, 0, 1, 0, 0, 0, 0, 0, 0},                   // just above the mapped range
	{0x80},
	{0x7f, 0xff, 0xff, 0xff, 0xff, 0xff, 0xff, 0xff, 0xff, 0xff, 0xff, 0xff, 0xff, 0xff, 0xff, 0xff},
	{0, 0, 0, 0, 0, 0, 0, 0, 0, 0, 0xff, 0xff, 127, 0, 0, 1},
	{0, 0, 0, 0, 0, 0, 0, 0, 0, 0, 0xff, 0xff, 128, 0, 0, 0},
	{0x20, 0x01, 0x0d, 0xb8},
	{0, 0, 0, 0, 0, 0, 0, 0, 0, 0, 0, 0, 0, 0, 0, 1}, // ::1
}

var c12Len4 = []int{0, 1, 2, 7, 8, 9, 15, 16, 17, 23, 24, 25, 30, 31, 32}
var c12Len6 = []int{0, 1, 2, 7, 8, 9, 31, 32, 33, 63, 64, 65, 79, 80, 81, 95, 96, 97, 98, 103, 104, 120, 126, 127, 128}

type c12Gen struct {
	bases [][16]byte // per-case pool: prefixes share leading bits → nesting/siblings
	noV60 bool       // steer away from v6 /0 (finding F2 listed as known)
	exclN int
}

func c12NewGen(t *rapid.T, noV60 bool) *c12Gen {
	g := &c12Gen{noV60: noV60}
	n := rapid.IntRange(1, 3).Draw(t, "nbases")
	for i := 0; i < n; i++ {
		var b [16]byte
		if rapid.IntRange(0, 2).Draw(t, "basekind") == 0 {
			b = rapid.SampledFrom(c12SpecialBases).Draw(t, "special")
		} else {
			raw := rapid.SliceOfN(rapid.Byte(), 16, 16).Draw(t, "rawbase")
			copy(b[:], raw)
			if rapid.Bool().Draw(t, "mapped") {
				copy(b[:12], []byte{0, 0, 0, 0, 0, 0, 0, 0, 0, 0, 0xff, 0xff})
			}
		}
		g.bases = append(g.bases, b)
	}
	return g
}

// addr draws an address near the pool: a base, optionally with the tail from a
// drawn bit on re-randomised or one bit flipped (siblings).
func (g *c12Gen) addr(t *rapid.T) [16]byte {
	b := rapid.SampledFrom(g.bases).Draw(t, "base")
	switch rapid.IntRange(0, 3).Draw(t, "vary") {
	case 1:
		i := rapid.IntRange(0, 127).Draw(t, "flipbit")
		b[i/8] ^= 1 << (7 - uint(i%8))
	case 2:
		from := rapid.IntRange(0, 127).Draw(t, "tailfrom")
		tail := rapid.SliceOfN(rapid.Byte(), 16, 16).Draw(t, "tail")
		for i := from; i < 128; i++ {
			bit := (tail[i/8] >> (7 - uint(i%8))) & 1
			b[i/8] = b[i/8]&^(1<<(7-uint(i%8))) | bit<<(7-uint(i%8))
		}
	}
	return b
}

func c12Is4In6(b [16]byte) bool {
	for i := 0; i < 10; i++ {
		if b[i] != 0 {
			return false
		}
	}
	return b[10] == 0xff && b[11] == 0xff
}

// prefix draws one prefix. kind: v4 / v6 / v4-mapped literal given as IPv6.
func (g *c12Gen) prefix(t *rapid.T) netip.Prefix {
	b := g.addr(t)
	kind := rapid.IntRange(0, 9).Draw(t, "family")
	var p netip.Prefix
	switch {
	case kind < 4: // IPv4
		var a4 [4]byte
		copy(a4[:], b[12:])
		n := 0
		if rapid.IntRange(0, 3).Draw(t, "edgelen") > 0 {
			n = rapid.SampledFrom(c12Len4).Draw(t, "len4")
		} else {
			n = rapid.IntRange(0, 32).Draw(t, "len4u")
		}
		p = netip.PrefixFrom(netip.AddrFrom4(a4), n)
	case kind < 6: // v4-mapped literal written as IPv6 (::ffff:a.b.c.d/n)
		copy(b[:12], []byte{0, 0, 0, 0, 0, 0, 0, 0, 0, 0, 0xff, 0xff})
		n := rapid.SampledFrom([]int{95, 96, 97, 100, 104, 120, 127, 128, 80, 64}).Draw(t, "lenmapped")
		p = netip.PrefixFrom(netip.AddrFrom16(b), n)
	default:
		n := 0
		if rapid.IntRange(0, 3).Draw(t, "edgelen") > 0 {
			n = rapid.SampledFrom(c12Len6).Draw(t, "len6")
		} else {
			n = rapid.IntRange(0, 128).Draw(t, "len6u")
		}
		p = netip.PrefixFrom(netip.AddrFrom16(b), n)
	}
	if rapid.Bool().Draw(t, "canonical") {
		p = p.Masked()
	}
	if g.noV60 && !p.Addr().Is4() && p.Bits() == 0 {
		g.exclN++
		p = netip.PrefixFrom(p.Addr(), 1)
	}
	return p
}

func (g *c12Gen) set(t *rapid.T, maxN int) []netip.Prefix {
	n := rapid.IntRange(1, maxN).Draw(t, "nprefix")
	var set []netip.Prefix
	for len(set) < n {
		switch rapid.IntRange(0, 9).Draw(t, "shape") {
		case 0: // duplicate of an earlier prefix
			if len(set) > 0 {
				set = append(set, rapid.SampledFrom(set).Draw(t, "dup"))
				continue
			}
			fallthrough
		case 1: // nested chain along one address
			p := g.prefix(t)
			k := rapid.IntRange(1, 4).Draw(t, "chain")
			for i := 0; i < k && len(set) < n; i++ {
				bitsN := p.Bits() + i*rapid.IntRange(1, 9).Draw(t, "step")
				if bitsN > p.Addr().BitLen() {
					bitsN = p.Addr().BitLen()
				}
				set = append(set, netip.PrefixFrom(p.Addr(), bitsN))
			}
		default:
			set = append(set, g.prefix(t))
		}
	}
	return set
}

// probes returns boundary probes (first/last inside, neighbours just outside each
// prefix) and random ones, all as 16-byte addresses.
func (g *c12Gen) probes(t *rapid.T, set []netip.Prefix, nrand int) (out [][16]byte, boundary int) {
	for _, p := range set {
		first, last := c12Range(p)
		out = append(out, first, last)
		if b, uf := c12Dec(first); !uf {
			out = append(out, b)
		}
		if a, of := c12Inc(last); !of {
			out = append(out, a)
		}
	}
	boundary = len(out)
	for i := 0; i < nrand; i++ {
		out = append(out, g.addr(t))
	}
	return
}

func c12SetKey(set []netip.Prefix) string {
	ss := make([]string, len(set))
	for i, p := range set {
		ss[i] = p.String()
	}
	sort.Strings(ss)
	return strings.Join(ss, ",")
}

var c12EdgeLens = map[int]bool{0: true, 1: true, 31: true, 32: true, 95: true, 96: true, 97: true, 127: true, 128: true}

func c12SetClasses(set []netip.Prefix) []string {
	cl := map[string]bool{}
	seen := map[netip.Prefix]bool{}
	for _, p := range set {
		a := p.Addr()
		switch {
		case a.Is4():
			cl["fam_v4"] = true
			if p.Bits() == 0 {
				cl["v4_len0"] = true
			}
			if p.Bits() == 32 {
				cl["v4_len32"] = true
			}
		case a.Is4In6():
			cl["fam_mapped_literal"] = true
		default:
			cl["fam_v6"] = true
		}
		if !a.Is4() {
			switch p.Bits() {
			case 0:
				cl["v6_len0"] = true
			case 128:
				cl["v6_len128"] = true
			case 96:
				cl["v6_len96"] = true
			}
		}
		if c12EdgeLens[c12Bits128(p)] {
			cl["edge_len128space"] = true
		}
		if p != p.Masked() {
			cl["noncanonical_hostbits"] = true
		}
		if seen[p] {
			cl["duplicate"] = true
		}
		seen[p] = true
	}
	for i, p := range set {
		for j, q := range set {
			if i != j && c12Bits128(p) < c12Bits128(q) && c12Contains(p, q.Addr()) {
				cl["nested"] = true
			}
		}
	}
	out := []string{}
	for c := range cl {
		out = append(out, c)
	}
	sort.Strings(out)
	return out
}

// ---------------------------------------------------------------- the property

func TestC12_Trie(t *testing.T) {
	known := vkKnown("F2")
	rapid.Check(t, func(t *rapid.T) {
		g := c12NewGen(t, known)
		maxN := 12
		if rapid.IntRange(0, 4).Draw(t, "big") == 0 {
			maxN = 30
		}
		if vkThorough() && rapid.IntRange(0, 99).Draw(t, "huge") == 0 {
			maxN = 300
		}
		set := g.set(t, maxN)

		// (a) the bit-string conversion, prefix by prefix.
		for _, p := range set {
			if got, want := Prefix2bin128(p), c12RefBin(p); got != want {
				t.Fatalf("Prefix2bin128(%v) = %q (len %d), want the leading %d bits %q", p, got, len(got), len(want), want)
			}
		}

		tr, err := NewTrieFromPrefixes(set)
		if err != nil {
			t.Fatalf("NewTrieFromPrefixes(%v): %v", set, err)
		}
		// order and duplicates must not matter.
		perm := rapid.Permutation(set).Draw(t, "perm")
		perm = append(perm, perm[0])
		tr2, err := NewTrieFromPrefixes(perm)
		if err != nil {
			t.Fatalf("NewTrieFromPrefixes(perm %v): %v", perm, err)
		}

		probes, nb := g.probes(t, set, rapid.IntRange(4, 12).Draw(t, "nrand"))
		hit, miss := 0, 0
		for i, a16 := range probes {
			a := netip.AddrFrom16(a16)
			want := c12SetContains(set, a)
			word := Prefix2bin128(netip.PrefixFrom(a, 128)) // the form every caller uses
			if len(word) != 128 {
				t.Fatalf("Prefix2bin128(%v/128) has length %d", a, len(word))
			}
			if got := tr.HasPrefix(word); got != want {
				t.Fatalf("set %v probe %v: HasPrefix=%v, containment=%v", set, a, got, want)
			}
			if got := tr2.HasPrefix(word); got != want {
				t.Fatalf("set %v (permuted+duplicated) probe %v: HasPrefix=%v, containment=%v", perm, a, got, want)
			}
			if a.Is4In6() {
				// the same address written as IPv4 must give the same word.
				w4 := Prefix2bin128(netip.PrefixFrom(a.Unmap(), 32))
				if w4 != word {
					t.Fatalf("IPv4 %v and its mapped form give different words: %q vs %q", a.Unmap(), w4, word)
				}
			}
			if want {
				hit++
			} else {
				miss++
			}
			_ = i
		}
		if g.exclN > 0 {
			vkExcluded("C12.trie", "F2")
		}
		cl := c12SetClasses(set)
		key := ""
		if hit > 0 && miss > 0 && nb > 0 {
			key = c12SetKey(set)
			cl = append(cl, "hit_and_miss")
		}
		vkCase("C12.trie", key, func() any {
			return map[string]any{"set": c12SetKey(set), "probes": len(probes), "hit": hit, "miss": miss}
		}, cl...)
	})
}

// ---------------------------------------------------------------- finding F2

// `::/0` must match every address (IPv4 ones included, as they live in ::ffff:0:0/96).
func TestC12_Finding_F2(t *testing.T) {
	p := netip.MustParsePrefix("::/0")
	bin := Prefix2bin128(p)
	tr, err := NewTrieFromPrefixes([]netip.Prefix{p})
	if err != nil {
		t.Fatalf("NewTrieFromPrefixes([::/0]): %v", err)
	}
	probes := []string{"::", "::1", "2001:db8::1", "ffff:ffff:ffff:ffff:ffff:ffff:ffff:ffff", "::ffff:1.2.3.4", "8000::"}
	missed := []string{}
	for _, s := range probes {
		a := netip.MustParseAddr(s)
		if !tr.HasPrefix(Prefix2bin128(netip.PrefixFrom(a, 128))) {
			missed = append(missed, s)
		}
	}
	// together with another prefix the set must still match everything.
	tr2, err := NewTrieFromPrefixes([]netip.Prefix{netip.MustParsePrefix("10.0.0.0/8"), p})
	if err != nil {
		t.Fatalf("NewTrieFromPrefixes([10/8 ::/0]): %v", err)
	}
	if !tr2.HasPrefix(Prefix2bin128(netip.MustParsePrefix("2001:db8::1/128"))) {
		missed = append(missed, "2001:db8::1 (set with 10.0.0.0/8)")
	}
	defect := bin != "" || len(missed) > 0
	if vkKnown("F2") {
		if defect {
			vkKnownReproduced("F2")
			t.Logf("KNOWN F2 reproduced: Prefix2bin128(::/0) has %d bits; [::/0] misses %v", len(bin), missed)
		} else {
			t.Logf("F2 is listed as known but no longer reproduces (Prefix2bin128(::/0)=%q)", bin)
		}
		vkCase("C12.finding_f2", "f2", func() any { return map[string]any{"bin_len": len(bin), "missed": missed} })
		return
	}
	if defect {
		t.Fatalf("::/0 must contain every address: Prefix2bin128(::/0) = %d-bit string %q (want empty), trie [::/0] misses %v", len(bin), bin, missed)
	}
	vkCase("C12.finding_f2", "f2", func() any { return "::/0 matches everything" })
}

// ---------------------------------------------------------------- NewTrie / HasPrefix

// HasPrefix(word) ⇔ some stored key is a prefix of word, for any alphabet; key
// counts large enough to cross the 64-bit words and the every-64th-one select
// samples of the succinct encoding.
func TestC12_TrieStrings(t *testing.T) {
	rapid.Check(t, func(t *rapid.T) {
		alphabets := []string{"01", "ab", "abc", "0123456789abcdefghijklmnopqrstuvwxyz-.^_", "xyzw0"}
		alpha := rapid.SampledFrom(alphabets).Draw(t, "alphabet")
		// optionally narrow the alphabet actually used so keys share long prefixes.
		use := alpha
		if len(alpha) > 4 && rapid.Bool().Draw(t, "narrow") {
			use = alpha[:rapid.IntRange(2, 5).Draw(t, "usen")]
		}
		chars := NewValidChars([]byte(alpha))
		maxKeys := rapid.SampledFrom([]int{3, 20, 150, 600}).Draw(t, "maxkeys")
		if vkThorough() && rapid.IntRange(0, 9).Draw(t, "huge") == 0 {
			maxKeys = 5000
		}
		nkeys := rapid.IntRange(1, maxKeys).Draw(t, "nkeys")
		maxLen := rapid.SampledFrom([]int{1, 3, 8, 20, 130}).Draw(t, "maxlen")
		genStr := func(label string, minLen int) string {
			n := rapid.IntRange(minLen, maxLen).Draw(t, label+"_len")
			b := make([]byte, n)
			for i := range b {
				b[i] = use[rapid.IntRange(0, len(use)-1).Draw(t, label+"_c")]
			}
			return string(b)
		}
		keys := make([]string, 0, nkeys)
		allowEmpty := rapid.IntRange(0, 9).Draw(t, "allowempty") == 0
		for len(keys) < nkeys {
			if len(keys) > 0 && rapid.IntRange(0, 3).Draw(t, "extend") == 0 {
				// extension / truncation of an existing key: nested keys.
				k := keys[rapid.IntRange(0, len(keys)-1).Draw(t, "from")]
				if rapid.Bool().Draw(t, "longer") {
					k += genStr("ext", 1)
				} else if len(k) > 1 {
					k = k[:rapid.IntRange(1, len(k)-1).Draw(t, "cut")]
				}
				keys = append(keys, k)
				continue
			}
			minLen := 1
			if allowEmpty {
				minLen = 0
			}
			keys = append(keys, genStr("key", minLen))
		}
		ref := map[string]bool{}
		for _, k := range keys {
			ref[k] = true
		}
		in := append([]string(nil), keys...)
		tr, err := NewTrie(in, chars)
		if err != nil {
			t.Fatalf("NewTrie: %v (keys=%q)", err, keys)
		}
		refHas := func(w string) bool {
			for i := 0; i <= len(w); i++ {
				if ref[w[:i]] {
					return true
				}
			}
			return false
		}
		nw := rapid.IntRange(10, 60).Draw(t, "nwords")
		hit, miss := 0, 0
		for i := 0; i < nw; i++ {
			var w string
			switch rapid.IntRange(0, 5).Draw(t, "wkind") {
			case 0:
				w = keys[rapid.IntRange(0, len(keys)-1).Draw(t, "wk")]
			case 1:
				w = keys[rapid.IntRange(0, len(keys)-1).Draw(t, "wk")] + genStr("wext", 1)
			case 2:
				w = keys[rapid.IntRange(0, len(keys)-1).Draw(t, "wk")]
				if len(w) > 0 {
					w = w[:len(w)-1]
				}
			case 3:
				w = keys[rapid.IntRange(0, len(keys)-1).Draw(t, "wk")]
				if len(w) > 0 {
					b := []byte(w)
					j := rapid.IntRange(0, len(b)-1).Draw(t, "chg")
					b[j] = use[rapid.IntRange(0, len(use)-1).Draw(t, "chgc")]
					w = string(b)
				}
			case 4:
				// a character outside the alphabet can never extend a match
				w = keys[rapid.IntRange(0, len(keys)-1).Draw(t, "wk")]
				cut := rapid.IntRange(0, len(w)).Draw(t, "badat")
				w = w[:cut] + "#" + w[cut:]
			default:
				w = genStr("rand", 0)
			}
			want := refHas(w)
			if got := tr.HasPrefix(w); got != want {
				t.Fatalf("alphabet %q, %d keys: HasPrefix(%q)=%v, want %v\nkeys=%q", alpha, len(keys), w, got, want, keys)
			}
			if want {
				hit++
			} else {
				miss++
			}
		}
		key := ""
		if hit > 0 && miss > 0 {
			sk := append([]string(nil), keys...)
			sort.Strings(sk)
			key = alpha + "|" + strings.Join(sk, ",")
		}
		cl := []string{fmt.Sprintf("alphabet_%d", len(alpha)), fmt.Sprintf("keys_pow2_%d", bits.Len(uint(len(keys))))}
		if ref[""] {
			cl = append(cl, "empty_key")
		}
		vkCase("C12.triestrings", key, func() any {
			return map[string]any{"alphabet": alpha, "nkeys": len(keys), "hit": hit, "miss": miss}
		}, cl...)
	})
}

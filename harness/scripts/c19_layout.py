#!/usr/bin/env python3
"""C19 (a) — declarations: exhaustive comparison, at check time, of everything the
kernel program (control/kern/tproxy.c + ebpf_sync_defs.h) and the control plane
declare in common.

C side  : clang -target bpf -fdump-record-layouts enumerates every record defined in
          tproxy.c; a generated probe (#include "tproxy.c" + one constant array of
          sizeof/offsetof/_Alignof/enum/#define/map-definition values) is compiled to
          LLVM IR for -target bpf and natively, and the numbers are read back from the
          IR, i.e. they are what the C compiler sees for the BPF ABI.
Go side : tools/c19go (go/parser + go/types, sizes for amd64 and arm64) over
          control/bpf_stub.go, control/bpf_utils.go, the PARAM literal, common/consts,
          control/connectivity.go.
Oracle  : equal size / offset / width per field (Go blank fields only over C padding),
          unions by total size + first member, PARAM literal in encoding/binary layout,
          every shared constant equal in spec.json / ebpf_generated.go /
          ebpf_sync_defs.h / compiler / regenerated output, limits consistent, map
          key/value sizes equal to the Go types used with them, every `ebpf:"..."` tag
          present in the C object, pinned list of today's shared types present on both
          sides, native(x86-64) layout == BPF layout (kernsim's trusted base).
exit 0 held / 1 violation / 2 harness problem. Evidence JSON -> $VERIF_EVID_OUT.
"""
import hashlib
import json
import glob
import os
import re
import shutil
import subprocess
import sys

VERIF = os.environ.get("VERIF_DIR") or os.path.dirname(os.path.dirname(os.path.dirname(os.path.abspath(__file__))))
REPO = os.environ.get("VERIF_REPO", "/repo")
RUNDIR = os.environ.get("VERIF_RUNDIR") or os.path.join(VERIF, ".build", "c19-layout-manual")
UNIT = "C19.layout"
sys.path.insert(0, os.path.join(VERIF, "cshim"))
import gen as ksgen  # noqa: E402  (map/program parser shared with the kernsim build)

MISSING = 0xDEADBEEFDEADBEEF

# today's shared types: C record -> Go type(s) ("file:name"); all must exist.
PINNED = {
    "dae_param": ["bpf_stub.go:bpfDaeParam"],
    "domain_routing": ["bpf_stub.go:bpfDomainRouting"],
    "match_set": ["bpf_stub.go:bpfMatchSet"],
    "pid_pname": ["bpf_stub.go:bpfPidPname"],
    "port_range": ["bpf_stub.go:bpfPortRange"],
    "redirect_entry": ["bpf_stub.go:bpfRedirectEntry"],
    "redirect_tuple": ["bpf_stub.go:bpfRedirectTuple"],
    "routing_result": ["bpf_stub.go:bpfRoutingResult", "bpf_utils.go:bpfRoutingResult"],
    "routing_handoff_entry": ["bpf_stub.go:bpfRoutingHandoffEntry"],
    "tuples_key": ["bpf_stub.go:bpfTuplesKey"],
    "conn_state": ["bpf_stub.go:bpfConnState"],
    "dae_event": ["bpf_stub.go:bpfDaeEvent"],
    "lpm_key": ["bpf_stub.go:_bpfLpmKey", "bpf_utils.go:_bpfLpmKey"],
}
# Go structs in the two files that are not data exchanged with the kernel
GO_NOT_SHARED = {"bpfIfParams", "loadBpfOptions", "bpfSpecs", "bpfProgramSpecs", "bpfMapSpecs", "bpfVariableSpecs",
                 "bpfObjects", "bpfMaps", "bpfVariables", "bpfPrograms"}
# C map -> (Go key, Go value): a Go struct name or a byte count; None = not checked
MAP_GO = {
    "conn_state_map": ("bpfTuplesKey", "bpfConnState"),
    "routing_handoff_map": ("bpfTuplesKey", "bpfRoutingHandoffEntry"),
    "redirect_track": ("bpfRedirectTuple", "bpfRedirectEntry"),
    "domain_routing_map": (16, "bpfDomainRouting"),
    "routing_map": (4, "bpfMatchSet"),
    "routing_meta_map": (4, 4),
    "outbound_connectivity_map": (4, 4),
    "cookie_pid_map": (8, "bpfPidPname"),
    "unused_lpm_type": ("_bpfLpmKey", 4),
    "bpf_stats_map": (4, 8),
    "fast_sock": ("bpfTuplesKey", 8),
    "lpm_array_map": (4, None),
    "listen_socket_map": (4, 8),
}
PAD_RE = re.compile(r"^_*(pad|padding|reserved|unused)", re.I)


class Harness(Exception):
    pass


def run(cmd, **kw):
    r = subprocess.run(cmd, capture_output=True, text=True, **kw)
    if r.returncode != 0:
        raise Harness("command failed: %s\n%s%s" % (" ".join(cmd), r.stdout[-3000:], r.stderr[-3000:]))
    return r.stdout


def go_tool(name, srcdir, files, env):
    """build (once per source content) a stdlib-only Go program; returns the binary path"""
    h = hashlib.sha1()
    for f in files:
        h.update(open(os.path.join(srcdir, f), "rb").read())
    tdir = os.path.join(VERIF, ".build", "tools")
    os.makedirs(tdir, exist_ok=True)
    out = os.path.join(tdir, "%s-%s" % (name, h.hexdigest()[:12]))
    if not os.path.exists(out):
        tmp = "%s.tmp%d" % (out, os.getpid())
        run(["go", "build", "-o", tmp, "."], cwd=srcdir, env=env)
        os.replace(tmp, out)
    return out


def camel(cname):
    return "".join(p[:1].upper() + p[1:] for p in cname.split("_") if p)


# ------------------------------------------------------------------ C side

def c_named_records(src):
    s = ksgen.strip_comments(src)
    return [(m.group(1), m.group(2)) for m in re.finditer(r"^\s*(struct|union)\s+(\w+)\s*\{", s, flags=re.M)]


def c_enum_names(src):
    s = ksgen.strip_comments(src)
    names, enums = [], []
    for m in re.finditer(r"\benum\s*(?:__attribute__\s*\(\(.*?\)\)\s*)?(\w*)\s*\{([^}]*)\}", s, flags=re.S):
        if m.group(1):
            enums.append(m.group(1))
        for part in m.group(2).split(","):
            nm = part.split("=")[0].strip()
            if re.fullmatch(r"[A-Za-z_]\w*", nm):
                names.append(nm)
    return enums, names


def c_define_names(src):
    s = ksgen.strip_comments(src)
    return [m.group(1) for m in re.finditer(r"^[ \t]*#[ \t]*define[ \t]+([A-Za-z_]\w*)[ \t]+\S", s, flags=re.M)]


def parse_dump(text, wanted):
    """-> {record name: node}; node = {kw,name,type,off,children,bitfield,anon}"""
    out = {}
    for block in text.split("*** Dumping AST Record Layout")[1:]:
        lines = [l for l in block.splitlines() if "|" in l]
        if not lines:
            continue
        head = lines[0].split("|", 1)[1]
        hm = re.match(r"^ (struct|union) (\w+)$", head.rstrip())
        if not hm or hm.group(2) not in wanted:
            continue
        root = {"kw": hm.group(1), "name": hm.group(2), "type": head.strip(), "off": 0, "children": [], "depth": 0}
        sm = re.search(r"\[sizeof=(\d+), align=(\d+)", block)
        root["dump_size"], root["dump_align"] = int(sm.group(1)), int(sm.group(2))
        stack = [root]
        for l in lines[1:]:
            offs, rest = l.split("|", 1)
            if rest.strip().startswith("["):
                continue
            offs = offs.strip()
            indent = len(rest) - len(rest.lstrip(" "))
            depth = (indent - 1) // 2
            body = rest.strip()
            node = {"children": [], "depth": depth, "bitfield": ":" in offs}
            node["off"] = int(offs.split(":")[0]) if offs else 0
            if body.endswith(")"):
                node["name"], node["type"], node["anon"] = None, body, True
            else:
                node["type"], node["name"] = body.rsplit(" ", 1)
                node["anon"] = False
            node["kw"] = "union" if node["type"].startswith("union ") else ("struct" if node["type"].startswith("struct ") else None)
            while stack and stack[-1]["depth"] >= depth:
                stack.pop()
            stack[-1]["children"].append(node)
            stack.append(node)
        out[root["name"]] = root
    return out


def flat_fields(node, prefix="", in_union=False):
    """direct members with anonymous aggregates lifted; yields (path, node, in_union)"""
    for ch in node["children"]:
        if ch["anon"]:
            yield from flat_fields(ch, prefix, in_union or ch["kw"] == "union")
        else:
            yield (prefix + ch["name"], ch, in_union or node.get("kw") == "union")


def all_paths(node, prefix=""):
    for path, ch, _ in flat_fields(node, prefix):
        if ch["bitfield"]:
            continue
        yield path, ch
        if ch["children"]:
            yield from all_paths(ch, path + ".")


def read_ir_array(path, sym):
    txt = open(path).read()
    m = re.search(r"@%s\s*=.*?\[(\d+) x i64\]\s*(zeroinitializer|\[(.*?)\])\s*,\s*align" % re.escape(sym), txt, flags=re.S)
    if not m:
        raise Harness("array %s not found in %s" % (sym, path))
    n = int(m.group(1))
    if m.group(2) == "zeroinitializer":
        return [0] * n
    vals = [int(x) & 0xFFFFFFFFFFFFFFFF for x in re.findall(r"i64\s+(-?\d+)", m.group(3))]
    if len(vals) != n:
        raise Harness("array %s: %d values, expected %d" % (sym, len(vals), n))
    return vals


def c_side(cdir, clang):
    src = open(os.path.join(cdir, "tproxy.c"), encoding="utf-8", errors="replace").read()
    hdr = open(os.path.join(cdir, "ebpf_sync_defs.h"), encoding="utf-8", errors="replace").read()
    recs = c_named_records(src)
    inc = ["-I", cdir, "-I", "/usr/include/x86_64-linux-gnu"]
    # pass 1: force a layout for every named record, dump
    p1 = ['#include "tproxy.c"'] + ["unsigned long verif_sz_%d = sizeof(%s %s);" % (i, kw, n) for i, (kw, n) in enumerate(recs)]
    open(os.path.join(cdir, "probe1.c"), "w").write("\n".join(p1) + "\n")
    dump = run([clang, "-target", "bpf", "-O2", "-g", "-Wno-everything"] + inc +
               ["-fsyntax-only", "-Xclang", "-fdump-record-layouts", "probe1.c"], cwd=cdir)
    trees = parse_dump(dump, {n for _, n in recs})
    missing = [n for _, n in recs if n not in trees]
    if missing:
        raise Harness("records not found in the layout dump: %s" % missing)
    # pass 2: numbers
    entries, exprs = [], []

    def add(key, expr):
        entries.append(key)
        exprs.append("(unsigned long long)(%s)" % expr)

    for kw, n in recs:
        add(("size", n), "sizeof(%s %s)" % (kw, n))
        add(("align", n), "_Alignof(%s %s)" % (kw, n))
        for path, ch in all_paths(trees[n]):
            add(("off", n, path), "__builtin_offsetof(%s %s, %s)" % (kw, n, path))
            add(("fsize", n, path), "sizeof(((%s %s *)0)->%s)" % (kw, n, path))
    enums_h, enumerators_h = c_enum_names(hdr)
    enums_c, enumerators_c = c_enum_names(src)
    defines = [d for d in dict.fromkeys(c_define_names(hdr) + c_define_names(src)) if not d.endswith("_H")]
    consts = list(dict.fromkeys(enumerators_h + enumerators_c))
    for e in dict.fromkeys(enums_h + enums_c):
        add(("enum_size", e), "sizeof(enum %s)" % e)
    for c in consts:
        add(("const", c), "(long long)(%s)" % c)
    maps = ksgen.parse_maps(src)
    progs = ksgen.parse_progs(src)
    for mp in maps:
        n, f = mp["name"], mp["fields"]
        add(("map_type", n), ksgen.uint_expr(n, f, "type"))
        add(("map_key", n), ksgen.size_expr(n, f, "key", "key_size"))
        add(("map_value", n), ksgen.size_expr(n, f, "value", "value_size"))
        add(("map_max", n), ksgen.uint_expr(n, f, "max_entries"))
    add(("size", "PARAM"), "sizeof(PARAM)")
    body = ['#include "tproxy.c"', "__attribute__((used)) const unsigned long long verif_probe[] = {"]
    body += ["\t%s," % e for e in exprs]
    body.append("};")
    # #define values separately, each guarded (function-local macros may be #undef'd again)
    body.append("__attribute__((used)) const unsigned long long verif_defs[] = {")
    for d in defines:
        body += ["#ifdef %s" % d, "\t(unsigned long long)(long long)(%s)," % d, "#else", "\t0x%XULL," % MISSING, "#endif"]
    body.append("\t0};")
    open(os.path.join(cdir, "probe2.c"), "w").write("\n".join(body) + "\n")
    res = {}
    for tag, flags in (("bpf", ["-target", "bpf", "-O2"]), ("native", ["-O1"])):
        ll = os.path.join(cdir, "probe2_%s.ll" % tag)
        try:
            run([clang] + flags + ["-g0", "-Wno-everything"] + inc + ["-S", "-emit-llvm", "-o", ll, "probe2.c"], cwd=cdir)
        except Harness as e:
            # a #define that is not an integer expression: retry is pointless, report
            raise Harness("probe compile failed (%s): %s" % (tag, e))
        vals = read_ir_array(ll, "verif_probe")
        dvals = read_ir_array(ll, "verif_defs")
        if len(vals) != len(entries):
            raise Harness("probe size mismatch")
        r = dict(zip(entries, vals))
        for d, v in zip(defines, dvals):
            if v != MISSING:
                r[("define", d)] = v if v < (1 << 63) else v - (1 << 64)
        res[tag] = r
    return {"records": recs, "trees": trees, "vals": res, "maps": maps, "progs": progs, "hdr": hdr, "src": src,
            "consts": consts, "defines": defines}


# ---------------------------------------------------------------- checking

class Check:
    def __init__(self):
        self.evals = 0
        self.viol = []
        self.notes = []
        self.classes = {}
        self.hashes = set()
        self.samples = []
        self.nontrivial = 0

    def ev(self, n=1):
        self.evals += n

    def cls(self, c, n=1):
        self.classes[c] = self.classes.get(c, 0) + n

    def bad(self, msg):
        if msg not in self.viol:
            self.viol.append(msg)

    def eq(self, a, b, what):
        self.ev()
        if a != b:
            self.bad("%s: %r != %r" % (what, a, b))
            return False
        return True


def go_fields(fields):
    return [f for f in fields if not (f["blank"] and f["size"] == 0)]


def data_ranges(cnode, cv, rec, prefix=""):
    """byte ranges of C leaf members that carry data (not named padding)"""
    out = []
    for path, ch, _ in flat_fields(cnode, prefix):
        if ch["bitfield"]:
            continue
        if ch["children"]:
            out += data_ranges(ch, cv, rec, path + ".")
        elif not PAD_RE.match(ch["name"]):
            o = cv[("off", rec, path)]
            out.append((o, o + cv[("fsize", rec, path)], path))
    return out


def name_eq(goname, cname, lower_first):
    # bpf2go naming (last_seen_ns -> LastSeenNs); hand-written mirrors differ in
    # capitalisation only (prefixlen -> PrefixLen), so compare case- and underscore-blind
    return goname.replace("_", "").lower() == cname.replace("_", "").lower()


def compare(ck, cv, rec, cnode, gfields, ctx, prefix="", packed=False, lower_first=False):
    cfl = [(p, ch, u) for p, ch, u in flat_fields(cnode, prefix) if not ch["bitfield"]]
    matched_c = set()
    covered = []
    offkey = "packed_offset" if packed else "offset"
    cdata = data_ranges(cnode, cv, rec, prefix)
    for gf in go_fields(gfields):
        goff, gsize = gf[offkey], gf["size"]
        if gf["blank"]:
            ck.ev()
            for lo, hi, p in cdata:
                if lo < goff + gsize and goff < hi:
                    ck.bad("%s: Go blank field at %d..%d overlaps C data member %s (%d..%d)" % (ctx, goff, goff + gsize, p, lo, hi))
            ck.cls("go_blank_padding_fields")
            continue
        hit = [(p, ch) for p, ch, _ in cfl if name_eq(gf["name"], ch["name"], lower_first)]
        ck.ev()
        if not hit:
            ck.bad("%s: Go field %s (offset %d, %d bytes) has no C counterpart" % (ctx, gf["name"], goff, gsize))
            continue
        p, ch = hit[0]
        matched_c.add(p)
        coff, csize = cv[("off", rec, p)], cv[("fsize", rec, p)]
        covered.append((coff, coff + csize))
        ck.eq(goff, coff, "%s.%s offset (Go %s vs C %s)" % (ctx, gf["name"], gf["name"], p))
        ck.eq(gsize, csize, "%s.%s width (Go %s vs C %s %s)" % (ctx, gf["name"], gf["type"], ch["type"], p))
        am = re.search(r"\[(\d+)\]$", ch["type"])
        if gf["kind"] == "array" and am and not ch["children"]:
            ck.eq(gf["array_len"], int(am.group(1)), "%s.%s array length" % (ctx, gf["name"]))
        if gf["kind"] == "struct" and ch["children"]:
            compare(ck, cv, rec, ch, gf["fields"], ctx + "." + gf["name"], p + ".", packed, lower_first)
        elif gf["kind"] == "struct" and not ch["children"]:
            ck.bad("%s.%s: Go struct vs C scalar %s" % (ctx, gf["name"], ch["type"]))
    for p, ch, in_union in cfl:
        if p in matched_c or PAD_RE.match(ch["name"]):
            continue
        ck.ev()
        coff, csize = cv[("off", rec, p)], cv[("fsize", rec, p)]
        if in_union and any(lo <= coff and coff + csize <= hi for lo, hi in covered):
            ck.cls("c_union_alias_members")
            continue
        ck.bad("%s: C member %s (%s, offset %d, %d bytes) has no Go counterpart" % (ctx, p, ch["type"], coff, csize))


def sig(obj):
    return hashlib.sha1(json.dumps(obj, sort_keys=True, default=str).encode()).hexdigest()[:16]


def main():
    clang = os.environ.get("VERIF_CLANG", "clang")
    if not shutil.which(clang):
        raise Harness("clang not found")
    cdir = os.path.join(RUNDIR, "c19c")
    shutil.rmtree(cdir, ignore_errors=True)
    os.makedirs(cdir)
    for f in ("tproxy.c", "ebpf_sync_defs.h"):
        shutil.copy(os.path.join(REPO, "control", "kern", f), cdir)
    shutil.copytree(os.path.join(VERIF, "cshim", "headers"), os.path.join(cdir, "headers"))
    C = c_side(cdir, clang)
    env = dict(os.environ, GOTOOLCHAIN="local", GOFLAGS="")
    env.pop("GOWORK", None)
    c19go = go_tool("c19go", os.path.join(VERIF, "tools", "c19go"), ["main.go", "go.mod"], env)
    G = json.loads(run([c19go, REPO]))
    ck = Check()
    cv, cn = C["vals"]["bpf"], C["vals"]["native"]
    trees = C["trees"]

    # 0. trusted base: x86-64 layout of every record == BPF layout (kernsim runs natively)
    for k, v in cv.items():
        if k[0] in ("size", "align", "off", "fsize", "enum_size", "map_key", "map_value"):
            ck.eq(cn.get(k), v, "native x86-64 vs -target bpf %s" % (k,))
            ck.cls("native_eq_bpf")
    # the dump and the probe agree
    for _, n in C["records"]:
        ck.eq(trees[n]["dump_size"], cv[("size", n)], "record layout dump vs probe sizeof(%s)" % n)

    # 1. records
    gstructs = G["structs"]
    paired_go = set()
    for kw, n in C["records"]:
        cands = list(PINNED.get(n, []))
        for fn in ("bpf_stub.go", "bpf_utils.go"):
            for pre in ("bpf", "_bpf"):
                key = "%s:%s%s" % (fn, pre, camel(n))
                if key in gstructs["amd64"] and key not in cands:
                    cands.append(key)
        if n in PINNED:
            for key in PINNED[n]:
                ck.ev()
                if key not in gstructs["amd64"]:
                    ck.bad("shared type disappeared on the Go side: C %s %s has no %s" % (kw, n, key))
        nfields = len([1 for _ in all_paths(trees[n])])
        for key in cands:
            if key not in gstructs["amd64"]:
                continue
            paired_go.add(key)
            for arch in ("amd64", "arm64"):
                gs = gstructs[arch][key]
                ctx = "%s %s <-> %s [%s]" % (kw, n, key, arch)
                ck.eq(gs["size"], cv[("size", n)], ctx + " total size")
                compare(ck, cv, n, trees[n], gs["fields"], ctx)
                if gs["packed_size"] != gs["size"]:
                    ck.cls("go_struct_binary_size_lt_memory_size")
                    if key.startswith("bpf_utils.go:") and any(
                            f["packed_offset"] != f["offset"] for f in go_fields(gs["fields"])):
                        ck.bad("%s: hand-written real-build type has implicit interior padding (cilium/ebpf would binary.Write it packed)" % ctx)
            ck.cls("record_pairs")
            if nfields >= 2:
                ck.nontrivial += 1
                h = sig([n, key, [(k, v) for k, v in sorted(cv.items(), key=str) if len(k) > 1 and k[1] == n], gstructs["amd64"][key]])
                if h not in ck.hashes:
                    ck.hashes.add(h)
                    if len(ck.samples) < 6:
                        ck.samples.append({"c": "%s %s" % (kw, n), "go": key, "size": cv[("size", n)],
                                           "fields": ["%s@%d+%d" % (p, cv[("off", n, p)], cv[("fsize", n, p)]) for p, _ in all_paths(trees[n])][:14]})
    for n in PINNED:
        ck.ev()
        if n not in trees:
            ck.bad("shared type disappeared on the C side: struct %s (Go still declares %s)" % (n, PINNED[n]))
    # the two copies of the hand-written types are the same type
    for arch in ("amd64", "arm64"):
        for nm in ("bpfRoutingResult", "_bpfLpmKey"):
            a, b = gstructs[arch].get("bpf_stub.go:" + nm), gstructs[arch].get("bpf_utils.go:" + nm)
            if a and b:
                strip = lambda s: json.dumps([{k: v for k, v in f.items() if k != "type"} for f in go_fields(s["fields"])], sort_keys=True)
                ck.eq(strip(a), strip(b), "%s in bpf_stub.go vs bpf_utils.go [%s]" % (nm, arch))
    for key, gs in sorted(gstructs["amd64"].items()):
        nm = key.split(":")[1]
        if key in paired_go or nm in GO_NOT_SHARED:
            continue
        if gs["data_only"]:
            ck.notes.append("Go data struct %s has no C record named after it (not compared)" % key)

    # 2. PARAM literal (cilium/ebpf writes it with encoding/binary: packed layout)
    for arch in ("amd64", "arm64"):
        ps = G["param"].get(arch)
        ck.ev()
        if not ps:
            ck.bad("PARAM struct literal not found in control/bpf_utils.go")
            continue
        ctx = "struct dae_param <-> PARAM literal [%s, binary layout]" % arch
        ck.eq(ps["packed_size"], cv[("size", "dae_param")], ctx + " total size")
        ck.eq(cv[("size", "PARAM")], cv[("size", "dae_param")], "sizeof(PARAM)")
        if "dae_param" in trees:
            compare(ck, cv, "dae_param", trees["dae_param"], ps["fields"], ctx, packed=True, lower_first=True)
    ck.nontrivial += 1
    ck.hashes.add(sig(["PARAM", G["param"].get("amd64")]))

    # 3. constants
    spec = json.load(open(os.path.join(REPO, "common", "consts", "ebpf_sync_spec.json")))
    gc = G["consts"]

    def goconst(name):
        return int(gc[name]["value"]) if name in gc else None

    def cconst(name):
        if ("const", name) in cv:
            v = cv[("const", name)]
            return v if v < (1 << 63) else v - (1 << 64)
        return cv.get(("define", name))

    go_outbound = {"DIRECT": "OutboundDirect", "BLOCK": "OutboundBlock", "MUST_RULES": "OutboundMustRules",
                   "CONTROL_PLANE_ROUTING": "OutboundControlPlaneRouting", "LOGICAL_OR": "OutboundLogicalOr",
                   "LOGICAL_AND": "OutboundLogicalAnd", "LOGICAL_MASK": "OutboundLogicalMask"}
    triples = []
    for i, nm in enumerate(spec["match_types"]):
        triples.append(("MatchType_" + nm, i, "consts.MatchType_" + nm, "MatchType_" + nm))
    for nv in spec["l4_proto"]:
        triples.append(("L4ProtoType_" + nv["name"], nv["value"], "consts.L4ProtoType_" + nv["name"], "L4ProtoType_" + nv["name"]))
    for nv in spec["ip_version"]:
        triples.append(("IpVersionType_" + nv["name"], nv["value"], "consts.IpVersion_" + nv["name"], "IpVersionType_" + nv["name"]))
    for nv in spec["outbound"]:
        triples.append(("OUTBOUND_" + nv["name"], nv["value"], "consts." + go_outbound.get(nv["name"], "Outbound" + camel(nv["name"].lower())), "OUTBOUND_" + nv["name"]))
    for label, want, goname, cname in triples:
        ck.eq(goconst(goname), want, "constant %s: Go %s vs ebpf_sync_spec.json" % (label, goname))
        ck.eq(cconst(cname), want, "constant %s: value the C compiler sees vs ebpf_sync_spec.json" % label)
        ck.cls("sync_constants")
    # nothing extra in the generated enums on either side
    spec_c_names = {t[3] for t in triples}
    for nm in C["consts"] + C["defines"]:
        if re.match(r"^(MatchType_|L4ProtoType_|IpVersionType_|OUTBOUND_)", nm):
            ck.ev()
            if nm not in spec_c_names:
                ck.bad("C constant %s is not in ebpf_sync_spec.json" % nm)
    spec_go_names = {t[2] for t in triples}
    derived = {"consts.OutboundUserDefinedMin", "consts.OutboundUserDefinedMax", "consts.L4ProtoType_TCP_UDP"}
    for nm in gc:
        if re.match(r"^consts\.(MatchType_|L4ProtoType_|IpVersion_|Outbound[A-Z])", nm):
            ck.ev()
            if nm not in spec_go_names and nm not in derived:
                ck.bad("Go constant %s is not in ebpf_sync_spec.json" % nm)
    # Go widths of the enum types used in bpfMatchSet
    ck.eq(cv.get(("enum_size", "MatchType")), 1, "sizeof(enum MatchType) (packed, stored in a __u8-wide slot)")
    for t in ("consts.MatchType_DomainSet", "consts.OutboundDirect", "consts.L4ProtoType_TCP", "consts.IpVersion_4"):
        ck.eq(gc.get(t, {}).get("type"), "uint8", "Go type width of %s" % t)
    # regeneration: gen_ebpf_sync on the working-tree spec reproduces both files byte for byte
    gdir = os.path.join(RUNDIR, "c19gen")
    shutil.rmtree(gdir, ignore_errors=True)
    os.makedirs(os.path.join(gdir, "common", "consts"))
    os.makedirs(os.path.join(gdir, "control", "kern"))
    open(os.path.join(gdir, "go.mod"), "w").write("module verif/c19gen\n\ngo 1.23\n")
    shutil.copy(os.path.join(REPO, "common", "consts", "ebpf_sync_spec.json"), os.path.join(gdir, "common", "consts"))
    gen_src = os.path.join(REPO, "cmd", "generators", "gen_ebpf_sync", "main.go")
    gsrc = os.path.join(RUNDIR, "c19gensrc")
    shutil.rmtree(gsrc, ignore_errors=True)
    os.makedirs(gsrc)
    shutil.copy(gen_src, os.path.join(gsrc, "main.go"))
    open(os.path.join(gsrc, "go.mod"), "w").write("module verif/c19gensrc\n\ngo 1.23\n")
    run([go_tool("gen_ebpf_sync", gsrc, ["main.go"], env)], cwd=gdir)
    for rel in (("common", "consts", "ebpf_generated.go"), ("control", "kern", "ebpf_sync_defs.h")):
        a = open(os.path.join(gdir, *rel)).read()
        b = open(os.path.join(REPO, *rel)).read()
        ck.eq(a == b, True, "%s is what gen_ebpf_sync regenerates from ebpf_sync_spec.json" % "/".join(rel))
    # limits
    mms = cconst("MAX_MATCH_SET_LEN")
    ck.eq(goconst("consts.var:MaxMatchSetLen"), mms, "consts.MaxMatchSetLen vs MAX_MATCH_SET_LEN")
    dr = gstructs["amd64"].get("bpf_stub.go:bpfDomainRouting")
    if dr:
        bm = [f for f in dr["fields"] if f["name"] == "Bitmap"]
        ck.eq(32 * bm[0]["array_len"] if bm else None, mms, "32*len(bpfDomainRouting.Bitmap) vs MAX_MATCH_SET_LEN")
    if ("fsize", "domain_routing", "bitmap") in cv:
        ck.eq(cv[("fsize", "domain_routing", "bitmap")] * 8, mms, "bits in struct domain_routing.bitmap vs MAX_MATCH_SET_LEN")
    ck.eq(cv.get(("map_max", "routing_map")), mms, "routing_map max_entries vs MAX_MATCH_SET_LEN")
    ck.ev()
    if (cv.get(("map_max", "lpm_array_map")) or 0) < (mms or 0):
        ck.bad("lpm_array_map max_entries %s < MaxMatchSetLen %s (ring indices are taken modulo MaxMatchSetLen)" % (cv.get(("map_max", "lpm_array_map")), mms))
    ck.eq(goconst("consts.TaskCommLen"), cconst("TASK_COMM_LEN"), "consts.TaskCommLen vs TASK_COMM_LEN")
    ck.eq(goconst("consts.TproxyMark"), cconst("TPROXY_MARK"), "consts.TproxyMark vs TPROXY_MARK")
    for fn in ("bpf_stub.go", "bpf_utils.go"):
        ck.eq(goconst("control.%s:defaultConnStateMapMaxEntries" % fn), cv.get(("map_max", "conn_state_map")),
              "%s defaultConnStateMapMaxEntries vs conn_state_map max_entries" % fn)
        ck.eq(goconst("control.%s:fastSockPlaceholderMaxEntries" % fn), cv.get(("map_max", "fast_sock")),
              "%s fastSockPlaceholderMaxEntries vs fast_sock max_entries" % fn)
    per_ob = goconst("control.connectivity.go:outboundConnectivitySlotsPerOutbound")
    ck.eq(256 * per_ob if per_ob else None, cv.get(("map_max", "outbound_connectivity_map")),
          "256 outbounds * outboundConnectivitySlotsPerOutbound vs outbound_connectivity_map max_entries")
    ck.eq(goconst("control.connectivity.go:outboundConnectivitySlotsPerDomain"), 2, "slots per health domain (v4, v6)")
    ck.eq([goconst("control.connectivity.go:outboundConnectivityDomain" + d) for d in ("TCP", "DnsUDP", "DataUDP")], [0, 1, 2],
          "health domain indices (tproxy.c: 0=TCP, 1=DNS UDP, 2=data UDP)")

    # 3b. enum tcp_state: the Go janitor mirrors it with bare literals (`value.State == 1`
    # selects the closing timeout; everything else counts as established, and UDP entries
    # and fresh entries are zero)
    sites = [x for x in G.get("state_literals", []) if re.search(r"conn.?state", x["func"], re.I)]
    ck.ev()
    if not sites:
        ck.notes.append("no `.State <op> literal` comparison found in the Go conn-state janitor (enum tcp_state not cross-checked)")
    for x in sites:
        ck.eq(int(x["value"], 0), cconst("TCP_STATE_CLOSING"),
              "control/%s:%d (%s): conn_state State %s %s is the Go side's 'closing' test vs C TCP_STATE_CLOSING" % (x["file"], x["line"], x["func"], x["op"], x["value"]))
        ck.cls("go_literal_mirrors_of_c_enum")
    if sites:
        ck.eq(cconst("TCP_STATE_ACTIVE"), 0, "TCP_STATE_ACTIVE (Go treats every State other than the closing literal, incl. zero-initialised and UDP entries, as established)")
        tcp_states = sorted(n for n in C["consts"] if n.startswith("TCP_STATE_"))
        ck.eq(tcp_states, ["TCP_STATE_ACTIVE", "TCP_STATE_CLOSING"], "enumerators of enum tcp_state known to the Go janitor")

    # 3c. idle limits applied by both sides to the shared conn_state.last_seen_ns: the
    # kernel's *_TIMEOUT_NS defines vs the durations the Go conn-state janitor uses
    # (read from the janitor's own `xTimeoutNano := <ident>.Nanoseconds()` lines, so a
    # renamed or re-pointed identifier is followed; unresolvable pieces are noted, not failed)
    def go_duration(ident):
        unit = {"Nanosecond": 1, "Microsecond": 10**3, "Millisecond": 10**6, "Second": 10**9, "Minute": 60 * 10**9, "Hour": 3600 * 10**9}
        for path in sorted(glob.glob(os.path.join(REPO, "control", "*.go"))):
            if path.endswith("_test.go"):
                continue
            m = re.search(r"^\s*%s\s*(?:time\.Duration\s*)?=\s*(\d+)\s*\*\s*time\.(\w+)\s*(?://.*)?$" % re.escape(ident), open(path).read(), re.M)
            if m and m.group(2) in unit:
                return int(m.group(1)) * unit[m.group(2)], os.path.basename(path)
        return None, None
    try:
        jan = open(os.path.join(REPO, "control", "control_plane.go")).read()
    except OSError:
        jan = ""
    for var, cdef in (("normalTimeoutNano", "UDP_CONN_STATE_TIMEOUT_NS"), ("establishedTimeoutNano", "TCP_CONN_STATE_ESTABLISHED_TIMEOUT_NS"),
                      ("closingTimeoutNano", "TCP_CONN_STATE_CLOSING_TIMEOUT_NS")):
        m = re.search(r"\b%s\s*:=\s*(\w+)\.Nanoseconds\(\)" % var, jan)
        cval = cconst(cdef)
        if not m or cval is None:
            ck.notes.append("idle limit %s / %s not cross-checked (janitor line or C define not found)" % (var, cdef))
            continue
        gval, where = go_duration(m.group(1))
        if gval is None:
            ck.notes.append("idle limit %s: Go duration %s not resolvable by the script (not cross-checked)" % (var, m.group(1)))
            continue
        ck.eq(gval, cval, "conn-state janitor %s = %s (control/%s) vs C %s: both are applied to the shared last_seen_ns" % (var, m.group(1), where, cdef))
        ck.cls("shared_idle_limits")

    # 4. maps: key/value sizes vs the Go types used with them; tags
    cmaps = {m["name"] for m in C["maps"]}

    def gosize(x, arch):
        if x is None or isinstance(x, int):
            return x
        for fn in ("bpf_stub.go", "bpf_utils.go"):
            s = gstructs[arch].get("%s:%s" % (fn, x))
            if s:
                return s["size"]
        return "missing Go type %s" % x

    for mname, (gk, gval) in sorted(MAP_GO.items()):
        ck.ev()
        if mname not in cmaps:
            ck.bad("map %s used by the control plane does not exist in tproxy.c" % mname)
            continue
        for arch in ("amd64", "arm64"):
            if gk is not None:
                ck.eq(gosize(gk, arch), cv[("map_key", mname)], "map %s key size: Go %s [%s] vs C" % (mname, gk, arch))
            if gval is not None:
                ck.eq(gosize(gval, arch), cv[("map_value", mname)], "map %s value size: Go %s [%s] vs C" % (mname, gval, arch))
        ck.cls("maps")
    if "dae_event" in trees and "bpf_stub.go:bpfDaeEvent" in gstructs["amd64"]:
        ck.eq(gstructs["amd64"]["bpf_stub.go:bpfDaeEvent"]["size"], cv[("size", "dae_event")], "ring buffer record size (bpfDaeEvent vs struct dae_event)")
    cprogs = {p["name"] for p in C["progs"]}
    for gname, tags in sorted(G["tags"].items()):
        for tg in tags:
            ck.ev()
            ck.cls("ebpf_tags")
            if "Map" in gname and tg not in cmaps:
                ck.bad("%s has `ebpf:\"%s\"` but tproxy.c defines no such map" % (gname, tg))
            if "Program" in gname and tg not in cprogs:
                ck.bad("%s has `ebpf:\"%s\"` but tproxy.c defines no such program" % (gname, tg))
            if "Variable" in gname and not re.search(r"\b%s\s*=" % re.escape(tg), ksgen.strip_comments(C["src"])):
                ck.bad("%s has `ebpf:\"%s\"` but tproxy.c defines no such variable" % (gname, tg))

    ck.notes.append("records defined in tproxy.c: %d; paired with Go structs: %d; C maps: %d; programs: %d; sync constants: %d" % (
        len(C["records"]), len(paired_go), len(C["maps"]), len(C["progs"]), len(triples)))
    unpaired = [n for _, n in C["records"] if not any(k for k in paired_go if k.endswith(camel(n)))]
    ck.notes.append("C-only records (kernel-internal scratch, no Go mirror): " + ", ".join(sorted(unpaired)))
    return ck


def write_evidence(ck):
    out = os.environ.get("VERIF_EVID_OUT")
    if not out:
        return
    doc = {"units": {UNIT: {"evaluations": ck.evals, "nontrivial_total": ck.nontrivial, "hashes": sorted(ck.hashes),
                            "classes": ck.classes, "samples": ck.samples, "excluded_known": {}, "notes": ck.notes[:20]}},
           "known_reproduced": []}
    json.dump(doc, open(out, "w"))


if __name__ == "__main__":
    try:
        os.makedirs(RUNDIR, exist_ok=True)
        ck = main()
    except Harness as e:
        print("C19.layout HARNESS ERROR:", e, file=sys.stderr)
        sys.exit(2)
    except Exception:  # noqa
        import traceback
        traceback.print_exc()
        sys.exit(2)
    write_evidence(ck)
    if ck.viol:
        print("C19.layout: %d disagreement(s) between tproxy.c and the Go side:" % len(ck.viol))
        for v in ck.viol[:60]:
            print("  - " + v)
        sys.exit(1)
    print("C19.layout: %d comparisons, %d record pairs, all agree" % (ck.evals, ck.classes.get("record_pairs", 0)))
    sys.exit(0)

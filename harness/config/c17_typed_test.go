package config

// C17 (c) typed configuration: text -> config_parser.Parse -> config.New.
// Oracle 1 (defaults): a key that is not written gets its documented default (table
// below, hand-written from example.dae, config/desc.go and docs/en — NOT read from the
// `default:` struct tags); a key that is written gets exactly the written value.
// Oracle 2 (rejection): unknown section / unknown key / missing required section or key
// / wrong-typed value => error with a message, never a panic. Repeated keys and
// repeated sections: any outcome but a panic.

import (
	"fmt"
	"io"
	"net/netip"
	"os"
	"reflect"
	"runtime/debug"
	"sort"
	"strings"
	"testing"
	"time"

	"github.com/daeuniverse/dae/pkg/config_parser"
	"github.com/sirupsen/logrus"
	"pgregory.net/rapid"
)

// ---- documented defaults (hand-written) -------------------------------------------

type c17KeySpec struct {
	Key     string
	Default any // documented value when the key is absent; nil = not documented, not checked
	Get     func(c *Config) any
	Values  []c17Val // texts that may be written, with the value they spell
}

type c17Val struct {
	Text string // as written after "key: "
	Want any
}

func c17Strs(s ...string) []string { return s }

var c17GlobalSpecs = []c17KeySpec{
	{"tproxy_port", uint16(12345), func(c *Config) any { return c.Global.TproxyPort },
		[]c17Val{{"12345", uint16(12345)}, {"1", uint16(1)}, {"65535", uint16(65535)}, {"0x10", uint16(16)}, {"'7890'", uint16(7890)}}},
	{"tproxy_port_protect", true, func(c *Config) any { return c.Global.TproxyPortProtect },
		[]c17Val{{"true", true}, {"false", false}}},
	{"pprof_port", uint16(0), func(c *Config) any { return c.Global.PprofPort },
		[]c17Val{{"0", uint16(0)}, {"6060", uint16(6060)}}},
	{"bpf_conn_state_map_size", uint32(262144), func(c *Config) any { return c.Global.BpfConnStateMapSize },
		[]c17Val{{"262144", uint32(262144)}, {"1024", uint32(1024)}}},
	{"so_mark_from_dae", uint32(0), func(c *Config) any { return c.Global.SoMarkFromDae },
		[]c17Val{{"0", uint32(0)}, {"1234", uint32(1234)}, {"0x800", uint32(0x800)}}},
	{"log_level", "info", func(c *Config) any { return c.Global.LogLevel },
		[]c17Val{{"info", "info"}, {"warn", "warn"}, {"trace", "trace"}, {"'debug'", "debug"}}},
	{"disable_waiting_network", false, func(c *Config) any { return c.Global.DisableWaitingNetwork },
		[]c17Val{{"false", false}, {"true", true}}},
	{"disable_thp", true, func(c *Config) any { return c.Global.DisableTHP },
		[]c17Val{{"false", false}, {"true", true}}},
	{"lan_interface", []string(nil), func(c *Config) any { return c.Global.LanInterface },
		[]c17Val{{"docker0", c17Strs("docker0")}, {"eth0, docker0", c17Strs("eth0", "docker0")}, {"'br-lan,eth1'", c17Strs("br-lan", "eth1")}}},
	{"wan_interface", []string(nil), func(c *Config) any { return c.Global.WanInterface },
		[]c17Val{{"auto", c17Strs("auto")}, {"eth0,wlan0", c17Strs("eth0", "wlan0")}}},
	{"auto_config_kernel_parameter", nil, func(c *Config) any { return c.Global.AutoConfigKernelParameter },
		[]c17Val{{"true", true}, {"false", false}}},
	{"tcp_check_url", c17Strs("http://cp.cloudflare.com", "1.1.1.1", "2606:4700:4700::1111"), func(c *Config) any { return c.Global.TcpCheckUrl },
		[]c17Val{{"'http://cp.cloudflare.com'", c17Strs("http://cp.cloudflare.com")},
			{"'http://cp.cloudflare.com,1.1.1.1,2606:4700:4700::1111'", c17Strs("http://cp.cloudflare.com", "1.1.1.1", "2606:4700:4700::1111")},
			{"'http://a.example/x', 1.2.3.4", c17Strs("http://a.example/x", "1.2.3.4")}}},
	{"tcp_check_http_method", "HEAD", func(c *Config) any { return c.Global.TcpCheckHttpMethod },
		[]c17Val{{"HEAD", "HEAD"}, {"GET", "GET"}, {"CONNECT", "CONNECT"}}},
	{"udp_check_dns", c17Strs("dns.google:53", "8.8.8.8", "2001:4860:4860::8888"), func(c *Config) any { return c.Global.UdpCheckDns },
		[]c17Val{{"'dns.google:53'", c17Strs("dns.google:53")}, {"'dns.google:53,8.8.8.8,2001:4860:4860::8888'", c17Strs("dns.google:53", "8.8.8.8", "2001:4860:4860::8888")}}},
	{"check_interval", 30 * time.Second, func(c *Config) any { return c.Global.CheckInterval },
		[]c17Val{{"30s", 30 * time.Second}, {"600s", 600 * time.Second}, {"1m30s", 90 * time.Second}, {"500ms", 500 * time.Millisecond}}},
	{"check_tolerance", nil, func(c *Config) any { return c.Global.CheckTolerance },
		[]c17Val{{"50ms", 50 * time.Millisecond}, {"0", time.Duration(0)}}},
	{"dial_mode", "domain", func(c *Config) any { return c.Global.DialMode },
		[]c17Val{{"ip", "ip"}, {"domain", "domain"}, {"domain+", "domain+"}, {"domain++", "domain++"}}},
	{"allow_insecure", false, func(c *Config) any { return c.Global.AllowInsecure },
		[]c17Val{{"false", false}, {"true", true}}},
	{"sniffing_timeout", 30 * time.Millisecond, func(c *Config) any { return c.Global.SniffingTimeout },
		[]c17Val{{"30ms", 30 * time.Millisecond}, {"100ms", 100 * time.Millisecond}}},
	{"tls_implementation", "tls", func(c *Config) any { return c.Global.TlsImplementation },
		[]c17Val{{"tls", "tls"}, {"utls", "utls"}}},
	{"utls_imitate", "chrome_auto", func(c *Config) any { return c.Global.UtlsImitate },
		[]c17Val{{"chrome_auto", "chrome_auto"}, {"firefox_auto", "firefox_auto"}}},
	{"tls_fragment", false, func(c *Config) any { return c.Global.TlsFragment },
		[]c17Val{{"false", false}, {"true", true}}},
	{"tls_fragment_length", "50-100", func(c *Config) any { return c.Global.TlsFragmentLength },
		[]c17Val{{"'50-100'", "50-100"}, {"'1-5'", "1-5"}}},
	{"tls_fragment_interval", "10-20", func(c *Config) any { return c.Global.TlsFragmentInterval },
		[]c17Val{{"'10-20'", "10-20"}, {"'0-1'", "0-1"}}},
	{"mptcp", false, func(c *Config) any { return c.Global.Mptcp },
		[]c17Val{{"false", false}, {"true", true}}},
	{"bootstrap_resolver", "", func(c *Config) any { return c.Global.BootstrapResolver },
		[]c17Val{{"'9.9.9.9:53'", "9.9.9.9:53"}, {"'[2620:fe::fe]:53'", "[2620:fe::fe]:53"}}},
	{"fallback_resolver", "8.8.8.8:53", func(c *Config) any { return c.Global.FallbackResolver },
		[]c17Val{{"'8.8.8.8:53'", "8.8.8.8:53"}, {"'1.1.1.1:53'", "1.1.1.1:53"}}},
	{"bandwidth_max_tx", nil, func(c *Config) any { return c.Global.BandwidthMaxTx },
		[]c17Val{{"'200 mbps'", "200 mbps"}, {"25000000", "25000000"}}},
	{"bandwidth_max_rx", nil, func(c *Config) any { return c.Global.BandwidthMaxRx },
		[]c17Val{{"'1 gbps'", "1 gbps"}}},
}

var c17DnsSpecs = []c17KeySpec{
	{"ipversion_prefer", 0, func(c *Config) any { return c.Dns.IpVersionPrefer }, []c17Val{{"4", 4}, {"6", 6}}},
	{"bind", "", func(c *Config) any { return c.Dns.Bind }, []c17Val{{"'127.0.0.1:5353'", "127.0.0.1:5353"}, {"'tcp+udp://127.0.0.1:5353'", "tcp+udp://127.0.0.1:5353"}}},
	{"optimistic_cache", true, func(c *Config) any { return c.Dns.OptimisticCache }, []c17Val{{"true", true}, {"false", false}}},
	{"optimistic_cache_ttl", 60, func(c *Config) any { return c.Dns.OptimisticCacheTtl }, []c17Val{{"60", 60}, {"0", 0}, {"3600", 3600}}},
	{"max_cache_size", 0, func(c *Config) any { return c.Dns.MaxCacheSize }, []c17Val{{"0", 0}, {"10000", 10000}}},
}

// finding F-C17-3: the documented dns defaults are not applied when the configuration has
// no dns section at all (they are applied for an empty `dns {}`).
const c17FDnsDefaults = "F-C17-3"

// ---- helpers ------------------------------------------------------------------------

type c17NewOutcome struct {
	Conf  *Config
	Err   error
	Stage string // "parse" or "new"
	Panic any
	Stack string
}

func c17CompactStack(st string) string {
	lines := strings.Split(st, "\n")
	var sb strings.Builder
	seen := false
	n := 0
	for i := 0; i+1 < len(lines) && n < 10; i++ {
		fn, loc := lines[i], lines[i+1]
		if !strings.HasPrefix(loc, "\t") || strings.HasPrefix(fn, "\t") {
			continue
		}
		if strings.HasPrefix(fn, "panic(") {
			seen = true
			continue
		}
		if !seen || strings.HasPrefix(fn, "runtime.") || !strings.Contains(fn, "daeuniverse/dae/") {
			continue
		}
		if k := strings.LastIndex(fn, "("); k > 0 {
			fn = fn[:k]
		}
		loc = strings.TrimSpace(loc)
		if k := strings.Index(loc, " +0x"); k > 0 {
			loc = loc[:k]
		}
		fmt.Fprintf(&sb, "  %s %s\n", fn, loc)
		n++
	}
	return sb.String()
}

func c17Build(text string) (o c17NewOutcome) {
	defer func() {
		if r := recover(); r != nil {
			o.Panic = r
			o.Stack = c17CompactStack(string(debug.Stack()))
		}
	}()
	o.Stage = "parse"
	secs, err := config_parser.Parse(text)
	if err != nil {
		o.Err = err
		return
	}
	o.Stage = "new"
	o.Conf, o.Err = New(secs)
	return
}

func c17Quiet() func() {
	old := logrus.StandardLogger().Out
	logrus.SetOutput(io.Discard)
	return func() { logrus.SetOutput(old) }
}

func c17Eq(a, b any) bool {
	if as, ok := a.([]string); ok {
		bs, ok2 := b.([]string)
		if !ok2 {
			return false
		}
		if len(as) == 0 && len(bs) == 0 {
			return true
		}
	}
	return reflect.DeepEqual(a, b)
}

type c17Written struct {
	Key  string
	Text string
	Want any
}

func c17PickKeys(t *rapid.T, specs []c17KeySpec, label string) (lines []string, written map[string]c17Written) {
	written = map[string]c17Written{}
	mode := rapid.IntRange(0, 4).Draw(t, label+"_mode") // 0 none, 1 all, else subset
	idx := make([]int, len(specs))
	for i := range idx {
		idx[i] = i
	}
	order := rapid.Permutation(idx).Draw(t, label+"_order")
	for _, oi := range order {
		sp := specs[oi]
		take := false
		switch mode {
		case 0:
		case 1:
			take = true
		default:
			take = rapid.IntRange(0, 3).Draw(t, label+"_take") == 0
		}
		if !take {
			continue
		}
		v := rapid.SampledFrom(sp.Values).Draw(t, label+"_"+sp.Key)
		written[sp.Key] = c17Written{sp.Key, v.Text, v.Want}
		lines = append(lines, sp.Key+": "+v.Text)
	}
	return
}

type c17RuleSpec struct {
	Text         string
	NFuncs       int
	OutName      string // after must_ normalisation
	OutMust      bool
	FirstFunc    string
	FirstNot     bool
	FirstNParams int
}

var c17RulePool = []c17RuleSpec{
	{"pname(NetworkManager) -> direct", 1, "direct", false, "pname", false, 1},
	{"dip(224.0.0.0/3, 'ff00::/8') -> direct", 1, "direct", false, "dip", false, 2},
	{"l4proto(udp) && dport(443) -> block", 2, "block", false, "l4proto", false, 1},
	{"!domain(geosite:cn, suffix: example.com) && sip(192.168.0.0/24) -> g1", 2, "g1", false, "domain", true, 2},
	{"domain(full: a.example) -> must_g1", 1, "g1", true, "domain", false, 1},
	{"dport(53) -> must_direct", 1, "direct", true, "dport", false, 1},
	{"sport(1000-2000) -> g2(mark: 0x10)", 1, "g2", false, "sport", false, 1},
	{"mac('02:42:ac:11:00:02') -> direct(must)", 1, "direct", false, "mac", false, 1},
	{"dscp(4) && ipversion(6) && !pname(curl) -> must_rules", 3, "must_rules", false, "dscp", false, 1},
}

type c17Case struct {
	Text         string
	Global       map[string]c17Written
	Dns          map[string]c17Written
	HasDns       bool
	Rules        []c17RuleSpec
	Fallback     string // "" = absent
	Groups       []string
	GroupPolicy  map[string]string
	GroupFilters map[string]int
	Nodes        []string
	Subs         []string
	Upstreams    []string
	ReqFallback  string
	RespFallback string
	HasReq       bool
	HasResp      bool
}

func c17GenValid(t *rapid.T) *c17Case {
	c := &c17Case{GroupPolicy: map[string]string{}, GroupFilters: map[string]int{}}
	var secs []string
	glines, gw := c17PickKeys(t, c17GlobalSpecs, "g")
	c.Global = gw
	secs = append(secs, "global {\n  "+strings.Join(glines, "\n  ")+"\n}")

	// routing
	nr := rapid.IntRange(0, 5).Draw(t, "nrules")
	var rl []string
	for i := 0; i < nr; i++ {
		r := rapid.SampledFrom(c17RulePool).Draw(t, "rule")
		c.Rules = append(c.Rules, r)
		rl = append(rl, r.Text)
	}
	fbPos := -1
	if rapid.IntRange(0, 3).Draw(t, "hasfallback") > 0 {
		c.Fallback = rapid.SampledFrom([]string{"direct", "block", "g1", "must_g1", "g2(mark: 3)", "must_direct"}).Draw(t, "fallback")
		fbPos = rapid.IntRange(0, len(rl)).Draw(t, "fbpos")
		rl = append(rl[:fbPos], append([]string{"fallback: " + c.Fallback}, rl[fbPos:]...)...)
	}
	secs = append(secs, "routing {\n  "+strings.Join(rl, "\n  ")+"\n}")

	// group
	if rapid.Bool().Draw(t, "hasgroup") {
		var gl []string
		for _, g := range []string{"g1", "g2"} {
			if g == "g2" && rapid.Bool().Draw(t, "one_group") {
				continue
			}
			c.Groups = append(c.Groups, g)
			pol := rapid.SampledFrom([]string{"random", "min", "min_avg10", "min_moving_avg", "fixed(0)"}).Draw(t, "policy")
			c.GroupPolicy[g] = pol
			nf := rapid.IntRange(0, 3).Draw(t, "nfilter")
			c.GroupFilters[g] = nf
			var fl []string
			for i := 0; i < nf; i++ {
				fl = append(fl, rapid.SampledFrom([]string{"filter: name(HK_node)", "filter: name(US_node) [add_latency: -500ms]",
					"filter: subtag(my_sub) && !name(keyword: 'ExpireAt:')", "filter: subtag(regex: '^my_', another_sub)"}).Draw(t, "filter"))
			}
			fl = append(fl, "policy: "+pol)
			if rapid.IntRange(0, 3).Draw(t, "group_override") == 0 {
				fl = append(fl, "tcp_check_url: 'http://test.steampowered.com'")
			}
			gl = append(gl, g+" {\n    "+strings.Join(fl, "\n    ")+"\n  }")
		}
		secs = append(secs, "group {\n  "+strings.Join(gl, "\n  ")+"\n}")
	}
	// node / subscription
	if rapid.Bool().Draw(t, "hasnode") {
		n := rapid.IntRange(0, 3).Draw(t, "nnodes")
		var nl []string
		for i := 0; i < n; i++ {
			if rapid.Bool().Draw(t, "tagged") {
				nl = append(nl, fmt.Sprintf("node%d: 'ss://LINK%d'", i, i))
				c.Nodes = append(c.Nodes, fmt.Sprintf("node%d:ss://LINK%d", i, i))
			} else {
				nl = append(nl, fmt.Sprintf("'socks5://localhost:%d'", 1080+i))
				c.Nodes = append(c.Nodes, fmt.Sprintf("socks5://localhost:%d", 1080+i))
			}
		}
		secs = append(secs, "node {\n  "+strings.Join(nl, "\n  ")+"\n}")
	}
	if rapid.Bool().Draw(t, "hassub") {
		secs = append(secs, "subscription {\n  my_sub: 'https://www.example.com/subscription/link'\n  'https://example.com/no_tag_link'\n}")
		c.Subs = []string{"my_sub:https://www.example.com/subscription/link", "https://example.com/no_tag_link"}
	}
	// dns
	if rapid.IntRange(0, 2).Draw(t, "hasdns") > 0 {
		c.HasDns = true
		dl, dw := c17PickKeys(t, c17DnsSpecs, "d")
		c.Dns = dw
		if rapid.Bool().Draw(t, "hasupstream") {
			dl = append(dl, "upstream {\n    alidns: 'udp://dns.alidns.com:53'\n    googledns: 'tcp+udp://dns.google:53'\n  }")
			c.Upstreams = []string{"alidns:udp://dns.alidns.com:53", "googledns:tcp+udp://dns.google:53"}
		}
		if rapid.Bool().Draw(t, "hasdnsrouting") {
			var parts []string
			if rapid.Bool().Draw(t, "hasreq") {
				c.HasReq = true
				c.ReqFallback = rapid.SampledFrom([]string{"asis", "alidns", "googledns"}).Draw(t, "reqfb")
				parts = append(parts, "request {\n      qname(geosite:cn) -> alidns\n      fallback: "+c.ReqFallback+"\n    }")
			}
			if rapid.Bool().Draw(t, "hasresp") {
				c.HasResp = true
				c.RespFallback = rapid.SampledFrom([]string{"accept", "googledns"}).Draw(t, "respfb")
				parts = append(parts, "response {\n      upstream(googledns) -> accept\n      ip(geoip:private) && !qname(geosite:cn) -> googledns\n      fallback: "+c.RespFallback+"\n    }")
			}
			dl = append(dl, "routing {\n    "+strings.Join(parts, "\n    ")+"\n  }")
		}
		secs = append(secs, "dns {\n  "+strings.Join(dl, "\n  ")+"\n}")
	}
	perm := rapid.Permutation(secs).Draw(t, "secorder")
	c.Text = strings.Join(perm, "\n") + "\n"
	return c
}

func c17FuncOrStringName(v FunctionOrString) (name string, must bool, err error) {
	f, err := ParseFunctionOrString(v)
	if err != nil {
		return "", false, err
	}
	for _, p := range f.Params {
		if p.Key == "" && p.Val == "must" {
			must = true
		}
	}
	return f.Name, must, nil
}

func c17CheckValid(t *rapid.T, c *c17Case, conf *Config) {
	check := func(section string, specs []c17KeySpec, written map[string]c17Written) {
		for _, sp := range specs {
			got := sp.Get(conf)
			if w, ok := written[sp.Key]; ok {
				if !c17Eq(got, w.Want) {
					t.Fatalf("%s.%s written as %q: got %#v, want %#v\nconfig:\n%s", section, sp.Key, w.Text, got, w.Want, c.Text)
				}
			} else if sp.Default != nil {
				if !c17Eq(got, sp.Default) {
					t.Fatalf("%s.%s not written: got %#v, documented default %#v\nconfig:\n%s", section, sp.Key, got, sp.Default, c.Text)
				}
			}
		}
	}
	check("global", c17GlobalSpecs, c.Global)
	if _, ok := c.Global["so_mark_from_dae"]; ok != conf.Global.SoMarkFromDaeSet {
		t.Fatalf("global.so_mark_from_dae written=%v but SoMarkFromDaeSet=%v\nconfig:\n%s", ok, conf.Global.SoMarkFromDaeSet, c.Text)
	}
	// bootstrap resolvers: documented pair when unset, only the configured one otherwise.
	rs, err := BootstrapResolvers(&conf.Global)
	if err != nil {
		t.Fatalf("BootstrapResolvers: %v", err)
	}
	if w, ok := c.Global["bootstrap_resolver"]; ok {
		if len(rs) != 1 || rs[0] != netip.MustParseAddrPort(w.Want.(string)) {
			t.Fatalf("bootstrap resolvers %v, want only %v", rs, w.Want)
		}
	} else if len(rs) != 2 || rs[0] != netip.MustParseAddrPort("119.29.29.29:53") || rs[1] != netip.MustParseAddrPort("223.5.5.5:53") {
		t.Fatalf("default bootstrap resolvers %v, want 119.29.29.29:53 then 223.5.5.5:53", rs)
	}
	// dns (documented defaults apply with and without a dns section)
	if !c.HasDns && vkKnown(c17FDnsDefaults) {
		vkExcluded("C17.typed", c17FDnsDefaults)
	} else {
		check("dns", c17DnsSpecs, c.Dns)
	}
	var ups []string
	for _, u := range conf.Dns.Upstream {
		ups = append(ups, string(u))
	}
	if !c17Eq(ups, c.Upstreams) {
		t.Fatalf("dns.upstream %q, want %q\nconfig:\n%s", ups, c.Upstreams, c.Text)
	}
	wantReq, wantResp := "asis", "accept"
	if c.HasReq {
		wantReq = c.ReqFallback
		if len(conf.Dns.Routing.Request.Rules) != 1 {
			t.Fatalf("dns request rules: %d, want 1", len(conf.Dns.Routing.Request.Rules))
		}
	}
	if c.HasResp {
		wantResp = c.RespFallback
		if len(conf.Dns.Routing.Response.Rules) != 2 {
			t.Fatalf("dns response rules: %d, want 2", len(conf.Dns.Routing.Response.Rules))
		}
	}
	if n, _, err := c17FuncOrStringName(conf.Dns.Routing.Request.Fallback); err != nil || n != wantReq {
		t.Fatalf("dns.routing.request.fallback = %v (%v), want %q\nconfig:\n%s", conf.Dns.Routing.Request.Fallback, err, wantReq, c.Text)
	}
	if n, _, err := c17FuncOrStringName(conf.Dns.Routing.Response.Fallback); err != nil || n != wantResp {
		t.Fatalf("dns.routing.response.fallback = %v (%v), want %q\nconfig:\n%s", conf.Dns.Routing.Response.Fallback, err, wantResp, c.Text)
	}
	// routing: rules in order; must_ prefix normalised; fallback default direct.
	if len(conf.Routing.Rules) != len(c.Rules) {
		t.Fatalf("routing has %d rules, %d written\nconfig:\n%s", len(conf.Routing.Rules), len(c.Rules), c.Text)
	}
	for i, r := range c.Rules {
		got := conf.Routing.Rules[i]
		must := false
		for _, p := range got.Outbound.Params {
			if p.Key == "" && p.Val == "must" {
				must = true
			}
		}
		wantMust := r.OutMust || strings.Contains(r.Text, "(must)")
		if len(got.AndFunctions) != r.NFuncs || got.Outbound.Name != r.OutName || must != wantMust ||
			got.AndFunctions[0].Name != r.FirstFunc || got.AndFunctions[0].Not != r.FirstNot || len(got.AndFunctions[0].Params) != r.FirstNParams {
			t.Fatalf("routing rule %d written %q, got %s\nconfig:\n%s", i, r.Text, got.String(false, false, true), c.Text)
		}
	}
	wantFb, wantFbMust := "direct", false
	if c.Fallback != "" {
		wantFb = c.Fallback
		if k := strings.Index(wantFb, "("); k > 0 {
			wantFb = wantFb[:k]
		}
		if strings.HasPrefix(wantFb, "must_") {
			wantFb, wantFbMust = strings.TrimPrefix(wantFb, "must_"), true
		}
	}
	if n, m, err := c17FuncOrStringName(conf.Routing.Fallback); err != nil || n != wantFb || m != wantFbMust {
		t.Fatalf("routing.fallback = %#v (%v), want %q must=%v\nconfig:\n%s", conf.Routing.Fallback, err, wantFb, wantFbMust, c.Text)
	}
	// groups
	if len(conf.Group) != len(c.Groups) {
		t.Fatalf("%d groups, want %d\nconfig:\n%s", len(conf.Group), len(c.Groups), c.Text)
	}
	for i, g := range c.Groups {
		gg := conf.Group[i]
		if gg.Name != g || len(gg.Filter) != c.GroupFilters[g] || len(gg.FilterAnnotation) != len(gg.Filter) {
			t.Fatalf("group %d: name %q filters %d annotations %d; want %q with %d filters\nconfig:\n%s", i, gg.Name, len(gg.Filter), len(gg.FilterAnnotation), g, c.GroupFilters[g], c.Text)
		}
		fs, err := ParseFunctionListOrString(gg.Policy)
		wantPol := c.GroupPolicy[g]
		if k := strings.Index(wantPol, "("); k > 0 {
			wantPol = wantPol[:k]
		}
		if err != nil || len(fs) != 1 || fs[0].Name != wantPol {
			t.Fatalf("group %q policy %#v (%v), want %q", g, gg.Policy, err, c.GroupPolicy[g])
		}
	}
	var nodes, subs []string
	for _, n := range conf.Node {
		nodes = append(nodes, string(n))
	}
	for _, n := range conf.Subscription {
		subs = append(subs, string(n))
	}
	if !c17Eq(nodes, c.Nodes) || !c17Eq(subs, c.Subs) {
		t.Fatalf("node %q want %q; subscription %q want %q\nconfig:\n%s", nodes, c.Nodes, subs, c.Subs, c.Text)
	}
}

// ---- breaking edits: each must be rejected with an error -----------------------------

type c17Break struct {
	Name  string
	Apply func(t *rapid.T, c *c17Case) (text string, ok bool)
}

func c17InsertInto(text, section, line string) (string, bool) {
	// insert right after the opening brace of the top-level section
	idx := -1
	for _, pre := range []string{"\n" + section + " {\n", section + " {\n"} {
		if pre[0] != '\n' {
			if strings.HasPrefix(text, pre) {
				idx = len(pre)
			}
		} else if k := strings.Index(text, pre); k >= 0 {
			idx = k + len(pre)
		}
		if idx >= 0 {
			break
		}
	}
	if idx < 0 {
		return text, false
	}
	return text[:idx] + "  " + line + "\n" + text[idx:], true
}

func c17RemoveSection(text, section string) (string, bool) {
	start := -1
	if strings.HasPrefix(text, section+" {\n") {
		start = 0
	} else if k := strings.Index(text, "\n"+section+" {\n"); k >= 0 {
		start = k + 1
	}
	if start < 0 {
		return text, false
	}
	end := strings.Index(text[start:], "\n}\n")
	if end < 0 {
		return text, false
	}
	return text[:start] + text[start+end+3:], true
}

var c17WrongTyped = []string{
	"tproxy_port: abc", "tproxy_port: 65536", "tproxy_port: -1", "tproxy_port: 1.5", "tproxy_port: ''",
	"tproxy_port_protect: maybe", "check_interval: 30", "check_interval: fast", "sniffing_timeout: 30mss",
	"bpf_conn_state_map_size: 4294967296", "so_mark_from_dae: x", "pprof_port: 70000",
	"tproxy_port: f(x)", "log_level: f(x) && g(y)", "check_interval: name(a) [add_latency: 1]", "lan_interface: f(eth0)",
	"tproxy_port { }", "log_level { a: b }",
	"pname(x) -> direct", "'just text'", "12345",
	"bootstrap_resolver: 'not-an-addr'", "bootstrap_resolver: '9.9.9.9'",
}

var c17Breaks = []c17Break{
	{"unknown_section", func(t *rapid.T, c *c17Case) (string, bool) {
		name := rapid.SampledFrom([]string{"globals", "Global", "route", "dnss", "nodes", "x", "includes"}).Draw(t, "unknown_section")
		body := rapid.SampledFrom([]string{"", "a: b", "'lit'", "f(x) -> y", "n { }"}).Draw(t, "usbody")
		if rapid.Bool().Draw(t, "front") {
			return name + " { " + body + " }\n" + c.Text, true
		}
		return c.Text + name + " { " + body + " }\n", true
	}},
	{"unknown_key", func(t *rapid.T, c *c17Case) (string, bool) {
		sec := rapid.SampledFrom([]string{"global", "routing", "dns"}).Draw(t, "uksec")
		line := rapid.SampledFrom([]string{"no_such_key: 1", "tproxyport: 1", "TPROXY_PORT: 1", "so_mark_from_dae_set: true", "name: x", "rules: x", "_: x",
			"no_such_key: f(x)", "no_such_section { }"}).Draw(t, "ukline")
		return c17InsertInto(c.Text, sec, line)
	}},
	{"unknown_key_group", func(t *rapid.T, c *c17Case) (string, bool) {
		if len(c.Groups) == 0 {
			return "", false
		}
		k := strings.Index(c.Text, "policy: ")
		if k < 0 {
			return "", false
		}
		return c.Text[:k] + rapid.SampledFrom([]string{"polcy: min\n    ", "filter_annotation: x\n    ", "name: y\n    "}).Draw(t, "gk") + c.Text[k:], true
	}},
	{"missing_global", func(t *rapid.T, c *c17Case) (string, bool) { return c17RemoveSection(c.Text, "global") }},
	{"missing_routing", func(t *rapid.T, c *c17Case) (string, bool) { return c17RemoveSection(c.Text, "routing") }},
	{"missing_policy", func(t *rapid.T, c *c17Case) (string, bool) {
		if len(c.Groups) == 0 {
			return "", false
		}
		k := strings.Index(c.Text, "policy: ")
		e := strings.Index(c.Text[k:], "\n")
		return c.Text[:k] + c.Text[k+e+1:], true
	}},
	{"missing_dns_fallback", func(t *rapid.T, c *c17Case) (string, bool) {
		if !c.HasReq && !c.HasResp {
			return "", false
		}
		k := strings.Index(c.Text, "      fallback: ")
		e := strings.Index(c.Text[k:], "\n")
		return c.Text[:k] + c.Text[k+e+1:], true
	}},
	{"wrong_type", func(t *rapid.T, c *c17Case) (string, bool) {
		line := rapid.SampledFrom(c17WrongTyped).Draw(t, "wrong")
		key := strings.SplitN(line, ":", 2)[0]
		if _, dup := c.Global[key]; dup {
			// keep the wrong one last, so that "last one wins" cannot hide it
			txt, ok := c17RemoveSection(c.Text, "global")
			if !ok {
				return "", false
			}
			return txt + "global {\n  " + line + "\n}\n", true
		}
		return c17InsertInto(c.Text, "global", line)
	}},
	{"wrong_shape", func(t *rapid.T, c *c17Case) (string, bool) {
		alt := rapid.SampledFrom([]string{
			"dns { routing: x }", "dns { upstream { f(x) -> y } }", "dns { upstream { n { } } }",
			"dns { routing { request: asis } }", "dns { routing { request { fallback: asis } extra { } } }",
			"dns { ipversion_prefer: four }", "dns { optimistic_cache: 2 }",
			"group { g9: min }", "group { 'lit' }", "group { f(x) -> y }", "group { g9 { policy: min  n { } } }", "group { g9 { policy: min  f(x) -> y } }",
			"group { g9 { policy: min check_interval: soon } }",
			"node { n { } }", "node { f(x) -> y }", "subscription { s { a: b } }",
			"routing { n { } }", "routing { 'lit' }", "routing { fallback { } }",
		}).Draw(t, "shape")
		name := strings.SplitN(alt, " ", 2)[0]
		txt, _ := c17RemoveSection(c.Text, name)
		if name == "routing" || name == "global" {
			return txt + alt + "\n", true
		}
		return txt + alt + "\n", true
	}},
}

func TestC17_Typed(t *testing.T) {
	defer c17Quiet()()
	rapid.Check(t, func(t *rapid.T) {
		c := c17GenValid(t)
		o := c17Build(c.Text)
		if o.Panic != nil {
			t.Fatalf("%s panicked on a valid configuration: %v\n%s\nconfig:\n%s", o.Stage, o.Panic, o.Stack, c.Text)
		}
		if o.Err != nil {
			t.Fatalf("valid configuration rejected at %s: %v\nconfig:\n%s", o.Stage, o.Err, c.Text)
		}
		c17CheckValid(t, c, o.Conf)
		cl := []string{fmt.Sprintf("global_keys_%s", c17Bucket(len(c.Global)))}
		if c.HasDns {
			cl = append(cl, "dns_section")
		}
		if len(c.Groups) > 0 {
			cl = append(cl, "group_section")
		}
		if c.Fallback == "" {
			cl = append(cl, "routing_fallback_default")
		}
		absent := 0
		for _, sp := range c17GlobalSpecs {
			if _, ok := c.Global[sp.Key]; !ok && sp.Default != nil {
				absent++
			}
		}
		// one breaking edit
		b := rapid.SampledFrom(c17Breaks).Draw(t, "break")
		txt, ok := b.Apply(t, c)
		if ok {
			bo := c17Build(txt)
			if bo.Panic != nil {
				t.Fatalf("[%s] %s panicked: %v\n%s\nconfig:\n%s", b.Name, bo.Stage, bo.Panic, bo.Stack, txt)
			}
			if bo.Err == nil {
				t.Fatalf("[%s] broken configuration accepted\nconfig:\n%s", b.Name, txt)
			}
			if bo.Err.Error() == "" || bo.Conf != nil {
				t.Fatalf("[%s] unclean rejection: err=%q conf=%v", b.Name, bo.Err, bo.Conf)
			}
			cl = append(cl, "break_"+b.Name, "break_rejected_at_"+bo.Stage)
		}
		// repeated key / repeated section: anything but a panic
		rep := c.Text
		if w, okk := c.Global["tproxy_port"]; okk {
			rep, _ = c17InsertInto(rep, "global", "tproxy_port: "+w.Text)
		} else {
			rep, _ = c17InsertInto(rep, "global", "log_level: warn\n  log_level: error")
		}
		if rapid.Bool().Draw(t, "repeat_section") {
			rep += rapid.SampledFrom([]string{"global { }\n", "routing { fallback: block }\n", "dns { }\n", "group { }\n"}).Draw(t, "repsec")
			cl = append(cl, "repeated_section")
		}
		ro := c17Build(rep)
		if ro.Panic != nil {
			t.Fatalf("repeated key/section: %s panicked: %v\n%s\nconfig:\n%s", ro.Stage, ro.Panic, ro.Stack, rep)
		}
		if ro.Err != nil && ro.Err.Error() == "" {
			t.Fatalf("repeated key/section: empty error message")
		}
		// a list-valued key written on two lines of one section (what merged include
		// files produce): the typed list is what is written, in order - or a clean
		// error; values are never dropped silently.
		{
			type lk struct {
				key  string
				a, b string
				want []string
				get  func(c *Config) []string
			}
			cands := []lk{
				{"lan_interface", "br0, br1", "veth9", c17Strs("br0", "br1", "veth9"), func(c *Config) []string { return c.Global.LanInterface }},
				{"wan_interface", "ppp0", "eth7,wlan3", c17Strs("ppp0", "eth7", "wlan3"), func(c *Config) []string { return c.Global.WanInterface }},
				{"tcp_check_url", "'http://one.example/a'", "'http://two.example/b,9.9.9.9'", c17Strs("http://one.example/a", "http://two.example/b", "9.9.9.9"), func(c *Config) []string { return c.Global.TcpCheckUrl }},
				{"udp_check_dns", "'one.example:53'", "'two.example:53,9.9.9.9'", c17Strs("one.example:53", "two.example:53", "9.9.9.9"), func(c *Config) []string { return c.Global.UdpCheckDns }},
			}
			var free []lk
			for _, k := range cands {
				if _, written := c.Global[k.key]; !written {
					free = append(free, k)
				}
			}
			if len(free) > 0 {
				k := free[rapid.IntRange(0, len(free)-1).Draw(t, "list_key_twice")]
				// c17InsertInto inserts at the top of the section: second line first
				two, ok1 := c17InsertInto(c.Text, "global", k.key+": "+k.b)
				two, ok2 := c17InsertInto(two, "global", k.key+": "+k.a)
				if ok1 && ok2 {
					lo := c17Build(two)
					if lo.Panic != nil {
						t.Fatalf("list key on two lines: %s panicked: %v\n%s\nconfig:\n%s", lo.Stage, lo.Panic, lo.Stack, two)
					}
					if lo.Err == nil {
						if got := k.get(lo.Conf); !reflect.DeepEqual(got, k.want) {
							t.Fatalf("%s is written on two lines (%s / %s) and accepted, but the typed configuration holds %q, not what is written (%q)\nconfig:\n%s", k.key, k.a, k.b, got, k.want, two)
						}
						cl = append(cl, "list_key_on_two_lines_accumulates")
					} else {
						cl = append(cl, "list_key_on_two_lines_rejected")
					}
				}
			}
		}
		key := ""
		if absent > 0 && len(c.Global) > 0 {
			ks := []string{}
			for k, w := range c.Global {
				ks = append(ks, k+"="+w.Text)
			}
			sort.Strings(ks)
			key = strings.Join(ks, ";") + "|" + b.Name + "|" + fmt.Sprint(c.HasDns, len(c.Rules), c.Fallback)
		}
		vkCase("C17.typed", key, func() any { return map[string]any{"config": c.Text, "break": b.Name, "broken": txt} }, cl...)
	})
}

func c17Bucket(n int) string {
	switch {
	case n == 0:
		return "0"
	case n <= 5:
		return "1-5"
	case n <= 15:
		return "6-15"
	default:
		return "16+"
	}
}

// The shipped example must build and show the values it spells (a fixed anchor for the
// table above: every key of example.dae that states its default is cross-checked).
func TestC17_ExampleDae(t *testing.T) {
	defer c17Quiet()()
	repo := "/repo"
	if v := strings.TrimSpace(os.Getenv("VERIF_REPO")); v != "" {
		repo = v
	}
	b, err := os.ReadFile(repo + "/example.dae")
	if err != nil {
		t.Fatalf("harness: %v", err)
	}
	o := c17Build(string(b))
	if o.Panic != nil || o.Err != nil {
		t.Fatalf("example.dae: stage %s panic=%v err=%v\n%s", o.Stage, o.Panic, o.Err, o.Stack)
	}
	c := o.Conf
	if c.Global.TproxyPort != 12345 || c.Global.LogLevel != "info" || c.Global.DialMode != "domain" || len(c.Global.WanInterface) != 1 ||
		c.Global.CheckTolerance != 50*time.Millisecond || len(c.Group) != 3 || len(c.Routing.Rules) != 6 || len(c.Node) != 6 || len(c.Subscription) != 5 ||
		len(c.Dns.Upstream) != 2 || len(c.Dns.Routing.Request.Rules) != 1 || !c.Global.SoMarkFromDaeSet {
		t.Fatalf("example.dae decoded unexpectedly: %+v", c)
	}
	// "# Default: ..." comments of example.dae for keys it leaves commented out
	if !c.Dns.OptimisticCache || c.Dns.OptimisticCacheTtl != 60 || c.Dns.MaxCacheSize != 0 || c.Global.FallbackResolver != "8.8.8.8:53" {
		t.Fatalf("example.dae: documented defaults not applied: %+v %+v", c.Dns, c.Global)
	}
	if n, _, _ := c17FuncOrStringName(c.Routing.Fallback); n != "my_group" {
		t.Fatalf("example.dae: routing fallback %v", c.Routing.Fallback)
	}
	// emptyConfig of cmd/run.go
	o = c17Build("global{} routing{}")
	if o.Panic != nil || o.Err != nil {
		t.Fatalf("global{} routing{}: %v %v", o.Panic, o.Err)
	}
	vkCase("C17.example", "example.dae", func() any { return "example.dae + global{} routing{}" })
}

func TestC17_Finding_FC173(t *testing.T) {
	defer c17Quiet()()
	with := c17Build("global{} routing{} dns{}")
	without := c17Build("global{} routing{}")
	if with.Panic != nil || with.Err != nil || without.Panic != nil || without.Err != nil {
		t.Fatalf("minimal configurations must build: %v %v %v %v", with.Panic, with.Err, without.Panic, without.Err)
	}
	if !with.Conf.Dns.OptimisticCache || with.Conf.Dns.OptimisticCacheTtl != 60 {
		t.Fatalf("dns{}: documented defaults (optimistic_cache true, optimistic_cache_ttl 60) not applied: %+v", with.Conf.Dns)
	}
	d := without.Conf.Dns
	ok := d.OptimisticCache && d.OptimisticCacheTtl == 60 && d.MaxCacheSize == 0
	if vkKnown(c17FDnsDefaults) {
		if !ok {
			vkKnownReproduced(c17FDnsDefaults)
			t.Logf("%s still reproduces: without a dns section optimistic_cache=%v optimistic_cache_ttl=%d", c17FDnsDefaults, d.OptimisticCache, d.OptimisticCacheTtl)
		} else {
			t.Logf("%s is listed as known but no longer reproduces", c17FDnsDefaults)
		}
		return
	}
	if !ok {
		t.Fatalf("%s: no dns section: optimistic_cache=%v optimistic_cache_ttl=%d, documented defaults are true / 60 (an empty dns{} gets them)", c17FDnsDefaults, d.OptimisticCache, d.OptimisticCacheTtl)
	}
	vkCase("C17.example", c17FDnsDefaults, func() any { return "global{} routing{} vs global{} routing{} dns{}" })
}

package config

// C17 (d) includes: config.NewMerger(entry).Merge() over generated directory trees.
// Reference model: the merged configuration is, per section name, the including
// file's own items first, then the (recursively merged) items of every included file
// in listed order, glob matches in filepath.Glob order; relative patterns are resolved
// against the directory of the *entry* file (docs/en/configuration/separate-config.md).
// A circular include must be rejected; a file without the .dae suffix, a directory,
// or a file outside the entry directory must never be read (canary files carry marker
// items or a syntax error that would show up in the result or in the error).

import (
	"fmt"
	"os"
	"path/filepath"
	"runtime/debug"
	"sort"
	"strings"
	"sync/atomic"
	"testing"

	"github.com/daeuniverse/dae/pkg/config_parser"
	"pgregory.net/rapid"
)

type c17IncSec struct {
	Name  string
	Items []string // rendered items: "lit" or "key:val"
	Src   []string // as written
}

type c17IncFile struct {
	ID       int
	Rel      string // relative to the case root
	Abs      string
	Canary   bool // must never be read
	Broken   bool // canary with a syntax error
	Includes []string
	Text     string
	Secs     []c17IncSec
}

var c17IncCounter atomic.Int64

// candidate files; "entry/" is the entry configuration directory.
var c17IncLegit = []string{"entry/a.dae", "entry/b.dae", "entry/d1/a.dae", "entry/d1/b.dae", "entry/d1/dd/c.dae", "entry/d2/a.dae", "entry/d2/z.dae"}
var c17IncCanaries = []string{"outside/o.dae", "outside/p.dae", "entry/d1/notes.txt", "entry/notes.conf", "entry/d1/b.dae.bak", "o.dae"}

var c17IncRelPatterns = []string{
	"a.dae", "b.dae", "d1/a.dae", "d1/b.dae", "d1/dd/c.dae", "d2/a.dae", "d2/z.dae",
	"d1/*.dae", "d2/*.dae", "d1/dd/*.dae", "*/*.dae", "d1/*", "d1/*/*.dae", "d?/a.dae", "d[12]/*.dae", "./d1/a.dae", "d1/./b.dae", "d2/../d1/a.dae",
	"*.dae", "config.dae", // the entry itself
	"../outside/o.dae", "../outside/*.dae", "d1/../../outside/p.dae", "../o.dae", "../*.dae", "../entry/a.dae",
	"d1/notes.txt", "notes.conf", "*.conf", "d1/b.dae.bak", "d1/x.dae", "d1/x.dae/*",
	"nope.dae", "d3/*.dae",
}

func c17IncNeedsQuote(p string) bool {
	for i := 0; i < len(p); i++ {
		c := p[i]
		ok := c >= 'a' && c <= 'z' || c >= 'A' && c <= 'Z' || c >= '0' && c <= '9' || strings.IndexByte("_*+-./\\^!#$%=@", c) >= 0
		if !ok {
			return true
		}
	}
	return strings.HasPrefix(p, "/*")
}

func c17IncGenFile(t *rapid.T, id int, rel, root string, canary bool, hasAbsOutside bool) *c17IncFile {
	f := &c17IncFile{ID: id, Rel: rel, Abs: filepath.Join(root, rel), Canary: canary}
	type part struct {
		text string
		inc  []string
	}
	var parts []part
	nsec := rapid.IntRange(0, 3).Draw(t, "nsec")
	if canary {
		nsec = rapid.IntRange(1, 2).Draw(t, "ncsec")
	}
	for s := 0; s < nsec; s++ {
		sec := c17IncSec{Name: rapid.SampledFrom([]string{"s1", "s2", "node", "global"}).Draw(t, "secname")}
		n := rapid.IntRange(0, 3).Draw(t, "nitems")
		if canary && n == 0 {
			n = 1
		}
		for i := 0; i < n; i++ {
			tag := "m"
			if canary {
				tag = "CANARY"
			}
			if rapid.Bool().Draw(t, "decl") {
				k, v := fmt.Sprintf("k%d_%d_%d", id, s, i), fmt.Sprintf("%s%d_%d_%d", tag, id, s, i)
				sec.Items = append(sec.Items, k+":"+v)
				sec.Src = append(sec.Src, k+": "+v)
			} else {
				v := fmt.Sprintf("%s%d_%d_%d", tag, id, s, i)
				sec.Items = append(sec.Items, v)
				sec.Src = append(sec.Src, v)
			}
		}
		f.Secs = append(f.Secs, sec)
		parts = append(parts, part{text: sec.Name + " {\n  " + strings.Join(sec.Src, "\n  ") + "\n}"})
	}
	// include sections (0-2), each with 0-3 patterns
	ninc := rapid.SampledFrom([]int{0, 1, 1, 1, 2}).Draw(t, "ninc")
	if strings.HasSuffix(rel, "config.dae") && ninc == 0 {
		ninc = 1
	}
	for k := 0; k < ninc; k++ {
		np := rapid.IntRange(0, 3).Draw(t, "npat")
		var lines, pats []string
		for i := 0; i < np; i++ {
			p := rapid.SampledFrom(c17IncRelPatterns).Draw(t, "pattern")
			if rapid.IntRange(0, 4).Draw(t, "absolute") == 0 {
				// absolute form of the same pattern (not cleaned when it holds "..": keep those relative)
				if !strings.Contains(p, "..") && !strings.HasPrefix(p, "./") && !strings.Contains(p, "/./") {
					p = filepath.Join(root, "entry") + "/" + p
				} else if hasAbsOutside && strings.Contains(p, "outside/o.dae") {
					p = filepath.Join(root, "outside", "o.dae")
				}
			}
			pats = append(pats, p)
			if c17IncNeedsQuote(p) || rapid.IntRange(0, 3).Draw(t, "quote") == 0 {
				lines = append(lines, "'"+p+"'")
			} else {
				lines = append(lines, p)
			}
		}
		inc := "include {\n  " + strings.Join(lines, "\n  ") + "\n}"
		pos := rapid.IntRange(0, len(parts)).Draw(t, "incpos")
		parts = append(parts[:pos], append([]part{{text: inc, inc: pats}}, parts[pos:]...)...)
	}
	// the include patterns in the order in which they stand in the file
	texts := make([]string, 0, len(parts))
	for _, pt := range parts {
		texts = append(texts, pt.text)
		f.Includes = append(f.Includes, pt.inc...)
	}
	f.Text = "# file " + rel + "\n" + strings.Join(texts, "\n") + "\n"
	if canary && rapid.IntRange(0, 2).Draw(t, "broken") == 0 {
		f.Broken = true
		f.Text += "CANARYBROKEN" + fmt.Sprint(id) + " { { : -> \n"
	}
	return f
}

type c17IncModel struct {
	entryDir string
	files    map[string]*c17IncFile
	cycle    bool
	dup      bool
	outside  bool
	levels   int
	reads    map[string]int
	globs    int
}

func (m *c17IncModel) inDir(p string) bool {
	rel, err := filepath.Rel(m.entryDir, filepath.Dir(p))
	return err == nil && !strings.HasPrefix(rel, "..")
}

func (m *c17IncModel) merge(path string, stack []string) map[string][]string {
	for _, s := range stack {
		if s == path {
			m.cycle = true
			return nil
		}
	}
	m.reads[path]++
	if m.reads[path] > 1 {
		m.dup = true
	}
	if len(stack)+1 > m.levels {
		m.levels = len(stack) + 1
	}
	f := m.files[path]
	res := map[string][]string{}
	if f == nil {
		// a file the harness did not create (cannot happen); treat as unreadable
		m.outside = true
		return res
	}
	for _, s := range f.Secs {
		res[s.Name] = append(res[s.Name], s.Items...)
	}
	stack = append(stack, path)
	for _, pat := range f.Includes {
		full := pat
		if !filepath.IsAbs(pat) {
			full = filepath.Join(m.entryDir, pat)
		}
		matches, err := filepath.Glob(full)
		if err != nil {
			m.outside = true // malformed pattern: an error is acceptable
			continue
		}
		if strings.ContainsAny(pat, "*?[") {
			m.globs++
		}
		for _, mt := range matches {
			if !strings.HasSuffix(mt, ".dae") {
				continue
			}
			if fi, err := os.Stat(mt); err != nil || fi.IsDir() {
				continue
			}
			if !m.inDir(mt) {
				m.outside = true
				continue
			}
			child := m.merge(filepath.Clean(mt), stack)
			names := make([]string, 0, len(child))
			for n := range child {
				names = append(names, n)
			}
			sort.Strings(names)
			for _, n := range names {
				res[n] = append(res[n], child[n]...)
			}
		}
	}
	return res
}

type c17MergeOutcome struct {
	Secs    []*config_parser.Section
	Entries []string
	Err     error
	Panic   any
	Stack   string
}

func c17Merge(entry string) (o c17MergeOutcome) {
	defer func() {
		if r := recover(); r != nil {
			o.Panic = r
			o.Stack = c17CompactStack(string(debug.Stack()))
		}
	}()
	o.Secs, o.Entries, o.Err = NewMerger(entry).Merge()
	return
}

func c17IncItems(items []*config_parser.Item) []string {
	out := make([]string, 0, len(items))
	for _, it := range items {
		switch v := it.Value.(type) {
		case *config_parser.Param:
			if v.Key == "" {
				out = append(out, v.Val)
			} else {
				out = append(out, v.Key+":"+v.Val)
			}
		default:
			out = append(out, fmt.Sprintf("<%T>", it.Value))
		}
	}
	return out
}

func c17IncDump(secs []*config_parser.Section) (string, map[string][]string, error) {
	m := map[string][]string{}
	for _, s := range secs {
		if _, dup := m[s.Name]; dup {
			return "", nil, fmt.Errorf("section %q appears twice in the merged result", s.Name)
		}
		m[s.Name] = c17IncItems(s.Items)
	}
	names := make([]string, 0, len(m))
	for n := range m {
		names = append(names, n)
	}
	sort.Strings(names)
	var sb strings.Builder
	for _, n := range names {
		fmt.Fprintf(&sb, "%s=%q\n", n, m[n])
	}
	return sb.String(), m, nil
}

func TestC17_Includes(t *testing.T) {
	base := os.Getenv("VERIF_RUNDIR")
	if base == "" {
		base = os.TempDir()
	}
	base, _ = filepath.Abs(base)
	rapid.Check(t, func(t *rapid.T) {
		root := filepath.Join(base, "c17inc", fmt.Sprintf("c%d", c17IncCounter.Add(1)))
		if err := os.MkdirAll(root, 0o755); err != nil {
			t.Fatalf("harness: %v", err)
		}
		defer os.RemoveAll(root)
		entryDir := filepath.Join(root, "entry")
		var files []*c17IncFile
		id := 0
		// decide presence first (patterns may point at absent files: no match)
		present := map[string]bool{}
		for _, rel := range c17IncLegit {
			present[rel] = rapid.IntRange(0, 3).Draw(t, "present_"+rel) > 0
		}
		for _, rel := range c17IncCanaries {
			present[rel] = rapid.IntRange(0, 2).Draw(t, "canary_"+rel) > 0
		}
		absOutside := present["outside/o.dae"]
		files = append(files, c17IncGenFile(t, id, "entry/config.dae", root, false, absOutside))
		id++
		for _, rel := range c17IncLegit {
			if present[rel] {
				files = append(files, c17IncGenFile(t, id, rel, root, false, absOutside))
				id++
			}
		}
		for _, rel := range c17IncCanaries {
			if present[rel] {
				files = append(files, c17IncGenFile(t, id, rel, root, true, absOutside))
				id++
			}
		}
		model := &c17IncModel{entryDir: entryDir, files: map[string]*c17IncFile{}, reads: map[string]int{}}
		for _, d := range []string{"entry/d1/dd", "entry/d2", "outside"} {
			_ = os.MkdirAll(filepath.Join(root, d), 0o755)
		}
		dirNamedDae := rapid.Bool().Draw(t, "dir_named_x.dae")
		if dirNamedDae {
			_ = os.MkdirAll(filepath.Join(root, "entry/d1/x.dae"), 0o755)
			_ = os.WriteFile(filepath.Join(root, "entry/d1/x.dae/inner.txt"), []byte("s1 { CANARY_inner }\n"), 0o600)
		}
		for _, f := range files {
			if err := os.WriteFile(f.Abs, []byte(f.Text), 0o600); err != nil {
				t.Fatalf("harness: %v", err)
			}
			model.files[f.Abs] = f
		}
		entry := filepath.Join(entryDir, "config.dae")
		want := model.merge(entry, nil)

		o := c17Merge(entry)
		describe := func() string {
			var sb strings.Builder
			for _, f := range files {
				fmt.Fprintf(&sb, "--- %s (canary=%v broken=%v)\n%s", f.Rel, f.Canary, f.Broken, f.Text)
			}
			fmt.Fprintf(&sb, "--- dir entry/d1/x.dae exists: %v; entry dir %s\n", dirNamedDae, entryDir)
			return sb.String()
		}
		if o.Panic != nil {
			t.Fatalf("Merge panicked: %v\n%s\n%s", o.Panic, o.Stack, describe())
		}
		// same input, same output (3 runs)
		d1, got, derr := c17IncDump(o.Secs)
		for run := 0; run < 2; run++ {
			o2 := c17Merge(entry)
			if o2.Panic != nil {
				t.Fatalf("Merge panicked on run %d: %v\n%s", run+2, o2.Panic, describe())
			}
			if (o2.Err == nil) != (o.Err == nil) {
				t.Fatalf("Merge is not deterministic: run 1 err=%v, run %d err=%v\n%s", o.Err, run+2, o2.Err, describe())
			}
			if o.Err == nil {
				d2, _, _ := c17IncDump(o2.Secs)
				if d1 != d2 {
					t.Fatalf("Merge is not deterministic:\nrun 1:\n%s\nrun %d:\n%s\n%s", d1, run+2, d2, describe())
				}
			}
		}
		cl := []string{}
		if o.Err != nil {
			msg := o.Err.Error()
			if msg == "" || o.Secs != nil {
				t.Fatalf("unclean error: %q secs=%v", msg, o.Secs)
			}
			if strings.Contains(msg, "failed to parse config file") || strings.Contains(msg, "CANARY") {
				t.Fatalf("a file that must never be read was read (its content shows in the error): %v\n%s", o.Err, describe())
			}
			if !model.cycle && !model.dup && !model.outside {
				t.Fatalf("a valid include graph was rejected: %v\n%s", o.Err, describe())
			}
			cl = append(cl, "rejected")
		} else {
			if derr != nil {
				t.Fatalf("%v\n%s", derr, describe())
			}
			if model.cycle {
				t.Fatalf("a circular include was accepted\nresult:\n%s\n%s", d1, describe())
			}
			if strings.Contains(d1, "CANARY") {
				t.Fatalf("content of a file that must never be read is in the result:\n%s\n%s", d1, describe())
			}
			for _, e := range o.Entries {
				f := model.files[filepath.Clean(e)]
				if f == nil || f.Canary || !strings.HasSuffix(e, ".dae") || !model.inDir(e) {
					t.Fatalf("Merge reports having read %q, which must never be read\n%s", e, describe())
				}
			}
			if !model.dup {
				names := map[string]bool{}
				for n := range want {
					names[n] = true
				}
				for n := range got {
					names[n] = true
				}
				for n := range names {
					if n == "include" {
						continue
					}
					if strings.Join(got[n], "\x00") != strings.Join(want[n], "\x00") {
						t.Fatalf("section %q merged as %q, want %q (own items first, then each included file in listed order)\n%s", n, got[n], want[n], describe())
					}
				}
			}
			cl = append(cl, "merged")
		}
		if model.cycle {
			cl = append(cl, "cycle")
		}
		if model.dup {
			cl = append(cl, "file_reached_twice")
		}
		if model.outside {
			cl = append(cl, "escape_attempt")
		}
		if model.globs > 0 {
			cl = append(cl, "glob")
		}
		if model.levels >= 3 {
			cl = append(cl, "levels_ge3")
		}
		ncan := 0
		for _, f := range files {
			if f.Canary {
				ncan++
			}
		}
		if ncan > 0 {
			cl = append(cl, "has_canary")
		}
		key := ""
		if model.levels >= 2 {
			key = strings.ReplaceAll(describe(), root, "<root>")
		}
		vkCase("C17.includes", key, func() any {
			e := ""
			if o.Err != nil {
				e = o.Err.Error()
			}
			return map[string]any{"tree": strings.ReplaceAll(describe(), root, "<root>"), "err": strings.ReplaceAll(e, root, "<root>"), "result": d1}
		}, cl...)
	})
}

// The entry file itself is subject to the same rule as included files: only a regular
// file whose name ends in ".dae" may be read. Included files pass a glob filter first,
// the entry does not, so it is probed on its own.
func TestC17_EntryName(t *testing.T) {
	base := os.Getenv("VERIF_RUNDIR")
	if base == "" {
		base = os.TempDir()
	}
	base, _ = filepath.Abs(base)
	type nameCase struct {
		Name  string
		IsDae bool
		Dir   bool
	}
	names := []nameCase{
		{"config.dae", true, false}, {"a-b_c.dae", true, false}, {"x.y.dae", true, false},
		{"config.conf", false, false}, {"config", false, false}, {"config.dae.bak", false, false}, {"config.DAE", false, false},
		{"config.Dae", false, false}, {"config.dae~", false, false}, {"configdae", false, false}, {"config.dae.txt", false, false},
		{"config.da", false, false}, {"dae", false, false}, {"config.daee", false, false}, {"config.dae ", false, false},
		{"x.dae", true, true}, {"confdir", false, true},
	}
	rapid.Check(t, func(t *rapid.T) {
		root := filepath.Join(base, "c17entry", fmt.Sprintf("c%d", c17IncCounter.Add(1)))
		entryDir := filepath.Join(root, "entry")
		if err := os.MkdirAll(filepath.Join(entryDir, "d1"), 0o755); err != nil {
			t.Fatalf("harness: %v", err)
		}
		defer os.RemoveAll(root)
		nc := rapid.SampledFrom(names).Draw(t, "name")
		sub := rapid.SampledFrom([]string{"", "d1"}).Draw(t, "subdir") // the entry's own directory is the entry directory
		dir := filepath.Join(entryDir, sub)
		entry := filepath.Join(dir, nc.Name)
		child := filepath.Join(dir, "child.dae")
		if err := os.WriteFile(child, []byte("s1 {\n  child_item\n}\n"), 0o600); err != nil {
			t.Fatalf("harness: %v", err)
		}
		broken := rapid.IntRange(0, 2).Draw(t, "broken") == 0
		withInclude := rapid.Bool().Draw(t, "with_include")
		tag := "ENTRYCANARY"
		if nc.IsDae && !nc.Dir {
			tag = "entry_item"
			broken = false
		}
		text := "s1 {\n  " + tag + "_1\n  k: " + tag + "_2\n}\n"
		if withInclude {
			text += "include {\n  " + rapid.SampledFrom([]string{"child.dae", "'*.dae'", child}).Draw(t, "pattern") + "\n}\n"
		}
		if broken {
			text += "ENTRYCANARYBROKEN { { : ->\n"
		}
		if nc.Dir {
			if err := os.MkdirAll(entry, 0o755); err != nil {
				t.Fatalf("harness: %v", err)
			}
			_ = os.WriteFile(filepath.Join(entry, "inner.dae"), []byte("s1 {\n  ENTRYCANARY_inner\n}\n"), 0o600)
		} else if err := os.WriteFile(entry, []byte(text), 0o600); err != nil {
			t.Fatalf("harness: %v", err)
		}
		// a relative spelling of the same entry must behave the same
		arg := entry
		if rapid.IntRange(0, 3).Draw(t, "unclean") == 0 {
			arg = dir + "/./" + nc.Name
		}
		o := c17Merge(arg)
		desc := fmt.Sprintf("entry %q (regular .dae file: %v, directory: %v, broken: %v, include: %v)\n%s", strings.ReplaceAll(arg, root, "<root>"), nc.IsDae && !nc.Dir, nc.Dir, broken, withInclude, text)
		if o.Panic != nil {
			t.Fatalf("Merge panicked: %v\n%s\n%s", o.Panic, o.Stack, desc)
		}
		dump, _, _ := c17IncDump(o.Secs)
		if nc.IsDae && !nc.Dir {
			// a proper entry must load (self-include through '*.dae' is a cycle: rejection allowed)
			selfGlob := withInclude && strings.Contains(text, "'*.dae'")
			if o.Err != nil {
				if !selfGlob {
					t.Fatalf("a valid .dae entry was rejected: %v\n%s", o.Err, desc)
				}
			} else {
				if selfGlob {
					t.Fatalf("an entry that includes itself through a glob was accepted\n%s\n%s", dump, desc)
				}
				want := "entry_item_1\x00k:entry_item_2"
				if withInclude {
					want += "\x00child_item"
				}
				var got []string
				for _, s := range o.Secs {
					if s.Name == "s1" {
						got = c17IncItems(s.Items)
					}
				}
				if strings.Join(got, "\x00") != want {
					t.Fatalf("entry merged as %q\n%s", got, desc)
				}
			}
			vkCase("C17.entryname", "", nil, "dae_entry")
			return
		}
		// anything else must be rejected without being read
		if o.Err == nil {
			t.Fatalf("an entry that is not a regular .dae file was read and merged:\n%s\n%s", dump, desc)
		}
		msg := o.Err.Error()
		if msg == "" || o.Secs != nil {
			t.Fatalf("unclean rejection: %q secs=%v", msg, o.Secs)
		}
		if strings.Contains(msg, "ENTRYCANARY") || strings.Contains(msg, "failed to parse config file") {
			t.Fatalf("the content of a non-.dae entry shows in the error, so it was read: %v\n%s", o.Err, desc)
		}
		cls := "non_dae_entry"
		if nc.Dir {
			cls = "directory_entry"
		}
		vkCase("C17.entryname", fmt.Sprintf("%s|%s|%v|%v", nc.Name, sub, broken, withInclude), func() any {
			return map[string]any{"entry": nc.Name, "err": strings.ReplaceAll(msg, root, "<root>")}
		}, cls)
	})
}

package bitlist

// C12 (shared with C11) — CompactBitList is the packed array under the succinct trie
// (labels, rank and select samples). State-machine check of Append / Set / Get /
// Tighten over unit sizes 1..64 against a plain []uint64.

import (
	"fmt"
	"testing"

	"pgregory.net/rapid"
)

func c12Value(t *rapid.T, unit int, label string) uint64 {
	var max uint64 = 1<<uint(unit) - 1
	if unit == 64 {
		max = ^uint64(0)
	}
	switch rapid.IntRange(0, 5).Draw(t, label+"_kind") {
	case 0:
		return 0
	case 1:
		return max
	case 2:
		return max &^ (max >> 1) // top bit only
	case 3:
		return 1
	default:
		return rapid.Uint64Range(0, max).Draw(t, label)
	}
}

func TestC12_BitList(t *testing.T) {
	rapid.Check(t, func(t *rapid.T) {
		unit := 0
		if rapid.Bool().Draw(t, "edgeunit") {
			unit = rapid.SampledFrom([]int{1, 2, 3, 7, 8, 9, 15, 16, 17, 19, 31, 32, 33, 47, 48, 49, 63, 64}).Draw(t, "unit")
		} else {
			unit = rapid.IntRange(1, 64).Draw(t, "unitu")
		}
		bl := NewCompactBitList(unit)
		var model []uint64
		nops := rapid.IntRange(1, 120).Draw(t, "nops")
		sets, overwrites, gaps, tightens := 0, 0, 0, 0
		check := func(i int, why string) {
			if got := bl.Get(i); got != model[i] {
				t.Fatalf("unit size %d, %s: Get(%d) = %#x, want %#x (len %d)", unit, why, i, got, model[i], len(model))
			}
		}
		for op := 0; op < nops; op++ {
			switch rapid.IntRange(0, 9).Draw(t, "op") {
			case 0, 1, 2, 3, 4: // Append — what the trie builder does
				v := c12Value(t, unit, "v")
				bl.Append(v)
				model = append(model, v)
				check(len(model)-1, "after Append")
				if len(model) > 1 {
					check(len(model)-2, "neighbour after Append")
				}
			case 5, 6: // Set on an existing index or a little past the end
				i := rapid.IntRange(0, len(model)+2).Draw(t, "seti")
				v := c12Value(t, unit, "sv")
				bl.Set(i, v)
				if i < len(model) {
					overwrites++
				} else if i > len(model) {
					gaps++
				}
				for len(model) <= i {
					model = append(model, 0)
				}
				model[i] = v
				sets++
				check(i, "after Set")
				if i > 0 {
					check(i-1, "left neighbour after Set")
				}
				if i+1 < len(model) {
					check(i+1, "right neighbour after Set")
				}
			case 7:
				bl.Tighten()
				tightens++
			default:
				if len(model) > 0 {
					check(rapid.IntRange(0, len(model)-1).Draw(t, "geti"), "random Get")
				}
			}
		}
		if rapid.Bool().Draw(t, "finaltighten") {
			bl.Tighten()
		}
		for i := range model {
			check(i, "final sweep")
		}
		cl := []string{}
		switch {
		case unit < 16:
			cl = append(cl, "unit_lt16")
		case unit == 16 || unit == 32 || unit == 48 || unit == 64:
			cl = append(cl, "unit_mult16")
		case unit < 32:
			cl = append(cl, "unit_17_31")
		default:
			cl = append(cl, "unit_gt32")
		}
		if overwrites > 0 {
			cl = append(cl, "overwrite")
		}
		if gaps > 0 {
			cl = append(cl, "gap")
		}
		key := ""
		if len(model) >= 2 {
			key = fmt.Sprintf("%d|%x", unit, model)
		}
		vkCase("C12.bitlist", key, func() any {
			return map[string]any{"unit": unit, "len": len(model), "sets": sets, "tightens": tightens}
		}, cl...)
	})
}

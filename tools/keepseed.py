#!/usr/bin/env python3
"""keepseed.py <seed out dir> <seed id e.g. C11-a> <property> <dest pkg dir> <detected_by: comma list or 'MISSED'> <needs...>
Copies a confirmed seeded change into /verif/seeded/<id>/ with meta.json."""
import sys, os, shutil, json, re, subprocess
src, sid, prop, dest, detected = sys.argv[1:6]
needs = " ".join(sys.argv[6:])
d = os.path.join("/verif/seeded", sid)
shutil.rmtree(d, ignore_errors=True)
os.makedirs(d)
shutil.copy(os.path.join(src, "patch.diff"), d)
shutil.copytree(os.path.join(src, "demo"), os.path.join(d, "demo"))
notes = open(os.path.join(src, "notes.md")).read() if os.path.exists(os.path.join(src, "notes.md")) else ""
open(os.path.join(d, "notes.md"), "w").write(notes)
cmd = ""
for f in os.listdir(os.path.join(src, "demo")):
    if f.startswith("README"):
        m = re.search(r"go test .*", open(os.path.join(src, "demo", f)).read())
        if m: cmd = m.group(0)
files = subprocess.run(["grep", "-h", "^+++ ", os.path.join(src, "patch.diff")], capture_output=True, text=True).stdout.split("\n")
meta = {"id": sid, "breaks_property": prop, "files_changed": [f[6:] for f in files if f],
        "needs_to_manifest": needs, "demo": {"copy_to": dest, "cmd": cmd},
        "confirmed": "tools/seedverify.sh: patch applies at /repo HEAD, builds (incl. -tags dae_stub_ebpf control/cmd), pinned suite passes, demo passes on the original tree and fails with the patch",
        "checks_run": "VERIF_REPO=<scratch worktree with patch> ./check %s (quick tier)" % prop,
        "detected_by": [] if detected == "MISSED" else detected.split(","), "missed": detected == "MISSED"}
json.dump(meta, open(os.path.join(d, "meta.json"), "w"), indent=1)
print("kept", d)

#!/bin/bash
# usage: seedverify.sh <seed out dir (patch.diff, demo/)> <dest pkg dir relative to repo root>
# Confirms: patch applies at /repo HEAD, builds, pinned suite passes, demo passes without and fails with the patch.
set -u
SEED=$1; DEST=$2
export GOFLAGS=-mod=mod GOPROXY=off
WT=/tmp/sv-$$
git -C /repo worktree add -q $WT HEAD || exit 2
trap 'git -C /repo worktree remove --force $WT >/dev/null 2>&1' EXIT
cd $WT
CMD=$(grep -h -o 'go test .*' $SEED/demo/README* | head -1)
[ -z "$CMD" ] && { echo "no go test line in README"; exit 2; }
cp $SEED/demo/*_test.go $DEST/ 2>/dev/null
echo "== demo cmd: $CMD"
echo "== demo on original tree (expect ok)"
eval "$CMD" 2>&1 | tail -3; ORIG=${PIPESTATUS[0]}
git apply $SEED/patch.diff || { echo "PATCH DOES NOT APPLY"; exit 2; }
echo "== build"
go build ./common/... ./component/... ./config/... ./pkg/... && go build -tags dae_stub_ebpf ./control/ ./cmd/... ; BUILD=$?
echo "== pinned tests"
rm -f $DEST/*demo*_test.go; for f in $SEED/demo/*_test.go; do rm -f $DEST/$(basename $f); done
go test -vet=off -count=1 ./common/... ./component/... ./config/... ./pkg/... >/tmp/sv-$$.log 2>&1; PINNED=$?
grep -v "^ok\|no test files" /tmp/sv-$$.log | head -5; rm -f /tmp/sv-$$.log
cp $SEED/demo/*_test.go $DEST/
echo "== demo with patch (expect FAIL)"
eval "$CMD" 2>&1 | tail -3; MUT=${PIPESTATUS[0]}
echo "RESULT orig_demo_rc=$ORIG build_rc=$BUILD pinned_rc=$PINNED patched_demo_rc=$MUT"
if [ $ORIG -eq 0 ] && [ $BUILD -eq 0 ] && [ $PINNED -eq 0 ] && [ $MUT -ne 0 ]; then echo "SEED CONFIRMED"; else echo "SEED NOT CONFIRMED"; fi

#!/bin/bash
# Re-run every kept seeded change against the current checks (quick tier): expect a VIOLATION from one of meta.detected_by.
# usage: seedsweep.sh [parallel] > log
cd /verif
ls -d seeded/*/ | xargs -n1 basename | xargs -P ${1:-3} -I{} bash -c '
  id={}; d=/verif/seeded/$id; props=$(python3 -c "import json;m=json.load(open(\"$d/meta.json\"));print(\",\".join(m[\"detected_by\"]) or m[\"breaks_property\"])")
  wt=/tmp/ss-$id; git -C /repo worktree add -q $wt HEAD || exit
  if ! (cd $wt && git apply $d/patch.diff 2>/dev/null); then echo "$id PATCH-DOES-NOT-APPLY"; git -C /repo worktree remove --force $wt; exit; fi
  res=MISSED
  for p in ${props//,/ }; do VERIF_REPO=$wt ./check $p >/tmp/ss-$id-$p.log 2>&1; rc=$?; if [ $rc -eq 1 ]; then res="caught-by-$p"; break; elif [ $rc -eq 2 ]; then res="HARNESS-ERROR-$p"; fi; done
  echo "$id $res"
  git -C /repo worktree remove --force $wt; rm -rf /verif/.build/alt-$(python3 -c "import hashlib;print(hashlib.sha1(b\"$wt\").hexdigest()[:8])")
'

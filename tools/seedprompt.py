#!/usr/bin/env python3
"""seedprompt.py <ID> <root e.g. /tmp/seed6> <variants e.g. k,l>
Prints the prompt for an independent seeding sub-agent: property text, its own scratch
worktree, and the code sites earlier rounds already used (files + what they needed; nothing
about the checks)."""
import json, sys, os, glob
pid, root, variants = sys.argv[1], sys.argv[2], sys.argv[3].split(",")
prop = None
for l in open("/verif/properties.jsonl"):
    p = json.loads(l)
    if p["id"] == pid:
        prop = p
used = []
for m in sorted(glob.glob("/verif/seeded/%s-*/meta.json" % pid)):
    j = json.load(open(m))
    used.append("- %s: %s" % (", ".join(j["files_changed"]), j["needs_to_manifest"].split(" (missed")[0].split(" (declared")[0]))
wt = "%s/%s/wt" % (root, pid)
out = "%s/%s/out" % (root, pid)
print(f"""You are helping to evaluate a verification effort for the Go project daeuniverse/dae (an eBPF-based Linux transparent proxy with a Go control plane). The sandbox is sealed: no network, nothing can be downloaded.

Your task: produce {len(variants)} independent, realistic code changes ("seeded defects") to daeuniverse/dae, each of which BREAKS the semantic property below while the project still compiles and its existing test suite still passes — and, for each, a demonstration (a Go test or small program) that FAILS with the change and PASSES without it.

## The property ({prop['id']}: {prop['title']})

Statement: {prop['statement']}

Quantifier (what it ranges over): {prop['quantifier']}

Why the existing tests cannot settle it: {prop['why_tests_cant']}

Anchors (code the property lives in): {json.dumps(prop['anchors'])}

## Your working copy

Create your own scratch git worktree and work ONLY there:
  git -C /repo worktree add {wt} HEAD
Never edit /repo itself, never commit anywhere, and do not look at or use anything under /verif (your work must be independent of it). Put deliverables under {out}/<variant>/ (variants: {", ".join(variants)}).

Environment for every go command (run inside the worktree):
  export GOFLAGS=-mod=mod GOPROXY=off      # leave GOTOOLCHAIN and GOSUMDB alone
Packages `control` and `cmd` only compile with `-tags dae_stub_ebpf` (the bpf2go output is absent). The kernel C source is control/kern/tproxy.c (it cannot be loaded here; if you change C, demonstrate it by reasoning plus a host-side harness or by a Go-side consequence if you can, and say so).
"Compiles": `go build ./common/... ./component/... ./config/... ./pkg/... && go build -tags dae_stub_ebpf ./control/ ./cmd/...` succeeds.
"Existing tests pass" (the pinned suite): `go test -vet=off -count=1 ./common/... ./component/... ./config/... ./pkg/...` passes with your change applied. (Tests in control/ and cmd/ are not part of the pinned suite, but prefer changes that keep `go test -tags dae_stub_ebpf -vet=off ./control/ ./cmd/` passing as well, and say if they do not.) NEVER use `git stash` (the stash is shared by every worktree of /repo and other agents work in parallel): to set a change aside use `git diff > file` + `git checkout -- .` and later `git apply file`. Check `git status` in your worktree: go may rewrite go.sum — do not include go.mod/go.sum in your patch.

## What kind of change

A change a plausible commit could introduce (a refactor, an "optimisation", a tidy-up, a wrong fix), small (a few lines to a few dozen), that looks fine in review. It must NOT be exposed at once by ordinary use: it should need something specific to manifest — a particular interleaving, a crash/fault/error at a particular point, a multi-step sequence of operations, an unusual input or boundary value, a particular configuration combination, or two cooperating sites that each look fine alone. Do not merely delete a feature, do not add test-only switches, do not add code that detects a test. The {len(variants)} changes must be at different code sites and of different character.

Code sites already used by earlier rounds — pick DIFFERENT functions/mechanisms (the same file is fine if the mechanism is different):
{chr(10).join(used) if used else '- (none)'}

## Deliverables, per variant, in {out}/<variant>/

- patch.diff — `git diff` of your worktree for that change alone (must apply to a clean checkout of HEAD with `git apply`); build variants one after another and `git checkout -- .` in between.
- demo/ — one or more `*_test.go` files (to be copied into one package directory of the repo) and a README whose text contains the exact command line starting with `go test ` that runs the demonstration from the repo root (e.g. `go test -tags dae_stub_ebpf -vet=off -count=1 -run TestSeedX ./control/`). The demo must pass on the unchanged tree and fail with the patch, deterministically (no reliance on timing luck; if an interleaving is needed, force it).
- notes.md — what was changed, why it breaks the property, what exactly it needs in order to manifest, what you ran (build, pinned tests, demo with/without).

When finished remove your worktree (`git -C /repo worktree remove --force {wt}`) and reply with a SHORT summary (≤200 words): for each variant the file/function changed, the trigger, and the demo command.""")

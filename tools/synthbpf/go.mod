module verif/synthbpf

go 1.23

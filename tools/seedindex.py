#!/usr/bin/env python3
"""Regenerates seeded/INDEX.md from seeded/*/meta.json."""
import json, glob, os
rows = []
for f in sorted(glob.glob("/verif/seeded/C*/meta.json")):
    m = json.load(open(f))
    det = ", ".join(m.get("detected_by") or []) or "**not detected**"
    needs = m["needs_to_manifest"].replace("|", "/")
    rows.append("| %s | %s | %s | %s | %s |" % (m["id"], m["breaks_property"], ", ".join(x[2:] if x.startswith("b/") else x for x in m["files_changed"]), needs, det))
head = """# Seeded changes (independent sub-agents, property text only)

Each directory holds patch.diff, the demonstration, notes.md and meta.json. `tools/seedverify.sh` confirmed every one (applies at HEAD, builds, pinned suite passes, demo passes without / fails with the patch); `tools/seedrun.sh` / `tools/seedsweep.sh` run the quick tier against a scratch worktree with the patch. Letters a-j: rounds 1-5; k, l: round 6.

| id | breaks | files | needs to manifest | detected by |
|---|---|---|---|---|
"""
open("/verif/seeded/INDEX.md", "w").write(head + "\n".join(rows) + "\n")
print(len(rows), "seeds")

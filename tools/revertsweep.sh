#!/bin/bash
# For every "fixed" finding: revert its fix commit in a scratch worktree and run the property's quick check; expect exit 1.
cd /verif
python3 - <<'PY' > /tmp/revert-jobs.txt
import json
kf=json.load(open('/verif/known_findings.json'))
seen=set()
for f in kf['findings']:
    if f['status']=='fixed':
        k=(f['commit'],f['property'])
        if k in seen: continue
        seen.add(k); print(f['commit'],f['property'],f['id'])
PY
run_one() {
  c=$1; p=$2; id=$3; wt=/tmp/rv-$c-$p
  git -C /repo worktree add -q $wt HEAD || return
  (cd $wt && git revert -n $c >/dev/null 2>&1) || { echo "$id $c $p REVERT-CONFLICT"; git -C /repo worktree remove --force $wt; return; }
  VERIF_REPO=$wt ./check $p > /tmp/revert-$id-$p.log 2>&1; rc=$?
  echo "$id $c $p rc=$rc $(grep -E '^VIOLATION' /tmp/revert-$id-$p.log | head -1 | sed 's/replay=.*replays.//')"
  git -C /repo worktree remove --force $wt; rm -rf /verif/.build/alt-$(python3 -c "import hashlib;print(hashlib.sha1(b'$wt').hexdigest()[:8])")
}
export -f run_one
cat /tmp/revert-jobs.txt | xargs -P ${1:-3} -L1 bash -c 'run_one $0 $1 $2'

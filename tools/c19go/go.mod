module verif/c19go

go 1.23

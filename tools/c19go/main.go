// c19go dumps, as JSON, what the Go side of the kernel/control-plane contract looks
// like in the working tree, without compiling package control:
//   - the layout (go/types sizes for amd64 and arm64) of every struct type declared in
//     control/bpf_stub.go and control/bpf_utils.go (each file type-checked on its own,
//     non-std imports stubbed), and of the anonymous PARAM struct literal inside
//     fullLoadBpfObjects;
//   - constants of common/consts and the package-level constants of control/bpf_stub.go,
//     control/bpf_utils.go, control/connectivity.go (value + underlying type);
//   - `ebpf:"name"` struct tags (maps, programs, variables) of bpf_stub.go.
//
// usage: c19go <repo>
package main

import (
	"encoding/json"
	"fmt"
	"go/ast"
	"go/constant"
	"go/importer"
	"go/parser"
	"go/token"
	"go/types"
	"os"
	"path/filepath"
	"reflect"
	"sort"
	"strings"
)

type field struct {
	Name     string   `json:"name"`
	Offset   int64    `json:"offset"`
	Size     int64    `json:"size"`
	Align    int64    `json:"align"`
	Type     string   `json:"type"`
	Blank    bool     `json:"blank"`
	Exported bool     `json:"exported"`
	Kind     string   `json:"kind"` // scalar | array | struct | other
	ArrayLen int64    `json:"array_len,omitempty"`
	ElemSize int64    `json:"elem_size,omitempty"`
	Packed   int64    `json:"packed_offset"` // offset in the encoding/binary layout
	Fields   []*field `json:"fields,omitempty"`
}

type structInfo struct {
	Name       string   `json:"name"`
	File       string   `json:"file"`
	Size       int64    `json:"size"`
	Align      int64    `json:"align"`
	PackedSize int64    `json:"packed_size"` // what encoding/binary would write; -1 if not encodable
	DataOnly   bool     `json:"data_only"`   // only fixed-size ints/bools/arrays/structs thereof
	Fields     []*field `json:"fields"`
}

type constInfo struct {
	Value string `json:"value"`
	Type  string `json:"type"`
}

// literalCompare: `<expr>.State <op> <int literal>` inside package control.
type literalCompare struct {
	File  string `json:"file"`
	Line  int    `json:"line"`
	Func  string `json:"func"`
	Field string `json:"field"`
	Op    string `json:"op"`
	Value string `json:"value"`
}

type output struct {
	StateLiterals []literalCompare `json:"state_literals"`
	Structs map[string]map[string]*structInfo `json:"structs"` // arch -> "file:name" -> info
	Param   map[string]*structInfo            `json:"param"`   // arch -> PARAM literal
	Consts  map[string]constInfo              `json:"consts"`  // "consts.X" / "control.X"
	Tags    map[string][]string               `json:"tags"`    // Go struct name -> ebpf tags
	Notes   []string                          `json:"notes"`
}

type fakeImporter struct {
	std  types.Importer
	fake map[string]*types.Package
}

func (f *fakeImporter) Import(path string) (*types.Package, error) {
	if path == "structs" || path == "unsafe" {
		return f.std.Import(path)
	}
	if p, ok := f.fake[path]; ok {
		return p, nil
	}
	name := path[strings.LastIndex(path, "/")+1:]
	p := types.NewPackage(path, name)
	p.MarkComplete()
	f.fake[path] = p
	return p, nil
}

func dataOnly(t types.Type) bool {
	switch u := t.Underlying().(type) {
	case *types.Basic:
		return u.Info()&(types.IsInteger|types.IsBoolean) != 0 && u.Kind() != types.Int && u.Kind() != types.Uint && u.Kind() != types.Uintptr
	case *types.Array:
		return dataOnly(u.Elem())
	case *types.Struct:
		for i := 0; i < u.NumFields(); i++ {
			if !dataOnly(u.Field(i).Type()) {
				return false
			}
		}
		return true
	}
	return false
}

// packedSize mirrors encoding/binary.Size for fixed-size data.
func packedSize(t types.Type, sz types.Sizes) int64 {
	switch u := t.Underlying().(type) {
	case *types.Basic:
		return sz.Sizeof(u)
	case *types.Array:
		e := packedSize(u.Elem(), sz)
		if e < 0 {
			return -1
		}
		return e * u.Len()
	case *types.Struct:
		var n int64
		for i := 0; i < u.NumFields(); i++ {
			e := packedSize(u.Field(i).Type(), sz)
			if e < 0 {
				return -1
			}
			n += e
		}
		return n
	}
	return -1
}

func describeFields(st *types.Struct, sz types.Sizes, base, packedBase int64) []*field {
	vars := make([]*types.Var, st.NumFields())
	for i := range vars {
		vars[i] = st.Field(i)
	}
	offs := sz.Offsetsof(vars)
	var out []*field
	packed := packedBase
	for i, v := range vars {
		f := &field{Name: v.Name(), Offset: base + offs[i], Size: sz.Sizeof(v.Type()), Align: sz.Alignof(v.Type()),
			Type: types.TypeString(v.Type(), func(p *types.Package) string { return p.Name() }), Blank: v.Name() == "_", Exported: v.Exported(), Packed: packed}
		switch u := v.Type().Underlying().(type) {
		case *types.Basic:
			f.Kind = "scalar"
		case *types.Array:
			f.Kind = "array"
			f.ArrayLen = u.Len()
			f.ElemSize = sz.Sizeof(u.Elem())
		case *types.Struct:
			f.Kind = "struct"
			f.Fields = describeFields(u, sz, f.Offset, packed)
		default:
			f.Kind = "other"
		}
		if ps := packedSize(v.Type(), sz); ps >= 0 {
			packed += ps
		}
		out = append(out, f)
	}
	return out
}

func describe(name, file string, t types.Type, sz types.Sizes) *structInfo {
	st := t.Underlying().(*types.Struct)
	return &structInfo{Name: name, File: file, Size: sz.Sizeof(t), Align: sz.Alignof(t), PackedSize: packedSize(t, sz),
		DataOnly: dataOnly(t), Fields: describeFields(st, sz, 0, 0)}
}

func checkFile(fset *token.FileSet, imp types.Importer, pkgName string, files []*ast.File) (*types.Package, *types.Info) {
	info := &types.Info{Types: map[ast.Expr]types.TypeAndValue{}, Defs: map[*ast.Ident]types.Object{}}
	conf := types.Config{Importer: imp, Error: func(error) {}, FakeImportC: true}
	pkg, _ := conf.Check(pkgName, fset, files, info)
	return pkg, info
}

func main() {
	if len(os.Args) != 2 {
		fmt.Fprintln(os.Stderr, "usage: c19go <repo>")
		os.Exit(2)
	}
	repo := os.Args[1]
	fset := token.NewFileSet()
	imp := &fakeImporter{std: importer.ForCompiler(fset, "source", nil), fake: map[string]*types.Package{}}
	out := output{Structs: map[string]map[string]*structInfo{}, Param: map[string]*structInfo{}, Consts: map[string]constInfo{}, Tags: map[string][]string{}}
	archs := []string{"amd64", "arm64"}

	for _, fn := range []string{"bpf_stub.go", "bpf_utils.go", "connectivity.go"} {
		path := filepath.Join(repo, "control", fn)
		af, err := parser.ParseFile(fset, path, nil, parser.SkipObjectResolution)
		if err != nil {
			fmt.Fprintf(os.Stderr, "c19go: parse %s: %v\n", path, err)
			os.Exit(2)
		}
		pkg, info := checkFile(fset, imp, "control", []*ast.File{af})
		scope := pkg.Scope()
		for _, n := range scope.Names() {
			obj := scope.Lookup(n)
			switch o := obj.(type) {
			case *types.TypeName:
				if fn == "connectivity.go" {
					continue
				}
				if _, ok := o.Type().Underlying().(*types.Struct); !ok {
					continue
				}
				for _, arch := range archs {
					sz := types.SizesFor("gc", arch)
					if out.Structs[arch] == nil {
						out.Structs[arch] = map[string]*structInfo{}
					}
					out.Structs[arch][fn+":"+n] = describe(n, fn, o.Type(), sz)
				}
				// ebpf tags
				st := o.Type().Underlying().(*types.Struct)
				var tags []string
				for i := 0; i < st.NumFields(); i++ {
					if tg := reflect.StructTag(st.Tag(i)).Get("ebpf"); tg != "" {
						tags = append(tags, tg)
					}
				}
				if len(tags) > 0 && fn == "bpf_stub.go" {
					out.Tags[n] = tags
				}
			case *types.Const:
				if o.Val().Kind() == constant.Int {
					out.Consts["control."+fn+":"+n] = constInfo{Value: o.Val().ExactString(), Type: o.Type().Underlying().String()}
				}
			}
		}
		if fn == "bpf_utils.go" {
			// the PARAM literal: map[string]interface{}{ "PARAM": struct{...}{...} }
			found := false
			ast.Inspect(af, func(n ast.Node) bool {
				kv, ok := n.(*ast.KeyValueExpr)
				if !ok {
					return true
				}
				k, ok := kv.Key.(*ast.BasicLit)
				if !ok || k.Value != `"PARAM"` {
					return true
				}
				cl, ok := kv.Value.(*ast.CompositeLit)
				if !ok {
					return true
				}
				tv, ok := info.Types[cl.Type]
				if !ok {
					return true
				}
				if _, ok := tv.Type.Underlying().(*types.Struct); !ok {
					return true
				}
				found = true
				for _, arch := range archs {
					out.Param[arch] = describe("PARAM literal", fn, tv.Type, types.SizesFor("gc", arch))
				}
				return false
			})
			if !found {
				out.Notes = append(out.Notes, "PARAM literal not found in bpf_utils.go")
			}
		}
	}

	// bare integer literals the Go side compares a conn-state `State` field with
	gofiles, _ := filepath.Glob(filepath.Join(repo, "control", "*.go"))
	sort.Strings(gofiles)
	for _, gf := range gofiles {
		if strings.HasSuffix(gf, "_test.go") {
			continue
		}
		af, err := parser.ParseFile(fset, gf, nil, parser.SkipObjectResolution)
		if err != nil {
			continue
		}
		for _, d := range af.Decls {
			fd, ok := d.(*ast.FuncDecl)
			if !ok || fd.Body == nil {
				continue
			}
			ast.Inspect(fd.Body, func(n ast.Node) bool {
				be, ok := n.(*ast.BinaryExpr)
				if !ok {
					return true
				}
				sel, lit := be.X, be.Y
				if _, isLit := sel.(*ast.BasicLit); isLit {
					sel, lit = lit, sel
				}
				se, ok1 := sel.(*ast.SelectorExpr)
				bl, ok2 := lit.(*ast.BasicLit)
				if ok1 && ok2 && bl.Kind == token.INT && se.Sel.Name == "State" {
					out.StateLiterals = append(out.StateLiterals, literalCompare{File: filepath.Base(gf), Line: fset.Position(be.Pos()).Line,
						Func: fd.Name.Name, Field: se.Sel.Name, Op: be.Op.String(), Value: bl.Value})
				}
				return true
			})
		}
	}

	// common/consts: whole directory (non-test files)
	cdir := filepath.Join(repo, "common", "consts")
	ents, _ := filepath.Glob(filepath.Join(cdir, "*.go"))
	sort.Strings(ents)
	var cfiles []*ast.File
	for _, e := range ents {
		if strings.HasSuffix(e, "_test.go") {
			continue
		}
		af, err := parser.ParseFile(fset, e, nil, parser.SkipObjectResolution)
		if err != nil {
			fmt.Fprintf(os.Stderr, "c19go: parse %s: %v\n", e, err)
			os.Exit(2)
		}
		cfiles = append(cfiles, af)
	}
	cpkg, cinfo := checkFile(fset, imp, "consts", cfiles)
	for _, n := range cpkg.Scope().Names() {
		if o, ok := cpkg.Scope().Lookup(n).(*types.Const); ok && o.Val().Kind() == constant.Int {
			out.Consts["consts."+n] = constInfo{Value: o.Val().ExactString(), Type: o.Type().Underlying().String()}
		}
	}
	// package-level vars with constant integer initialisers (MaxMatchSetLen = 32 * 32)
	for _, af := range cfiles {
		for _, d := range af.Decls {
			gd, ok := d.(*ast.GenDecl)
			if !ok || gd.Tok != token.VAR {
				continue
			}
			for _, sp := range gd.Specs {
				vs := sp.(*ast.ValueSpec)
				for i, nm := range vs.Names {
					if i >= len(vs.Values) {
						continue
					}
					if tv, ok := cinfo.Types[vs.Values[i]]; ok && tv.Value != nil && tv.Value.Kind() == constant.Int {
						out.Consts["consts.var:"+nm.Name] = constInfo{Value: tv.Value.ExactString(), Type: "var"}
					}
				}
			}
		}
	}
	enc := json.NewEncoder(os.Stdout)
	enc.SetIndent("", " ")
	if err := enc.Encode(out); err != nil {
		fmt.Fprintln(os.Stderr, err)
		os.Exit(2)
	}
}

#!/bin/bash
# usage: seedrun.sh <seed out dir> <prop[,prop2]> [dest pkg dir for demo verification | -]
# (1) optional seedverify, (2) run ./check <prop> against a scratch worktree with the patch applied.
SEED=$1; PROPS=$2; DEST=${3:--}
cd /verif
if [ "$DEST" != "-" ]; then tools/seedverify.sh $SEED $DEST 2>&1 | tail -2; fi
WT=/tmp/sr-$$
git -C /repo worktree add -q $WT HEAD || exit 2
trap 'git -C /repo worktree remove --force $WT >/dev/null 2>&1; rm -rf /verif/.build/alt-$(python3 -c "import hashlib;print(hashlib.sha1(b\"$WT\").hexdigest()[:8])")' EXIT
(cd $WT && git apply $SEED/patch.diff) || { echo "PATCH DOES NOT APPLY"; exit 2; }
for P in ${PROPS//,/ }; do
  out=$(VERIF_REPO=$WT ./check $P 2>&1); rc=$?
  echo "CHECK $P on $(basename $(dirname $SEED))/$(basename $SEED): rc=$rc $(echo "$out" | grep -E '^VIOLATION|HARNESS ERROR|held on' | head -2 | tr '\n' ' ')"
  if [ $rc -eq 1 ]; then echo "$out" | grep -B2 -A12 "\-\-\- FAIL\|\[rapid\] failed" | head -40 > /tmp/seedrun-$(basename $(dirname $(dirname $SEED)))-$(basename $SEED)-$P.log; fi
done

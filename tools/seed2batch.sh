#!/bin/bash
# usage: seed2batch.sh <root dir e.g. /tmp/seed2> <ID/variant> ... ; auto-detects demo dest from README's go test line
ROOT=$1; shift
for s in "$@"; do
  id=${s%%/*}; v=${s##*/}; d=$ROOT/$id/out/$v
  cmd=$(grep -h -o 'go test .*' $d/demo/README* 2>/dev/null | head -1)
  dest=$(echo "$cmd" | grep -o '\./[A-Za-z0-9_/]*' | tail -1 | sed 's#^\./##; s#/$##')
  [ -z "$dest" ] && dest=-
  echo "#### $id-$v dest=$dest :: $(/verif/tools/seedrun.sh $d $id $dest 2>&1 | grep -E 'SEED|CHECK|PATCH' | sed 's/replay=[^ ]*//g' | tr '\n' ' ')"
done

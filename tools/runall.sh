#!/bin/bash
# usage: runall.sh [tier] [parallel] [props...]  -> /tmp/runall-<seed>/<ID>.log + summary on stdout
TIER=${1:-quick}; PAR=${2:-3}; shift 2
PROPS=${@:-C01 C02 C03 C04 C05 C06 C07 C08 C09 C10 C11 C12 C13 C14 C15 C16 C17 C18 C19 C20}
OUT=/tmp/runall-${VERIF_SEED:-1}-$TIER; mkdir -p $OUT
cd /verif
printf "%s\n" $PROPS | xargs -P $PAR -I{} sh -c "start=\$(date +%s); ./check {} --tier $TIER > $OUT/{}.log 2>&1; rc=\$?; echo \"{} rc=\$rc \$((\$(date +%s)-start))s \$(grep -E '^VIOLATION|held on|HARNESS' $OUT/{}.log | head -2 | tr '\n' ' ' | cut -c1-260)\""

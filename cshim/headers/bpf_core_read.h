/* verif shim for libbpf's bpf_core_read.h: plain dereferences (userspace). */
#ifndef VERIF_SHIM_BPF_CORE_READ_H
#define VERIF_SHIM_BPF_CORE_READ_H

#define VERIF_CORE_READ2(src, a) ((src)->a)
#define VERIF_CORE_READ3(src, a, b) ((src)->a->b)
#define VERIF_CORE_PICK(_1, _2, _3, NAME, ...) NAME
#define BPF_CORE_READ(...) \
	VERIF_CORE_PICK(__VA_ARGS__, VERIF_CORE_READ3, VERIF_CORE_READ2, )(__VA_ARGS__)

long bpf_probe_read_user_str(void *dst, __u32 size, const void *unsafe_ptr);
#define bpf_core_read_user_str(dst, sz, src) bpf_probe_read_user_str(dst, sz, (const void *)(src))

#endif

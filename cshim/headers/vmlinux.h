/* verif shim for control/kern/headers/vmlinux.h (the submodule dir is empty in
 * the checkout). Built from the system UAPI headers; compiles both natively
 * (kernsim) and with -target bpf -fsyntax-only (record layout dump for C19).
 * Only what tproxy.c names is provided. */
#ifndef VERIF_SHIM_VMLINUX_H
#define VERIF_SHIM_VMLINUX_H

#include <stdbool.h>
#include <stddef.h>

#include <linux/types.h>
#include <asm-generic/errno-base.h>
#include <linux/bpf.h>
#include <linux/if_ether.h>
#include <linux/in.h>
#include <linux/in6.h>
#include <linux/ip.h>
#include <linux/ipv6.h>
#include <linux/tcp.h>
#include <linux/udp.h>
#include <linux/icmpv6.h>
#include <linux/pkt_cls.h>

typedef __u8 u8;
typedef __u16 u16;
typedef __u32 u32;
typedef __u64 u64;
typedef __s8 s8;
typedef __s16 s16;
typedef __s32 s32;
typedef __s64 s64;

/* include/net/ipv6.h (not UAPI) */
struct frag_hdr {
	__u8 nexthdr;
	__u8 reserved;
	__be16 frag_off;
	__be32 identification;
};

/* Just enough of the task for BPF_CORE_READ(task, mm, arg_start). */
struct mm_struct {
	unsigned long arg_start;
};

struct task_struct {
	struct mm_struct *mm;
};

#endif

/* verif shim: intentionally empty; the definitions come from the system UAPI headers pulled in by vmlinux.h */

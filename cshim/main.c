/* kernsim main.c: #includes the *working-tree copy* of control/kern/tproxy.c
 * (unmodified; copied next to this file by build.sh) and serves a binary
 * request/response protocol on stdin/stdout.
 *
 * WIRE FORMAT (little endian). Request  = u32 n | u8 op | payload (n = 1+len(payload)).
 * Response = u32 n | u8 status | payload; status 0 = ok, 1 = malformed request
 * (payload = str message). str = u8 len + bytes; blob = u32 len + bytes;
 * oplog = u32 count, count * { u8 op ('L'ookup res 1/0, 'U'pdate res=ret, 'D'elete
 * res=ret), str map, u16 keylen, key bytes, s32 res } (per-cpu scratch maps omitted;
 * inner LPM tries are named "lpm#<slot>").
 *
 *  1 RESET           -                                        -> -
 *  2 SET_PARAM       blob raw struct dae_param                 -> -
 *  3 SET_CLOCK       u64 ns                                    -> -
 *  4 MAP_UPDATE      str map, blob key, blob value, u64 flags  -> s32 ret
 *  5 MAP_DELETE      str map, blob key                         -> s32 ret
 *  6 MAP_LOOKUP      str map, blob key                         -> u8 found, blob value
 *  7 MAP_DUMP        str map                                   -> u32 keysz, u32 valsz, u32 n, n*(key,value)
 *  8 LPM_SLOT        u32 slot, u8 action(0 install,1 remove), u32 n, n*(key[20], value[4]) -> s32 ret
 *  9 SOCKETS         u32 n, n*{u32 id,u8 proto,u8 family(4/6),u8 state,s8 listen_slot,
 *                      u8 local_ip[16],u16 local_port,u8 remote_ip[16],u16 remote_port,u32 mark} -> s32 ret
 * 10 ROUTE           u8 want_log, u32 flag[8], blob l4hdr(<=64), u8 saddr[16], u8 daddr[16], u8 mac[16]
 *                    -> s64 ret, u8 lpm_key_saddr[20], lpm_key_daddr[20], lpm_key_mac[20],
 *                       u16 h_dport, u16 h_sport, u8 is_wan, oplog
 * 11 RUN             str prog (C function name), u8 want_log, skb meta {u32 protocol, ifindex,
 *                      ingress_ifindex, mark, cb[5], pkt_type; u64 cookie, pid_tgid; u8 comm[16]; str args},
 *                      blob frame, u32 linear_len, u8 pull_fails
 *                    -> s32 verdict, u32 mark, u32 cb[5], u32 pkt_type, u8 redirect_kind(0 none,1 redirect,
 *                       2 redirect_peer), u32 redirect_ifindex, u64 redirect_flags, s32 sk_assign id(-1 none),
 *                       s32 leaked socket refs, u32 linear_len, pull_calls, pull_failed, load_bytes_calls,
 *                       store_bytes_calls, blob frame, u32 nevents, nevents*blob, oplog
 * 12 KEYS_FRAME      u32 link_h_len, u32 protocol, blob frame, u32 linear_len, u8 pull_fails
 *                    -> s32 parse_packet ret, blob tuples_key, blob reversed tuples_key, u8 dscp, u8 l4proto,
 *                       blob redirect_tuple, blob src mac
 * 13 ALIVE           u8 outbound, u8 l4proto, u16 dport(be), u32 protocol -> u8 alive, oplog
 * 14 SET_MAX_ENTRIES str map, u32 n                            -> s32 ret
 * 15 INFO            -  -> u32 sizeof(dae_param), u32 nmaps, nmaps*{str name,u32 type,key,value,max,flags},
 *                          u32 nprogs, nprogs*{str name, str section}, u32 nconsts, nconsts*{str name, s64 value}
 * 16 GET_PARAM       -                                         -> blob
 * The Go client is /verif/harness/control/shared_kernsim_test.go. */
#define _GNU_SOURCE
#include <errno.h>
#include <stdio.h>
#include <stdlib.h>
#include <string.h>
#include <sys/mman.h>
#include <unistd.h>

#include "tproxy.c" /* the real datapath source */

#include "kernsim.h"
#include "ks_gen.h" /* generated from tproxy.c: map registration + program table */

const char *__asan_default_options(void)
{
	return "detect_leaks=0:halt_on_error=1:abort_on_error=0:exitcode=99";
}

const char *__ubsan_default_options(void)
{
	return "print_stacktrace=1:halt_on_error=1:exitcode=99";
}

enum {
	OP_RESET = 1,
	OP_SET_PARAM = 2,
	OP_SET_CLOCK = 3,
	OP_MAP_UPDATE = 4,
	OP_MAP_DELETE = 5,
	OP_MAP_LOOKUP = 6,
	OP_MAP_DUMP = 7,
	OP_LPM_SLOT = 8,
	OP_SOCKETS = 9,
	OP_ROUTE = 10,
	OP_RUN = 11,
	OP_KEYS_FRAME = 12,
	OP_ALIVE = 13,
	OP_SET_MAX_ENTRIES = 14,
	OP_INFO = 15,
	OP_GET_PARAM = 16,
};

/* ------------------------------------------------------------------- io */
static struct ks_buf req, resp;
static size_t rpos;
static int bad_request;
static char bad_msg[200];

static void bad(const char *msg)
{
	if (!bad_request)
		snprintf(bad_msg, sizeof(bad_msg), "%s", msg);
	bad_request = 1;
}

static int read_full(void *p, size_t n)
{
	uint8_t *b = p;

	while (n) {
		ssize_t r = read(0, b, n);

		if (r == 0)
			return -1;
		if (r < 0) {
			if (errno == EINTR)
				continue;
			return -1;
		}
		b += r;
		n -= (size_t)r;
	}
	return 0;
}

static void write_full(const void *p, size_t n)
{
	const uint8_t *b = p;

	while (n) {
		ssize_t r = write(1, b, n);

		if (r < 0) {
			if (errno == EINTR)
				continue;
			_exit(KS_EXIT_HARNESS);
		}
		b += r;
		n -= (size_t)r;
	}
}

static const uint8_t *get(size_t n)
{
	static uint8_t zeros[256];
	const uint8_t *p;

	if (bad_request || rpos + n > req.len) {
		bad("short request");
		return n <= sizeof(zeros) ? zeros : NULL;
	}
	p = req.p + rpos;
	rpos += n;
	return p;
}
static uint8_t get_u8(void) { return *get(1); }
static uint16_t get_u16(void) { uint16_t v; memcpy(&v, get(2), 2); return v; }
static uint32_t get_u32(void) { uint32_t v; memcpy(&v, get(4), 4); return v; }
static uint64_t get_u64(void) { uint64_t v; memcpy(&v, get(8), 8); return v; }

static const uint8_t *get_blob(uint32_t *len)
{
	static uint8_t empty[1];
	uint32_t n = get_u32();
	const uint8_t *p;

	if (bad_request || rpos + n > req.len) {
		bad("short blob");
		*len = 0;
		return empty;
	}
	p = req.p + rpos;
	rpos += n;
	*len = n;
	return p;
}

static void get_str(char *dst, size_t cap)
{
	uint8_t n = get_u8();
	const uint8_t *p;

	dst[0] = 0;
	if (bad_request || rpos + n > req.len || n >= cap) {
		bad("bad string");
		return;
	}
	p = req.p + rpos;
	rpos += n;
	memcpy(dst, p, n);
	dst[n] = 0;
}

static void put_str(const char *s)
{
	size_t n = strlen(s);

	ks_buf_u8(&resp, (uint8_t)n);
	ks_buf_put(&resp, s, n);
}

static void put_blob(const void *p, uint32_t n)
{
	ks_buf_u32(&resp, n);
	ks_buf_put(&resp, p, n);
}

static void put_oplog(void)
{
	ks_buf_u32(&resp, ks_oplog_n);
	ks_buf_put(&resp, ks_oplog.p, ks_oplog.len);
}

static struct ks_map *get_map(void)
{
	char name[KS_NAME_MAX];
	struct ks_map *m;
	unsigned slot;

	get_str(name, sizeof(name));
	if (bad_request)
		return NULL;
	if (sscanf(name, "lpm#%u", &slot) == 1) {
		for (int i = 0; i < ks_map_count(); i++) {
			m = ks_map_at(i);
			if (m->type == BPF_MAP_TYPE_ARRAY_OF_MAPS && slot < m->max_entries && m->slots[slot])
				return m->slots[slot];
		}
		bad("empty lpm slot");
		return NULL;
	}
	m = ks_map_by_name(name);
	if (!m)
		bad("unknown map");
	return m;
}

/* ---------------------------------------------------------------- PARAM */
static void param_write(const void *src)
{
	static int orig_prot = -1;
	long pg = sysconf(_SC_PAGESIZE);
	uintptr_t a = (uintptr_t)&PARAM & ~((uintptr_t)pg - 1);
	uintptr_t e = ((uintptr_t)&PARAM + sizeof(PARAM) + (uintptr_t)pg - 1) & ~((uintptr_t)pg - 1);

	if (orig_prot < 0) {
		FILE *f = fopen("/proc/self/maps", "r");
		char line[512];

		orig_prot = PROT_READ;
		while (f && fgets(line, sizeof(line), f)) {
			unsigned long lo, hi;
			char perm[8];

			if (sscanf(line, "%lx-%lx %7s", &lo, &hi, perm) == 3 && a >= lo && a < hi) {
				orig_prot = (perm[0] == 'r' ? PROT_READ : 0) | (perm[1] == 'w' ? PROT_WRITE : 0) |
					    (perm[2] == 'x' ? PROT_EXEC : 0);
				break;
			}
		}
		if (f)
			fclose(f);
	}
	if (mprotect((void *)a, e - a, PROT_READ | PROT_WRITE))
		ks_harness_die("mprotect(PARAM, rw): %s", strerror(errno));
	{
		/* PARAM is a const object: launder the pointer so the store cannot be
		 * reasoned away, and write byte-wise through a volatile lvalue */
		volatile unsigned char *dst = (volatile unsigned char *)&PARAM;

		asm volatile("" : "+r"(dst));
		for (size_t i = 0; i < sizeof(PARAM); i++)
			dst[i] = ((const unsigned char *)src)[i];
	}
	if (mprotect((void *)a, e - a, orig_prot))
		ks_harness_die("mprotect(PARAM, restore): %s", strerror(errno));
}

/* ------------------------------------------------------------- requests */
static void do_reset(void)
{
	struct dae_param z;

	memset(&z, 0, sizeof(z));
	param_write(&z);
	ks_reset_all();
}

static void do_map_dump(void)
{
	struct ks_map *m = get_map();
	struct ks_buf tmp = { 0 };
	uint32_t n = 0;

	if (!m)
		return;
	ks_map_dump(m, &tmp, &n);
	ks_buf_u32(&resp, m->key_size);
	ks_buf_u32(&resp, m->value_size);
	ks_buf_u32(&resp, n);
	ks_buf_put(&resp, tmp.p, tmp.len);
	free(tmp.p);
}

static void do_lpm_slot(void)
{
	uint32_t slot = get_u32();
	uint8_t action = get_u8();
	uint32_t n = get_u32();
	struct ks_map *t = ks_map_by_name("unused_lpm_type");
	uint8_t *keys, *vals;
	long r;

	for (int i = 0; i < ks_map_count(); i++)
		if (ks_map_at(i)->type == BPF_MAP_TYPE_ARRAY_OF_MAPS && ks_map_at(i)->inner_template)
			t = ks_map_at(i)->inner_template;
	if (!t) {
		bad("no inner map template");
		return;
	}
	if (action == 1) {
		ks_buf_u32(&resp, (uint32_t)ks_lpm_slot_remove(slot));
		return;
	}
	keys = calloc(n ? n : 1, t->key_size);
	vals = calloc(n ? n : 1, t->value_size);
	for (uint32_t i = 0; i < n && !bad_request; i++) {
		memcpy(keys + (size_t)i * t->key_size, get(t->key_size), t->key_size);
		memcpy(vals + (size_t)i * t->value_size, get(t->value_size), t->value_size);
	}
	if (bad_request) {
		free(keys);
		free(vals);
		return;
	}
	r = ks_lpm_slot_install(slot, keys, vals, n);
	free(keys);
	free(vals);
	ks_buf_u32(&resp, (uint32_t)r);
}

static void do_sockets(void)
{
	uint32_t n = get_u32();
	long r = 0;

	ks_sockets_clear();
	for (uint32_t i = 0; i < n && !bad_request; i++) {
		struct ks_sock_desc d;

		memset(&d, 0, sizeof(d));
		d.id = get_u32();
		d.proto = get_u8();
		d.family = get_u8();
		d.state = get_u8();
		d.listen_slot = (int8_t)get_u8();
		memcpy(d.local_ip, get(16), 16);
		d.local_port = get_u16();
		memcpy(d.remote_ip, get(16), 16);
		d.remote_port = get_u16();
		d.mark = get_u32();
		if (!bad_request && !r)
			r = ks_socket_add(&d);
	}
	ks_buf_u32(&resp, (uint32_t)r);
}

static void do_route(void)
{
	uint8_t want_log = get_u8();
	__u32 flag[8];
	uint8_t l4hdr[64];
	__be32 saddr[4], daddr[4], mac[4];
	uint32_t hl;
	const uint8_t *hp;
	__s64 ret;
	__u32 zero = 0;
	struct route_ctx *rc;

	memcpy(flag, get(32), 32);
	hp = get_blob(&hl);
	memset(l4hdr, 0, sizeof(l4hdr));
	if (hl > sizeof(l4hdr)) {
		bad("l4hdr too long");
		return;
	}
	memcpy(l4hdr, hp, hl);
	memcpy(saddr, get(16), 16);
	memcpy(daddr, get(16), 16);
	memcpy(mac, get(16), 16);
	if (bad_request)
		return;
	ks_log_reset();
	ks_log_enabled = want_log;
	ret = route(flag, l4hdr, saddr, daddr, mac);
	ks_log_enabled = 0;
	ks_buf_u64(&resp, (uint64_t)ret);
	rc = bpf_map_lookup_elem(&route_ctx_scratch_map, &zero);
	if (!rc)
		ks_harness_die("route_ctx_scratch_map lookup failed");
	ks_buf_put(&resp, &rc->lpm_key_saddr, sizeof(rc->lpm_key_saddr));
	ks_buf_put(&resp, &rc->lpm_key_daddr, sizeof(rc->lpm_key_daddr));
	ks_buf_put(&resp, &rc->lpm_key_mac, sizeof(rc->lpm_key_mac));
	ks_buf_u16(&resp, rc->h_dport);
	ks_buf_u16(&resp, rc->h_sport);
	ks_buf_u8(&resp, (uint8_t)flag[7]);
	put_oplog();
}

static union {
	struct bpf_sock sk;
	struct bpf_sock_addr sa;
	struct bpf_sock_ops ops;
	struct sk_msg_md msg;
	uint8_t pad[512];
} dummy_ctx;

static void skb_meta_apply(struct __sk_buff *skb)
{
	char args[256];

	skb->protocol = get_u32();
	skb->ifindex = get_u32();
	skb->ingress_ifindex = get_u32();
	skb->mark = get_u32();
	for (int i = 0; i < 5; i++)
		skb->cb[i] = get_u32();
	skb->pkt_type = get_u32();
	ks_cur_cookie = get_u64();
	ks_cur_pid_tgid = get_u64();
	memcpy(ks_cur_comm, get(16), 16);
	get_str(args, sizeof(args));
	memset(ks_cur_args, 0, sizeof(ks_cur_args));
	snprintf(ks_cur_args, sizeof(ks_cur_args), "%s", args);
}

static void do_run(void)
{
	char pname[64];
	uint8_t want_log;
	int idx = -1;
	struct __sk_buff meta, *skb;
	const uint8_t *frame, *out;
	uint32_t flen, linear, outlen;
	uint8_t pull_fails;
	int verdict;

	get_str(pname, sizeof(pname));
	want_log = get_u8();
	memset(&meta, 0, sizeof(meta));
	skb_meta_apply(&meta);
	frame = get_blob(&flen);
	linear = get_u32();
	pull_fails = get_u8();
	if (bad_request)
		return;
	for (size_t i = 0; i < KS_NPROGS; i++)
		if (!strcmp(ks_progs[i].name, pname))
			idx = (int)i;
	if (idx < 0) {
		bad("unknown program");
		return;
	}
	if (flen > KS_MAX_FRAME) {
		bad("frame too long");
		return;
	}
	skb = ks_skb_begin(frame, flen, linear, pull_fails);
	skb->protocol = meta.protocol;
	skb->ifindex = meta.ifindex;
	skb->ingress_ifindex = meta.ingress_ifindex;
	skb->mark = meta.mark;
	memcpy(skb->cb, meta.cb, sizeof(meta.cb));
	skb->pkt_type = meta.pkt_type;
	ks_log_reset();
	ks_log_enabled = want_log;
	if (ks_progs[idx].is_skb) {
		verdict = ks_call_prog(idx, skb);
	} else {
		memset(&dummy_ctx, 0, sizeof(dummy_ctx));
		verdict = ks_call_prog(idx, &dummy_ctx);
	}
	ks_log_enabled = 0;
	out = ks_skb_end(&outlen);
	ks_buf_u32(&resp, (uint32_t)verdict);
	ks_buf_u32(&resp, skb->mark);
	for (int i = 0; i < 5; i++)
		ks_buf_u32(&resp, skb->cb[i]);
	ks_buf_u32(&resp, skb->pkt_type);
	ks_buf_u8(&resp, ks_skb_res.redirect_kind);
	ks_buf_u32(&resp, ks_skb_res.redirect_ifindex);
	ks_buf_u64(&resp, ks_skb_res.redirect_flags);
	ks_buf_u32(&resp, (uint32_t)ks_skb_res.assigned_sock);
	ks_buf_u32(&resp, (uint32_t)ks_sock_refs_outstanding());
	ks_buf_u32(&resp, ks_skb_res.linear_len);
	ks_buf_u32(&resp, ks_skb_res.pull_calls);
	ks_buf_u32(&resp, ks_skb_res.pull_failed);
	ks_buf_u32(&resp, ks_skb_res.load_bytes_calls);
	ks_buf_u32(&resp, ks_skb_res.store_bytes_calls);
	put_blob(out, outlen);
	ks_buf_u32(&resp, ks_events_n);
	ks_buf_put(&resp, ks_events.p, ks_events.len);
	put_oplog();
}

static void do_keys_frame(void)
{
	uint32_t link_h_len = get_u32();
	uint32_t protocol = get_u32();
	uint32_t flen, linear;
	const uint8_t *frame = get_blob(&flen);
	uint8_t pull_fails;
	struct __sk_buff *skb;
	struct parsed_packet pkt;
	struct tuples_key rev;
	struct redirect_tuple rt;
	int ret;

	linear = get_u32();
	pull_fails = get_u8();
	if (bad_request)
		return;
	if (flen > KS_MAX_FRAME) {
		bad("frame too long");
		return;
	}
	skb = ks_skb_begin(frame, flen, linear, pull_fails);
	skb->protocol = protocol;
	memset(&pkt, 0, sizeof(pkt));
	/* poison the outputs so that bytes the C code fails to write show up */
	memset(&rev, 0xAA, sizeof(rev));
	memset(&rt, 0xAA, sizeof(rt));
	ret = parse_packet(skb, link_h_len, &pkt);
	copy_reversed_tuples(&pkt.tuples.five, &rev);
	fill_redirect_tuple_from_forward_packet(skb, &pkt.tuples, &rt);
	ks_buf_u32(&resp, (uint32_t)ret);
	put_blob(&pkt.tuples.five, sizeof(pkt.tuples.five));
	put_blob(&rev, sizeof(rev));
	/* Few direct member accesses on purpose: a struct edit in tproxy.c should show up in
	 * the checks, not break this file. DSCP through the program's own extractors on the
	 * IP header of the frame; source MAC straight from the frame. */
	{
		uint8_t dscp = 0, mac[6] = { 0 };

		if (protocol == bpf_htons(ETH_P_IP)) {
			struct iphdr ih;

			if (!bpf_skb_load_bytes(skb, link_h_len, &ih, sizeof(ih)))
				dscp = ipv4_get_dscp(&ih);
		} else {
			struct ipv6hdr i6;

			if (!bpf_skb_load_bytes(skb, link_h_len, &i6, sizeof(i6)))
				dscp = ipv6_get_dscp(&i6);
		}
		if (link_h_len == ETH_HLEN && flen >= ETH_HLEN)
			memcpy(mac, frame + 6, 6);
		ks_buf_u8(&resp, dscp);
		ks_buf_u8(&resp, pkt.tuples.five.l4proto);
		put_blob(&rt, sizeof(rt));
		put_blob(mac, 6);
	}
}

static void do_alive(void)
{
	uint8_t outbound = get_u8();
	uint8_t l4proto = get_u8();
	uint16_t dport = get_u16(); /* network order, as stored in tuples_key */
	uint32_t protocol = get_u32();
	struct __sk_buff *skb;
	bool alive;

	if (bad_request)
		return;
	skb = ks_skb_begin(NULL, 0, 0, 0);
	skb->protocol = protocol;
	ks_log_reset();
	ks_log_enabled = 1;
	alive = wan_outbound_is_alive(skb, outbound, l4proto, dport);
	ks_log_enabled = 0;
	ks_buf_u8(&resp, alive ? 1 : 0);
	put_oplog();
}

static void do_info(void)
{
	ks_buf_u32(&resp, (uint32_t)sizeof(struct dae_param));
	ks_buf_u32(&resp, (uint32_t)ks_map_count());
	for (int i = 0; i < ks_map_count(); i++) {
		struct ks_map *m = ks_map_at(i);

		put_str(m->name);
		ks_buf_u32(&resp, m->type);
		ks_buf_u32(&resp, m->key_size);
		ks_buf_u32(&resp, m->value_size);
		ks_buf_u32(&resp, m->max_entries);
		ks_buf_u32(&resp, m->map_flags);
	}
	ks_buf_u32(&resp, (uint32_t)KS_NPROGS);
	for (size_t i = 0; i < KS_NPROGS; i++) {
		put_str(ks_progs[i].name);
		put_str(ks_progs[i].section);
	}
	/* constants as the C compiler sees them: what the call sites of route() and the
	 * verdict paths use (harnesses build route() inputs from these, not from Go consts) */
#define KS_CONST(x) { #x, (int64_t)(x) }
	{
		static const struct { const char *name; int64_t v; } cs[] = {
			KS_CONST(L4ProtoType_TCP), KS_CONST(L4ProtoType_UDP),
			KS_CONST(IpVersionType_4), KS_CONST(IpVersionType_6),
			KS_CONST(OUTBOUND_DIRECT), KS_CONST(OUTBOUND_BLOCK),
			KS_CONST(OUTBOUND_CONTROL_PLANE_ROUTING), KS_CONST(OUTBOUND_MUST_RULES),
			KS_CONST(OUTBOUND_LOGICAL_OR), KS_CONST(OUTBOUND_LOGICAL_AND), KS_CONST(OUTBOUND_LOGICAL_MASK),
			KS_CONST(TPROXY_MARK), KS_CONST(MAX_MATCH_SET_LEN), KS_CONST(TASK_COMM_LEN),
			KS_CONST(TC_ACT_OK), KS_CONST(TC_ACT_SHOT), KS_CONST(TC_ACT_PIPE), KS_CONST(TC_ACT_REDIRECT),
		};
		ks_buf_u32(&resp, (uint32_t)(sizeof(cs) / sizeof(cs[0])));
		for (size_t i = 0; i < sizeof(cs) / sizeof(cs[0]); i++) {
			put_str(cs[i].name);
			ks_buf_u64(&resp, (uint64_t)cs[i].v);
		}
	}
}

static void handle(uint8_t op)
{
	struct ks_map *m;
	const uint8_t *k, *v;
	uint32_t kl, vl;

	switch (op) {
	case OP_RESET:
		do_reset();
		break;
	case OP_SET_PARAM:
		v = get_blob(&vl);
		if (bad_request)
			break;
		if (vl != sizeof(PARAM)) {
			bad("PARAM size mismatch");
			break;
		}
		param_write(v);
		break;
	case OP_GET_PARAM: {
		/* read the way the programs do: volatile loads */
		unsigned char cp[sizeof(struct dae_param)];
		const volatile unsigned char *srcp = (const volatile unsigned char *)&PARAM;

		for (size_t i = 0; i < sizeof(cp); i++)
			cp[i] = srcp[i];
		put_blob(cp, sizeof(cp));
		break;
	}
	case OP_SET_CLOCK:
		ks_clock_ns = get_u64();
		break;
	case OP_MAP_UPDATE: {
		uint64_t flags;

		m = get_map();
		k = get_blob(&kl);
		v = get_blob(&vl);
		flags = get_u64();
		if (bad_request)
			break;
		if (kl != m->key_size || vl != m->value_size) {
			bad("key/value size mismatch");
			break;
		}
		ks_buf_u32(&resp, (uint32_t)ks_map_update(m, k, v, flags));
		break;
	}
	case OP_MAP_DELETE:
		m = get_map();
		k = get_blob(&kl);
		if (bad_request)
			break;
		if (kl != m->key_size) {
			bad("key size mismatch");
			break;
		}
		ks_buf_u32(&resp, (uint32_t)ks_map_delete(m, k));
		break;
	case OP_MAP_LOOKUP: {
		void *val;

		m = get_map();
		k = get_blob(&kl);
		if (bad_request)
			break;
		if (kl != m->key_size) {
			bad("key size mismatch");
			break;
		}
		if (m->type == BPF_MAP_TYPE_ARRAY_OF_MAPS || m->type == BPF_MAP_TYPE_SOCKMAP) {
			bad("lookup not supported for this map type");
			break;
		}
		val = ks_map_lookup(m, k);
		ks_buf_u8(&resp, val ? 1 : 0);
		put_blob(val ? val : (void *)"", val ? m->value_size : 0);
		break;
	}
	case OP_MAP_DUMP:
		do_map_dump();
		break;
	case OP_LPM_SLOT:
		do_lpm_slot();
		break;
	case OP_SOCKETS:
		do_sockets();
		break;
	case OP_ROUTE:
		do_route();
		break;
	case OP_RUN:
		do_run();
		break;
	case OP_KEYS_FRAME:
		do_keys_frame();
		break;
	case OP_ALIVE:
		do_alive();
		break;
	case OP_SET_MAX_ENTRIES: {
		uint32_t n;

		m = get_map();
		n = get_u32();
		if (bad_request)
			break;
		if ((m->type == BPF_MAP_TYPE_ARRAY || m->type == BPF_MAP_TYPE_PERCPU_ARRAY ||
		     m->type == BPF_MAP_TYPE_ARRAY_OF_MAPS || m->type == BPF_MAP_TYPE_SOCKMAP) &&
		    n > m->def_max_entries) {
			ks_buf_u32(&resp, (uint32_t)-E2BIG);
			break;
		}
		m->max_entries = n;
		ks_buf_u32(&resp, 0);
		break;
	}
	case OP_INFO:
		do_info();
		break;
	default:
		bad("unknown op");
	}
}

int main(void)
{
	ks_register_all();
	do_reset();
	for (;;) {
		uint32_t len, rlen;
		uint8_t status;

		if (read_full(&len, 4))
			return 0;
		if (len < 1 || len > (64u << 20))
			ks_harness_die("bad request length %u", len);
		ks_buf_reset(&req);
		ks_buf_put(&req, NULL, 0);
		if (req.cap < len) {
			req.p = realloc(req.p, len);
			req.cap = len;
		}
		if (read_full(req.p, len))
			return 0;
		req.len = len;
		rpos = 1;
		bad_request = 0;
		ks_buf_reset(&resp);
		ks_buf_u8(&resp, 0);
		handle(req.p[0]);
		if (!bad_request && rpos != req.len)
			bad("trailing bytes in request");
		if (bad_request) {
			ks_buf_reset(&resp);
			ks_buf_u8(&resp, 1);
			put_str(bad_msg);
		}
		status = resp.p[0];
		(void)status;
		rlen = (uint32_t)resp.len;
		write_full(&rlen, 4);
		write_full(resp.p, resp.len);
		ks_graveyard_flush();
	}
}

#!/bin/bash
# (Re)builds kernsim from the WORKING-TREE control/kern/tproxy.c + ebpf_sync_defs.h of
# $VERIF_REPO (default /repo) and the shim in this directory. Prints the path of the
# binary as the LAST stdout line. Exit != 0 => the driver reports a harness error (2).
# Output: /verif/.build/kernsim/ for /repo, /verif/.build/alt-<hash>/kernsim/ for a
# scratch worktree (same hash as ./check uses), so mutation runs never clobber the
# main build. Concurrent callers are serialised with flock; an up-to-date build is
# reused (inputs are hashed).
set -euo pipefail
SHIM="$(cd "$(dirname "${BASH_SOURCE[0]}")" && pwd)"
VERIF="$(dirname "$SHIM")"
REPO="${VERIF_REPO:-/repo}"
REPO_REAL="$(realpath "$REPO")"
if [ "$REPO_REAL" = "/repo" ]; then
	OUT="$VERIF/.build/kernsim"
else
	H="$(printf %s "$REPO_REAL" | sha1sum | cut -c1-8)"
	OUT="$VERIF/.build/alt-$H/kernsim"
fi
SRC="$REPO_REAL/control/kern"
CLANG="${VERIF_CLANG:-clang}"
command -v "$CLANG" >/dev/null 2>&1 || { echo "kernsim: clang not found" >&2; exit 3; }
[ -f "$SRC/tproxy.c" ] || { echo "kernsim: $SRC/tproxy.c missing" >&2; exit 3; }
mkdir -p "$OUT"
exec 9>"$OUT/.lock"
flock 9

STAMP="$( (cat "$SRC/tproxy.c" "$SRC/ebpf_sync_defs.h" "$SHIM"/*.c "$SHIM"/*.h "$SHIM"/gen.py "$SHIM"/build.sh "$SHIM"/headers/*.h; "$CLANG" --version) | sha256sum | cut -c1-32)"
if [ -x "$OUT/kernsim" ] && [ -f "$OUT/stamp" ] && [ "$(cat "$OUT/stamp")" = "$STAMP" ]; then
	echo "kernsim: up to date ($STAMP)" >&2
	echo "$OUT/kernsim"
	exit 0
fi

W="$OUT/work"
rm -rf "$W"
mkdir -p "$W"
# the real sources, unmodified, from the working tree
cp "$SRC/tproxy.c" "$SRC/ebpf_sync_defs.h" "$W/"
cp -r "$SHIM/headers" "$W/headers"
cp "$SHIM/main.c" "$SHIM/helpers.c" "$SHIM/kernsim.h" "$W/"
python3 "$SHIM/gen.py" "$W/tproxy.c" "$W/ks_gen.h" >&2

CFLAGS=(-O1 -g -fno-omit-frame-pointer -Wno-everything
	-fsanitize=address,undefined -fno-sanitize=alignment,function -fno-sanitize-recover=all
	-I"$W")
# tproxy.c is compiled through main.c (#include "tproxy.c") so its static
# functions (route, parse_packet, get_tuples, ...) are callable by the protocol glue.
"$CLANG" "${CFLAGS[@]}" -c "$W/main.c" -o "$W/main.o" >&2
"$CLANG" "${CFLAGS[@]}" -Wall -Wno-unused-function -c "$W/helpers.c" -o "$W/helpers.o" >&2
"$CLANG" -fsanitize=address,undefined "$W/main.o" "$W/helpers.o" -o "$W/kernsim.new" >&2
# smoke test: INFO request must be answered
printf '\x01\x00\x00\x00\x0f' | "$W/kernsim.new" | head -c 5 | od -An -tx1 | grep -q '00$' \
	|| { echo "kernsim: smoke test failed" >&2; exit 4; }
# PARAM self-test: SET_PARAM (op 2) with 0x01..0x20 must read back through volatile loads (op 16)
PLEN=$(printf '\x01\x00\x00\x00\x0f' | "$W/kernsim.new" | od -An -tu4 -j5 -N4 | tr -d ' ')
python3 - "$W/kernsim.new" "$PLEN" <<'PY' >&2 || { echo "kernsim: PARAM self-test failed" >&2; exit 4; }
import struct, subprocess, sys
p = subprocess.Popen([sys.argv[1]], stdin=subprocess.PIPE, stdout=subprocess.PIPE)
n = int(sys.argv[2])
def call(op, payload=b""):
    body = bytes([op]) + payload
    p.stdin.write(struct.pack("<I", len(body)) + body); p.stdin.flush()
    ln = struct.unpack("<I", p.stdout.read(4))[0]
    return p.stdout.read(ln)
want = bytes((i % 255) + 1 for i in range(n))
assert call(2, struct.pack("<I", n) + want)[0] == 0
got = call(16)
assert got[0] == 0 and got[5:] == want, (got.hex(), want.hex())
PY
mv -f "$W/kernsim.new" "$OUT/kernsim"
echo "$STAMP" >"$OUT/stamp"
echo "kernsim: built $OUT/kernsim" >&2
echo "$OUT/kernsim"

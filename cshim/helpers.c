/* kernsim helpers.c: a deliberately literal userspace model of the BPF helper
 * API that control/kern/tproxy.c uses. This file is trusted base.
 *
 * Maps are keyed by the address of the map variable in tproxy.c (registered by
 * main.c with the sizes the C compiler derived from the libbpf-style
 * definition). Semantics follow the kernel implementations:
 *   ARRAY / PERCPU_ARRAY (1 cpu): index < max_entries, values zero-initialised,
 *       update never fails for a valid index, delete -> -EINVAL.
 *   HASH: exact key bytes (padding included), BPF_ANY/NOEXIST/EXIST,
 *       -E2BIG when a new key would exceed max_entries, an update of an
 *       existing key replaces the element (old value stays readable until the
 *       end of the request, like RCU), delete -> -ENOENT if absent.
 *   LPM_TRIE: key = u32 prefixlen + data; lookup = longest stored prefix p with
 *       p.prefixlen <= key.prefixlen whose first p.prefixlen bits (MSB first,
 *       in memory order) equal the key's; update replaces an entry with the
 *       same prefixlen+prefix bits; prefixlen > 8*data_size -> -EINVAL;
 *       -ENOSPC when full.
 *   ARRAY_OF_MAPS: lookup returns the inner map (or NULL for an empty slot).
 *   SOCKMAP: lookup returns the socket installed by the harness (refcounted).
 *   SOCKHASH / RINGBUF: recorded only.
 */
#define _GNU_SOURCE
#include <errno.h>
#include <stdarg.h>
#include <stdio.h>
#include <stdlib.h>
#include <string.h>
#include <sys/mman.h>
#include <unistd.h>

#include <linux/bpf.h>
#include <linux/pkt_cls.h>

#include "kernsim.h"

/* ------------------------------------------------------------------ misc */

void ks_harness_die(const char *fmt, ...)
{
	va_list ap;

	fprintf(stderr, "KERNSIM-HARNESS: ");
	va_start(ap, fmt);
	vfprintf(stderr, fmt, ap);
	va_end(ap);
	fprintf(stderr, "\n");
	fflush(stderr);
	_exit(KS_EXIT_HARNESS);
}

static void *xcalloc(size_t n, size_t sz)
{
	void *p = calloc(n ? n : 1, sz ? sz : 1);

	if (!p)
		ks_harness_die("out of memory");
	return p;
}

static void *xmemdup(const void *src, size_t n)
{
	void *p = xcalloc(1, n);

	memcpy(p, src, n);
	return p;
}

void ks_buf_put(struct ks_buf *b, const void *p, size_t n)
{
	if (b->len + n > b->cap) {
		size_t nc = b->cap ? b->cap * 2 : 4096;

		while (nc < b->len + n)
			nc *= 2;
		b->p = realloc(b->p, nc);
		if (!b->p)
			ks_harness_die("out of memory");
		b->cap = nc;
	}
	if (n)
		memcpy(b->p + b->len, p, n);
	b->len += n;
}
void ks_buf_u8(struct ks_buf *b, uint8_t v) { ks_buf_put(b, &v, 1); }
void ks_buf_u16(struct ks_buf *b, uint16_t v) { ks_buf_put(b, &v, 2); }
void ks_buf_u32(struct ks_buf *b, uint32_t v) { ks_buf_put(b, &v, 4); }
void ks_buf_u64(struct ks_buf *b, uint64_t v) { ks_buf_put(b, &v, 8); }
void ks_buf_reset(struct ks_buf *b) { b->len = 0; }

/* ------------------------------------------------------------- graveyard */
/* Memory a BPF program may still legally hold a pointer to (RCU) is freed at
 * the end of the request, not at delete/replace time. */
static void **grave;
static size_t grave_n, grave_cap;

static void grave_add(void *p)
{
	if (!p)
		return;
	if (grave_n == grave_cap) {
		grave_cap = grave_cap ? grave_cap * 2 : 64;
		grave = realloc(grave, grave_cap * sizeof(void *));
		if (!grave)
			ks_harness_die("out of memory");
	}
	grave[grave_n++] = p;
}

void ks_graveyard_flush(void)
{
	for (size_t i = 0; i < grave_n; i++)
		free(grave[i]);
	grave_n = 0;
}

/* ------------------------------------------------------------------- log */
int ks_log_enabled;
struct ks_buf ks_oplog;
uint32_t ks_oplog_n;
struct ks_buf ks_events;
uint32_t ks_events_n;

void ks_log_reset(void)
{
	ks_buf_reset(&ks_oplog);
	ks_oplog_n = 0;
	ks_buf_reset(&ks_events);
	ks_events_n = 0;
}

static void oplog(char op, const struct ks_map *m, const void *key, int32_t res)
{
	size_t nl;

	if (!ks_log_enabled || m->type == BPF_MAP_TYPE_PERCPU_ARRAY)
		return;
	nl = strlen(m->name);
	ks_buf_u8(&ks_oplog, (uint8_t)op);
	ks_buf_u8(&ks_oplog, (uint8_t)nl);
	ks_buf_put(&ks_oplog, m->name, nl);
	ks_buf_u16(&ks_oplog, (uint16_t)m->key_size);
	ks_buf_put(&ks_oplog, key, m->key_size);
	ks_buf_u32(&ks_oplog, (uint32_t)res);
	ks_oplog_n++;
}

/* ------------------------------------------------------------------ maps */
static struct ks_map *maps[KS_MAX_MAPS];
static int nmaps;

int ks_map_count(void) { return nmaps; }
struct ks_map *ks_map_at(int i) { return maps[i]; }

struct ks_map *ks_map_by_name(const char *name)
{
	for (int i = 0; i < nmaps; i++)
		if (!strcmp(maps[i]->name, name))
			return maps[i];
	return NULL;
}

static void map_alloc_storage(struct ks_map *m)
{
	switch (m->type) {
	case BPF_MAP_TYPE_ARRAY:
	case BPF_MAP_TYPE_PERCPU_ARRAY:
		m->elems = xcalloc(m->max_entries, sizeof(uint8_t *));
		for (uint32_t i = 0; i < m->max_entries; i++)
			m->elems[i] = xcalloc(1, m->value_size);
		break;
	case BPF_MAP_TYPE_HASH:
	case BPF_MAP_TYPE_SOCKHASH:
		m->buckets = xcalloc(KS_HASH_BUCKETS, sizeof(struct ks_hnode *));
		break;
	case BPF_MAP_TYPE_LPM_TRIE:
		break;
	case BPF_MAP_TYPE_ARRAY_OF_MAPS:
		m->slots = xcalloc(m->max_entries, sizeof(struct ks_map *));
		break;
	case BPF_MAP_TYPE_SOCKMAP:
		m->socks = xcalloc(m->max_entries, sizeof(struct ks_sock *));
		break;
	case BPF_MAP_TYPE_RINGBUF:
		break;
	default:
		ks_harness_die("map %s: unsupported map type %u (extend cshim/helpers.c)", m->name, m->type);
	}
}

struct ks_map *ks_register_map(const char *name, void *addr, uint32_t type, uint32_t key_size,
			       uint32_t value_size, uint32_t max_entries, uint32_t map_flags)
{
	struct ks_map *m;

	if (nmaps >= KS_MAX_MAPS)
		ks_harness_die("too many maps");
	m = xcalloc(1, sizeof(*m));
	m->magic = KS_MAGIC;
	snprintf(m->name, sizeof(m->name), "%s", name);
	m->addr = addr;
	m->type = type;
	m->key_size = key_size;
	m->value_size = value_size;
	m->max_entries = m->def_max_entries = max_entries;
	m->map_flags = map_flags;
	if (type == BPF_MAP_TYPE_ARRAY || type == BPF_MAP_TYPE_PERCPU_ARRAY ||
	    type == BPF_MAP_TYPE_ARRAY_OF_MAPS || type == BPF_MAP_TYPE_SOCKMAP) {
		if (key_size != 4)
			ks_harness_die("map %s: array-like map with key_size %u", name, key_size);
	}
	map_alloc_storage(m);
	if (addr)
		maps[nmaps++] = m;
	return m;
}

void ks_set_inner_template(const char *outer, const char *tmpl)
{
	struct ks_map *o = ks_map_by_name(outer), *t = ks_map_by_name(tmpl);

	if (!o || !t)
		ks_harness_die("inner template %s/%s not found", outer, tmpl);
	o->inner_template = t;
}

static void lpm_clear(struct ks_map *m, int defer)
{
	for (uint32_t i = 0; i < m->count; i++) {
		if (defer) {
			grave_add(m->lpm[i].key);
			grave_add(m->lpm[i].value);
		} else {
			free(m->lpm[i].key);
			free(m->lpm[i].value);
		}
	}
	m->count = 0;
}

static void inner_free(struct ks_map *in)
{
	if (!in)
		return;
	lpm_clear(in, 0);
	free(in->lpm);
	in->magic = 0;
	free(in);
}

static void map_clear(struct ks_map *m)
{
	switch (m->type) {
	case BPF_MAP_TYPE_ARRAY:
	case BPF_MAP_TYPE_PERCPU_ARRAY:
		for (uint32_t i = 0; i < m->def_max_entries; i++)
			memset(m->elems[i], 0, m->value_size);
		break;
	case BPF_MAP_TYPE_HASH:
	case BPF_MAP_TYPE_SOCKHASH:
		for (int b = 0; b < KS_HASH_BUCKETS; b++) {
			struct ks_hnode *n = m->buckets[b], *nx;

			for (; n; n = nx) {
				nx = n->next;
				free(n->key);
				free(n->value);
				free(n);
			}
			m->buckets[b] = NULL;
		}
		break;
	case BPF_MAP_TYPE_LPM_TRIE:
		lpm_clear(m, 0);
		break;
	case BPF_MAP_TYPE_ARRAY_OF_MAPS:
		for (uint32_t i = 0; i < m->def_max_entries; i++) {
			inner_free(m->slots[i]);
			m->slots[i] = NULL;
		}
		break;
	case BPF_MAP_TYPE_SOCKMAP:
		for (uint32_t i = 0; i < m->def_max_entries; i++)
			m->socks[i] = NULL;
		break;
	default:
		break;
	}
	m->count = 0;
	m->max_entries = m->def_max_entries;
}

static uint32_t hash_bytes(const uint8_t *p, uint32_t n)
{
	uint32_t h = 2166136261u;

	for (uint32_t i = 0; i < n; i++)
		h = (h ^ p[i]) * 16777619u;
	return h % KS_HASH_BUCKETS;
}

static struct ks_hnode **hash_find(struct ks_map *m, const void *key)
{
	struct ks_hnode **pp = &m->buckets[hash_bytes(key, m->key_size)];

	for (; *pp; pp = &(*pp)->next)
		if (!memcmp((*pp)->key, key, m->key_size))
			return pp;
	return NULL;
}

/* number of leading bits (MSB first, memory order) on which a and b agree, capped */
static uint32_t common_bits(const uint8_t *a, const uint8_t *b, uint32_t maxbits)
{
	uint32_t nbytes = (maxbits + 7) / 8, i;

	for (i = 0; i < nbytes; i++) {
		uint8_t x = a[i] ^ b[i];

		if (x) {
			uint32_t n = i * 8 + (uint32_t)__builtin_clz((unsigned)x) - 24;

			return n < maxbits ? n : maxbits;
		}
	}
	return maxbits;
}

static int lpm_find_exact(struct ks_map *m, const uint8_t *key)
{
	uint32_t plen;

	memcpy(&plen, key, 4);
	for (uint32_t i = 0; i < m->count; i++) {
		if (m->lpm[i].prefixlen != plen)
			continue;
		if (common_bits(m->lpm[i].key + 4, key + 4, plen) >= plen)
			return (int)i;
	}
	return -1;
}

static void *lpm_lookup(struct ks_map *m, const uint8_t *key)
{
	uint32_t plen, best = 0;
	int besti = -1;
	uint32_t maxp = (m->key_size - 4) * 8;

	memcpy(&plen, key, 4);
	if (plen > maxp)
		return NULL;
	for (uint32_t i = 0; i < m->count; i++) {
		uint32_t ep = m->lpm[i].prefixlen;

		if (ep > plen)
			continue;
		if (besti >= 0 && ep <= best)
			continue;
		if (common_bits(m->lpm[i].key + 4, key + 4, ep) >= ep) {
			best = ep;
			besti = (int)i;
		}
	}
	return besti >= 0 ? m->lpm[besti].value : NULL;
}

static long lpm_update(struct ks_map *m, const uint8_t *key, const void *value, uint64_t flags)
{
	uint32_t plen;
	int i;

	if (flags > BPF_EXIST)
		return -EINVAL;
	memcpy(&plen, key, 4);
	if (plen > (m->key_size - 4) * 8)
		return -EINVAL;
	i = lpm_find_exact(m, key);
	if (i >= 0) {
		if (flags == BPF_NOEXIST)
			return -EEXIST;
		grave_add(m->lpm[i].key);
		grave_add(m->lpm[i].value);
		m->lpm[i].key = xmemdup(key, m->key_size);
		m->lpm[i].value = xmemdup(value, m->value_size);
		return 0;
	}
	if (flags == BPF_EXIST)
		return -ENOENT;
	if (m->count >= m->max_entries)
		return -ENOSPC;
	if (m->count == m->lpm_cap) {
		m->lpm_cap = m->lpm_cap ? m->lpm_cap * 2 : 16;
		m->lpm = realloc(m->lpm, m->lpm_cap * sizeof(*m->lpm));
		if (!m->lpm)
			ks_harness_die("out of memory");
	}
	m->lpm[m->count].prefixlen = plen;
	m->lpm[m->count].key = xmemdup(key, m->key_size);
	m->lpm[m->count].value = xmemdup(value, m->value_size);
	m->count++;
	return 0;
}

static long lpm_delete(struct ks_map *m, const uint8_t *key)
{
	uint32_t plen;
	int i;

	memcpy(&plen, key, 4);
	if (plen > (m->key_size - 4) * 8)
		return -EINVAL;
	i = lpm_find_exact(m, key);
	if (i < 0)
		return -ENOENT;
	grave_add(m->lpm[i].key);
	grave_add(m->lpm[i].value);
	m->lpm[i] = m->lpm[m->count - 1];
	m->count--;
	return 0;
}

struct ks_sock {
	struct bpf_sock sk; /* must be first: programs see &sk */
	struct ks_sock_desc d;
	int refs;
};

void *ks_map_lookup(struct ks_map *m, const void *key)
{
	uint32_t idx;

	switch (m->type) {
	case BPF_MAP_TYPE_ARRAY:
	case BPF_MAP_TYPE_PERCPU_ARRAY:
		memcpy(&idx, key, 4);
		return idx < m->max_entries ? m->elems[idx] : NULL;
	case BPF_MAP_TYPE_HASH: {
		struct ks_hnode **pp = hash_find(m, key);

		return pp ? (*pp)->value : NULL;
	}
	case BPF_MAP_TYPE_LPM_TRIE:
		return lpm_lookup(m, key);
	case BPF_MAP_TYPE_ARRAY_OF_MAPS:
		memcpy(&idx, key, 4);
		return idx < m->max_entries ? m->slots[idx] : NULL;
	case BPF_MAP_TYPE_SOCKMAP:
		memcpy(&idx, key, 4);
		if (idx >= m->max_entries || !m->socks[idx])
			return NULL;
		m->socks[idx]->refs++;
		return &m->socks[idx]->sk;
	default:
		return NULL; /* SOCKHASH/RINGBUF: not readable from programs here */
	}
}

long ks_map_update(struct ks_map *m, const void *key, const void *value, uint64_t flags)
{
	uint32_t idx;

	switch (m->type) {
	case BPF_MAP_TYPE_ARRAY:
	case BPF_MAP_TYPE_PERCPU_ARRAY:
		if (flags > BPF_EXIST)
			return -EINVAL;
		memcpy(&idx, key, 4);
		if (idx >= m->max_entries)
			return -E2BIG;
		if (flags == BPF_NOEXIST)
			return -EEXIST;
		memcpy(m->elems[idx], value, m->value_size);
		return 0;
	case BPF_MAP_TYPE_HASH: {
		struct ks_hnode **pp, *n;
		uint32_t b;

		if (flags > BPF_EXIST)
			return -EINVAL;
		pp = hash_find(m, key);
		if (pp) {
			if (flags == BPF_NOEXIST)
				return -EEXIST;
			grave_add((*pp)->value);
			(*pp)->value = xmemdup(value, m->value_size);
			return 0;
		}
		if (flags == BPF_EXIST)
			return -ENOENT;
		if (m->count >= m->max_entries)
			return -E2BIG;
		n = xcalloc(1, sizeof(*n));
		n->key = xmemdup(key, m->key_size);
		n->value = xmemdup(value, m->value_size);
		b = hash_bytes(key, m->key_size);
		n->next = m->buckets[b];
		m->buckets[b] = n;
		m->count++;
		return 0;
	}
	case BPF_MAP_TYPE_LPM_TRIE:
		return lpm_update(m, key, value, flags);
	default:
		return -EOPNOTSUPP; /* use LPM_SLOT / SOCKETS for the special maps */
	}
}

long ks_map_delete(struct ks_map *m, const void *key)
{
	switch (m->type) {
	case BPF_MAP_TYPE_ARRAY:
	case BPF_MAP_TYPE_PERCPU_ARRAY:
		return -EINVAL;
	case BPF_MAP_TYPE_HASH: {
		struct ks_hnode **pp = hash_find(m, key), *n;

		if (!pp)
			return -ENOENT;
		n = *pp;
		*pp = n->next;
		grave_add(n->key);
		grave_add(n->value);
		grave_add(n);
		m->count--;
		return 0;
	}
	case BPF_MAP_TYPE_LPM_TRIE:
		return lpm_delete(m, key);
	default:
		return -EOPNOTSUPP;
	}
}

static int cmp_hnode(const void *a, const void *b, void *arg)
{
	const struct ks_hnode *const *x = a, *const *y = b;

	return memcmp((*x)->key, (*y)->key, *(uint32_t *)arg);
}

/* dump: entries as key bytes + value bytes, in a deterministic order
 * (array index order; hash and lpm sorted by key bytes) */
void ks_map_dump(struct ks_map *m, struct ks_buf *out, uint32_t *n)
{
	*n = 0;
	switch (m->type) {
	case BPF_MAP_TYPE_ARRAY:
	case BPF_MAP_TYPE_PERCPU_ARRAY:
		for (uint32_t i = 0; i < m->max_entries; i++) {
			ks_buf_u32(out, i);
			ks_buf_put(out, m->elems[i], m->value_size);
			(*n)++;
		}
		break;
	case BPF_MAP_TYPE_HASH: {
		struct ks_hnode **v = xcalloc(m->count, sizeof(*v));
		uint32_t k = 0;

		for (int b = 0; b < KS_HASH_BUCKETS; b++)
			for (struct ks_hnode *h = m->buckets[b]; h; h = h->next)
				v[k++] = h;
		qsort_r(v, k, sizeof(*v), cmp_hnode, &m->key_size);
		for (uint32_t i = 0; i < k; i++) {
			ks_buf_put(out, v[i]->key, m->key_size);
			ks_buf_put(out, v[i]->value, m->value_size);
		}
		*n = k;
		free(v);
		break;
	}
	case BPF_MAP_TYPE_LPM_TRIE:
		for (uint32_t i = 0; i < m->count; i++) {
			ks_buf_put(out, m->lpm[i].key, m->key_size);
			ks_buf_put(out, m->lpm[i].value, m->value_size);
			(*n)++;
		}
		break;
	default:
		break;
	}
}

long ks_lpm_slot_remove(uint32_t slot)
{
	struct ks_map *outer = NULL;

	for (int i = 0; i < nmaps; i++)
		if (maps[i]->type == BPF_MAP_TYPE_ARRAY_OF_MAPS)
			outer = maps[i];
	if (!outer)
		ks_harness_die("no ARRAY_OF_MAPS map registered");
	if (slot >= outer->max_entries)
		return -E2BIG;
	if (!outer->slots[slot])
		return -ENOENT;
	inner_free(outer->slots[slot]);
	outer->slots[slot] = NULL;
	return 0;
}

long ks_lpm_slot_install(uint32_t slot, const uint8_t *keys, const uint8_t *values, uint32_t n)
{
	struct ks_map *outer = NULL, *t, *in;
	long ret;

	for (int i = 0; i < nmaps; i++)
		if (maps[i]->type == BPF_MAP_TYPE_ARRAY_OF_MAPS)
			outer = maps[i];
	if (!outer || !outer->inner_template)
		ks_harness_die("no ARRAY_OF_MAPS map with an inner template registered");
	if (slot >= outer->max_entries)
		return -E2BIG;
	t = outer->inner_template;
	in = ks_register_map("", NULL, t->type, t->key_size, t->value_size, t->max_entries, t->map_flags);
	snprintf(in->name, sizeof(in->name), "lpm#%u", slot);
	for (uint32_t i = 0; i < n; i++) {
		ret = lpm_update(in, keys + (size_t)i * t->key_size, values + (size_t)i * t->value_size, BPF_ANY);
		if (ret) {
			inner_free(in);
			return ret;
		}
	}
	inner_free(outer->slots[slot]);
	outer->slots[slot] = in;
	return 0;
}

static struct ks_map *resolve_fast(void *map)
{
	struct ks_map *m = map;

	if (!map)
		ks_harness_die("helper called with a NULL map pointer");
	for (int i = 0; i < nmaps; i++)
		if (maps[i]->addr == map)
			return maps[i];
	/* inner map handed out by an ARRAY_OF_MAPS lookup (carries a magic) */
	if (m->magic == KS_MAGIC && !m->addr)
		return m;
	ks_harness_die("helper called with an unknown map pointer %p (map not registered?)", map);
}

void *bpf_map_lookup_elem(void *map, const void *key)
{
	struct ks_map *m = resolve_fast(map);
	void *v = ks_map_lookup(m, key);

	oplog('L', m, key, v ? 1 : 0);
	return v;
}

long bpf_map_update_elem(void *map, const void *key, const void *value, __u64 flags)
{
	struct ks_map *m = resolve_fast(map);
	long r = ks_map_update(m, key, value, flags);

	oplog('U', m, key, (int32_t)r);
	return r;
}

long bpf_map_delete_elem(void *map, const void *key)
{
	struct ks_map *m = resolve_fast(map);
	long r = ks_map_delete(m, key);

	oplog('D', m, key, (int32_t)r);
	return r;
}

long bpf_ringbuf_output(void *ringbuf, void *data, __u64 size, __u64 flags)
{
	struct ks_map *m = resolve_fast(ringbuf);

	if (m->type != BPF_MAP_TYPE_RINGBUF)
		return -EINVAL;
	if (flags & ~(__u64)(BPF_RB_NO_WAKEUP | BPF_RB_FORCE_WAKEUP))
		return -EINVAL;
	if (size > m->max_entries)
		return -E2BIG;
	ks_buf_u32(&ks_events, (uint32_t)size);
	ks_buf_put(&ks_events, data, size);
	ks_events_n++;
	return 0;
}

/* ------------------------------------------------------------ time, loop */
uint64_t ks_clock_ns;

__u64 bpf_ktime_get_ns(void)
{
	return ks_clock_ns;
}

long bpf_loop(__u32 nr_loops, void *callback_fn, void *callback_ctx, __u64 flags)
{
	int (*cb)(__u32, void *) = (int (*)(__u32, void *))callback_fn;
	__u32 i;

	if (flags)
		return -EINVAL;
	if (nr_loops > (1u << 23))
		return -E2BIG;
	for (i = 0; i < nr_loops; i++) {
		long r = cb(i, callback_ctx);

		if (r)
			return i + 1;
	}
	return i;
}

/* ------------------------------------------------------------------ task */
uint64_t ks_cur_cookie, ks_cur_pid_tgid;
char ks_cur_comm[16];
char ks_cur_args[128];

struct ks_mm {
	unsigned long arg_start;
};
struct ks_task {
	struct ks_mm *mm;
};
static struct ks_mm cur_mm;
static struct ks_task cur_task = { &cur_mm };

__u64 bpf_get_socket_cookie(void *ctx)
{
	(void)ctx;
	return ks_cur_cookie;
}

__u64 bpf_get_current_pid_tgid(void)
{
	return ks_cur_pid_tgid;
}

long bpf_get_current_comm(void *buf, __u32 size)
{
	/* kernel: strscpy_pad(buf, task->comm, size) */
	uint32_t n = size < sizeof(ks_cur_comm) ? size : sizeof(ks_cur_comm);

	memset(buf, 0, size);
	for (uint32_t i = 0; i + 1 < n && ks_cur_comm[i]; i++)
		((char *)buf)[i] = ks_cur_comm[i];
	return 0;
}

__u64 bpf_get_current_task(void)
{
	cur_mm.arg_start = (unsigned long)ks_cur_args;
	return (__u64)(unsigned long)&cur_task;
}

long bpf_probe_read_user_str(void *dst, __u32 size, const void *unsafe_ptr)
{
	const char *s = unsafe_ptr;
	__u32 i;

	if (!size)
		return 0;
	if (s != ks_cur_args) {
		memset(dst, 0, size);
		return -EFAULT;
	}
	for (i = 0; i + 1 < size && i < sizeof(ks_cur_args) - 1 && s[i]; i++)
		((char *)dst)[i] = s[i];
	((char *)dst)[i] = 0;
	return i + 1;
}

/* --------------------------------------------------------------- sockets */
#define KS_MAX_SOCKS 64
static struct ks_sock *socks[KS_MAX_SOCKS];
static int nsocks;

void ks_sockets_clear(void)
{
	for (int i = 0; i < nmaps; i++)
		if (maps[i]->type == BPF_MAP_TYPE_SOCKMAP)
			for (uint32_t s = 0; s < maps[i]->def_max_entries; s++)
				maps[i]->socks[s] = NULL;
	for (int i = 0; i < nsocks; i++)
		free(socks[i]);
	nsocks = 0;
}

long ks_socket_add(const struct ks_sock_desc *d)
{
	struct ks_sock *s;

	if (nsocks >= KS_MAX_SOCKS)
		return -E2BIG;
	s = xcalloc(1, sizeof(*s));
	s->d = *d;
	s->sk.family = d->family == 4 ? 2 /* AF_INET */ : 10 /* AF_INET6 */;
	s->sk.type = d->proto == 6 ? 1 /* SOCK_STREAM */ : 2 /* SOCK_DGRAM */;
	s->sk.protocol = d->proto;
	s->sk.mark = d->mark;
	s->sk.state = d->state;
	s->sk.src_port = d->local_port;
	s->sk.dst_port = __builtin_bswap16(d->remote_port);
	if (d->family == 4) {
		memcpy(&s->sk.src_ip4, d->local_ip + 12, 4);
		memcpy(&s->sk.dst_ip4, d->remote_ip + 12, 4);
	} else {
		memcpy(s->sk.src_ip6, d->local_ip, 16);
		memcpy(s->sk.dst_ip6, d->remote_ip, 16);
	}
	socks[nsocks++] = s;
	if (d->listen_slot >= 0) {
		struct ks_map *lm = NULL;

		for (int i = 0; i < nmaps; i++)
			if (maps[i]->type == BPF_MAP_TYPE_SOCKMAP)
				lm = maps[i];
		if (!lm || (uint32_t)d->listen_slot >= lm->max_entries)
			return -E2BIG;
		lm->socks[d->listen_slot] = s;
	}
	return 0;
}

int ks_sock_refs_outstanding(void)
{
	int n = 0;

	for (int i = 0; i < nsocks; i++)
		n += socks[i]->refs;
	return n;
}

static void sock_refs_reset(void)
{
	for (int i = 0; i < nsocks; i++)
		socks[i]->refs = 0;
}

static int is_zero16(const uint8_t *p)
{
	for (int i = 0; i < 16; i++)
		if (p[i])
			return 0;
	return 1;
}

/* tuple -> (family, 16-byte addresses, host-order ports) */
static int tuple_decode(const struct bpf_sock_tuple *t, __u32 size, uint8_t *fam, uint8_t sa[16],
			uint8_t da[16], uint16_t *sp, uint16_t *dp)
{
	memset(sa, 0, 16);
	memset(da, 0, 16);
	if (size == sizeof(t->ipv4)) {
		*fam = 4;
		memcpy(sa + 12, &t->ipv4.saddr, 4);
		memcpy(da + 12, &t->ipv4.daddr, 4);
		*sp = __builtin_bswap16(t->ipv4.sport);
		*dp = __builtin_bswap16(t->ipv4.dport);
		return 0;
	}
	if (size == sizeof(t->ipv6)) {
		*fam = 6;
		memcpy(sa, t->ipv6.saddr, 16);
		memcpy(da, t->ipv6.daddr, 16);
		*sp = __builtin_bswap16(t->ipv6.sport);
		*dp = __builtin_bswap16(t->ipv6.dport);
		return 0;
	}
	return -1;
}

/* score as in the kernel's compute_score(): -1 = no match */
static int sock_score(const struct ks_sock *s, uint8_t proto, uint8_t fam, const uint8_t sa[16],
		      const uint8_t da[16], uint16_t sp, uint16_t dp)
{
	int score = 1;
	const uint8_t *la = s->d.local_ip, *ra = s->d.remote_ip;

	if (s->d.proto != proto || s->d.family != fam || s->d.local_port != dp)
		return -1;
	if (fam == 4) {
		la += 12;
		ra += 12;
		sa += 12;
		da += 12;
	}
	if (!is_zero16(s->d.local_ip)) {
		if (memcmp(la, da, fam == 4 ? 4 : 16))
			return -1;
		score += 4;
	}
	if (s->d.remote_port) {
		if (s->d.remote_port != sp || memcmp(ra, sa, fam == 4 ? 4 : 16))
			return -1;
		score += 8;
	}
	return score;
}

static struct bpf_sock *sock_lookup(uint8_t proto, struct bpf_sock_tuple *tuple, __u32 size, __u64 flags)
{
	uint8_t fam, sa[16], da[16];
	uint16_t sp, dp;
	int best = -1, bi = -1;

	if (flags || !tuple || tuple_decode(tuple, size, &fam, sa, da, &sp, &dp))
		return NULL;
	for (int i = 0; i < nsocks; i++) {
		int sc;

		/* TCP: an unconnected socket only answers lookups while listening */
		if (proto == 6 && !socks[i]->d.remote_port && socks[i]->d.state != BPF_TCP_LISTEN)
			continue;
		sc = sock_score(socks[i], proto, fam, sa, da, sp, dp);
		if (sc > best) {
			best = sc;
			bi = i;
		}
	}
	if (bi < 0)
		return NULL;
	socks[bi]->refs++;
	return &socks[bi]->sk;
}

struct bpf_sock *bpf_skc_lookup_tcp(void *ctx, struct bpf_sock_tuple *tuple, __u32 size, __u64 netns, __u64 flags)
{
	(void)ctx;
	(void)netns;
	return sock_lookup(6, tuple, size, flags);
}

struct bpf_sock *bpf_sk_lookup_udp(void *ctx, struct bpf_sock_tuple *tuple, __u32 size, __u64 netns, __u64 flags)
{
	(void)ctx;
	(void)netns;
	return sock_lookup(17, tuple, size, flags);
}

struct bpf_sock *bpf_sk_fullsock(struct bpf_sock *sk)
{
	if (!sk)
		return NULL;
	if (sk->state == BPF_TCP_TIME_WAIT || sk->state == BPF_TCP_NEW_SYN_RECV)
		return NULL;
	return sk;
}

long bpf_sk_release(void *sock)
{
	struct ks_sock *s = sock;

	for (int i = 0; i < nsocks; i++)
		if (socks[i] == s) {
			s->refs--;
			return 0;
		}
	ks_harness_die("bpf_sk_release of an unknown socket pointer");
}

/* ------------------------------------------------------------------- skb */
#define ARENA_DATA (KS_MAX_FRAME + 4096)
static uint8_t *arena;      /* start of the data area (guard page before and after) */
static uint8_t *arena_end;  /* end of the data area == start of the trailing guard */
static struct {
	struct __sk_buff ctx;
	uint8_t full[KS_MAX_FRAME + 256];
	uint32_t len;
	uint32_t linear;
	int pull_fails;
} cur;
struct ks_skb_result ks_skb_res;

static void arena_init(void)
{
	long pg = sysconf(_SC_PAGESIZE);
	size_t total = ARENA_DATA + 2 * (size_t)pg;
	uint8_t *p;

	if (arena)
		return;
	p = mmap(NULL, total, PROT_READ | PROT_WRITE, MAP_PRIVATE | MAP_ANONYMOUS | MAP_32BIT, -1, 0);
	if (p == MAP_FAILED)
		ks_harness_die("mmap(MAP_32BIT) for the packet arena failed: %s", strerror(errno));
	if ((uintptr_t)(p + total) > 0xffffffffUL)
		ks_harness_die("packet arena not below 4 GiB");
	if (mprotect(p, pg, PROT_NONE) || mprotect(p + pg + ARENA_DATA, pg, PROT_NONE))
		ks_harness_die("mprotect(guard) failed");
	arena = p + pg;
	arena_end = arena + ARENA_DATA;
}

/* linear part is placed so that data_end is the first byte of the guard page:
 * an unchecked direct access past data_end faults. */
static void skb_layout(void)
{
	uint8_t *d = arena_end - cur.linear;

	memcpy(d, cur.full, cur.linear);
	cur.ctx.data = (__u32)(uintptr_t)d;
	cur.ctx.data_end = (__u32)(uintptr_t)arena_end;
	cur.ctx.len = cur.len;
}

static void skb_sync_from_arena(void)
{
	memcpy(cur.full, arena_end - cur.linear, cur.linear);
}

void *ks_skb_begin(const uint8_t *frame, uint32_t len, uint32_t linear_len, int pull_fails)
{
	arena_init();
	if (len > KS_MAX_FRAME)
		ks_harness_die("frame too long");
	memset(&cur.ctx, 0, sizeof(cur.ctx));
	if (len)
		memcpy(cur.full, frame, len);
	cur.len = len;
	cur.linear = linear_len > len ? len : linear_len;
	cur.pull_fails = pull_fails;
	memset(&ks_skb_res, 0, sizeof(ks_skb_res));
	ks_skb_res.assigned_sock = -1;
	sock_refs_reset();
	skb_layout();
	return &cur.ctx;
}

const uint8_t *ks_skb_end(uint32_t *len)
{
	skb_sync_from_arena();
	ks_skb_res.linear_len = cur.linear;
	*len = cur.len;
	return cur.full;
}

static void must_be_cur(const void *skb)
{
	if (skb != &cur.ctx)
		ks_harness_die("skb helper called with a foreign ctx pointer");
}

/* kernel: bpf_try_make_writable(skb, len ?: headlen) -> pskb_may_pull():
 * ok if len <= headlen; fails if len > skb->len (yes: pulling 128 bytes of a
 * 74-byte frame FAILS); otherwise pulls (which the harness can make fail). */
static long skb_make_linear(uint32_t len, int honour_injected_failure)
{
	if (len <= cur.linear)
		return 0;
	if (len > cur.len)
		return -ENOMEM;
	if (cur.pull_fails && honour_injected_failure)
		return -ENOMEM;
	skb_sync_from_arena();
	cur.linear = len;
	skb_layout();
	return 0;
}

long bpf_skb_pull_data(struct __sk_buff *skb, __u32 len)
{
	long r;

	must_be_cur(skb);
	ks_skb_res.pull_calls++;
	r = skb_make_linear(len ? len : cur.linear, 1);
	if (r)
		ks_skb_res.pull_failed++;
	return r;
}

long bpf_skb_load_bytes(const void *skb, __u32 offset, void *to, __u32 len)
{
	must_be_cur(skb);
	ks_skb_res.load_bytes_calls++;
	if (offset > 0x7fffffffU || (uint64_t)offset + len > cur.len) {
		memset(to, 0, len);
		return -EFAULT;
	}
	skb_sync_from_arena();
	memcpy(to, cur.full + offset, len);
	return 0;
}

long bpf_skb_store_bytes(struct __sk_buff *skb, __u32 offset, const void *from, __u32 len, __u64 flags)
{
	must_be_cur(skb);
	ks_skb_res.store_bytes_calls++;
	if (flags & ~(__u64)(BPF_F_RECOMPUTE_CSUM | BPF_F_INVALIDATE_HASH))
		return -EINVAL;
	if (offset > 0x7fffffffU)
		return -EFAULT;
	if ((uint64_t)offset + len > cur.len)
		return -EFAULT;
	/* kernel makes [0, offset+len) writable == linear. The harness' pull-failure
	 * injection applies to bpf_skb_pull_data only (it selects the parsing path);
	 * stores still succeed, so fast/slow runs stay comparable. */
	if (skb_make_linear(offset + len, 0))
		return -EFAULT;
	skb_sync_from_arena();
	memcpy(cur.full + offset, from, len);
	skb_layout();
	return 0;
}

long bpf_skb_change_head(struct __sk_buff *skb, __u32 head_room, __u64 flags)
{
	must_be_cur(skb);
	if (flags || (uint64_t)cur.len + head_room > KS_MAX_FRAME)
		return -EINVAL;
	skb_sync_from_arena();
	memmove(cur.full + head_room, cur.full, cur.len);
	memset(cur.full, 0, head_room);
	cur.len += head_room;
	cur.linear += head_room;
	skb_layout();
	return 0;
}

long bpf_skb_change_type(struct __sk_buff *skb, __u32 type)
{
	must_be_cur(skb);
	/* PACKET_HOST 0, BROADCAST 1, MULTICAST 2, OTHERHOST 3 */
	if (skb->pkt_type > 3 || type > 3)
		return -EINVAL;
	skb->pkt_type = type;
	return 0;
}

long bpf_redirect(__u32 ifindex, __u64 flags)
{
	if (flags & ~(__u64)BPF_F_INGRESS)
		return TC_ACT_SHOT;
	ks_skb_res.redirect_kind = 1;
	ks_skb_res.redirect_ifindex = ifindex;
	ks_skb_res.redirect_flags = flags;
	return TC_ACT_REDIRECT;
}

long bpf_redirect_peer(__u32 ifindex, __u64 flags)
{
	if (flags)
		return TC_ACT_SHOT;
	ks_skb_res.redirect_kind = 2;
	ks_skb_res.redirect_ifindex = ifindex;
	ks_skb_res.redirect_flags = flags;
	return TC_ACT_REDIRECT;
}

long bpf_sk_assign(void *ctx, void *sk, __u64 flags)
{
	struct ks_sock *s = sk;

	must_be_cur(ctx);
	if (flags)
		return -EINVAL;
	for (int i = 0; i < nsocks; i++)
		if (socks[i] == s) {
			ks_skb_res.assigned_sock = (int32_t)s->d.id;
			return 0;
		}
	ks_harness_die("bpf_sk_assign of an unknown socket pointer");
}

/* ----------------------------------------------------------------- reset */
void ks_reset_all(void)
{
	ks_graveyard_flush();
	ks_sockets_clear();
	for (int i = 0; i < nmaps; i++)
		map_clear(maps[i]);
	ks_clock_ns = 0;
	ks_cur_cookie = 0;
	ks_cur_pid_tgid = 0;
	memset(ks_cur_comm, 0, sizeof(ks_cur_comm));
	memset(ks_cur_args, 0, sizeof(ks_cur_args));
	ks_log_reset();
}

/* kernsim: shared declarations between helpers.c (userspace model of the BPF
 * helper API) and main.c (protocol + glue that #includes the working-tree
 * tproxy.c). Wire format: top of main.c. */
#ifndef KERNSIM_H
#define KERNSIM_H

#include <stdint.h>
#include <stddef.h>

#define KS_MAGIC 0x4b53494dU /* "KSIM" */
#define KS_NAME_MAX 48
#define KS_MAX_MAPS 64
#define KS_HASH_BUCKETS 1024
#define KS_MAX_FRAME 65536
#define KS_EXIT_HARNESS 70 /* exit status for harness (not tested-code) problems */

struct ks_hnode {
	struct ks_hnode *next;
	uint8_t *key;
	uint8_t *value;
};

struct ks_lpm_ent {
	uint32_t prefixlen;
	uint8_t *key;   /* full key as given (key_size bytes, prefixlen first) */
	uint8_t *value;
};

struct ks_sock;

struct ks_map {
	uint32_t magic;
	char name[KS_NAME_MAX];
	void *addr; /* address of the map variable in tproxy.c; NULL for inner maps */
	uint32_t type, key_size, value_size, max_entries, def_max_entries, map_flags;
	uint32_t count;
	/* ARRAY / PERCPU_ARRAY */
	uint8_t **elems;
	/* HASH / SOCKHASH */
	struct ks_hnode **buckets;
	/* LPM_TRIE */
	struct ks_lpm_ent *lpm;
	uint32_t lpm_cap;
	/* ARRAY_OF_MAPS */
	struct ks_map **slots;
	struct ks_map *inner_template;
	/* SOCKMAP */
	struct ks_sock **socks;
};

struct ks_buf {
	uint8_t *p;
	size_t len, cap;
};

/* --- registry (helpers.c) --- */
struct ks_map *ks_register_map(const char *name, void *addr, uint32_t type, uint32_t key_size,
			       uint32_t value_size, uint32_t max_entries, uint32_t map_flags);
void ks_set_inner_template(const char *outer, const char *tmpl);
struct ks_map *ks_map_by_name(const char *name);
int ks_map_count(void);
struct ks_map *ks_map_at(int i);
void ks_reset_all(void);

/* typed operations used by the protocol (return kernel-style errno values) */
long ks_map_update(struct ks_map *m, const void *key, const void *value, uint64_t flags);
long ks_map_delete(struct ks_map *m, const void *key);
void *ks_map_lookup(struct ks_map *m, const void *key);
void ks_map_dump(struct ks_map *m, struct ks_buf *out, uint32_t *n);
long ks_lpm_slot_install(uint32_t slot, const uint8_t *keys, const uint8_t *values, uint32_t n);
long ks_lpm_slot_remove(uint32_t slot);

/* --- op log --- */
extern int ks_log_enabled;
extern struct ks_buf ks_oplog;
extern uint32_t ks_oplog_n;
extern struct ks_buf ks_events;
extern uint32_t ks_events_n;
void ks_log_reset(void);

/* --- buffers --- */
void ks_buf_put(struct ks_buf *b, const void *p, size_t n);
void ks_buf_u8(struct ks_buf *b, uint8_t v);
void ks_buf_u16(struct ks_buf *b, uint16_t v);
void ks_buf_u32(struct ks_buf *b, uint32_t v);
void ks_buf_u64(struct ks_buf *b, uint64_t v);
void ks_buf_reset(struct ks_buf *b);

/* --- clock, task --- */
extern uint64_t ks_clock_ns;
extern uint64_t ks_cur_cookie, ks_cur_pid_tgid;
extern char ks_cur_comm[16];
extern char ks_cur_args[128];

/* --- sockets --- */
struct ks_sock_desc {
	uint32_t id;
	uint8_t proto;  /* 6 / 17 */
	uint8_t family; /* 4 / 6 */
	uint8_t state;  /* BPF_TCP_* */
	int8_t listen_slot; /* -1, or index into listen_socket_map */
	uint8_t local_ip[16]; /* v4: last 4 bytes; all-zero = any */
	uint16_t local_port;  /* host order */
	uint8_t remote_ip[16];
	uint16_t remote_port; /* host order, 0 = not connected */
	uint32_t mark;
};
void ks_sockets_clear(void);
long ks_socket_add(const struct ks_sock_desc *d);
int ks_sock_refs_outstanding(void);

/* --- skb --- */
struct ks_skb_result {
	uint8_t redirect_kind; /* 0 none, 1 bpf_redirect, 2 bpf_redirect_peer */
	uint32_t redirect_ifindex;
	uint64_t redirect_flags;
	int32_t assigned_sock; /* id or -1 */
	uint32_t linear_len;
	uint32_t pull_calls, pull_failed, load_bytes_calls, store_bytes_calls;
};
extern struct ks_skb_result ks_skb_res;
/* prepares the one current skb; returns the ctx pointer (struct __sk_buff *) */
void *ks_skb_begin(const uint8_t *frame, uint32_t len, uint32_t linear_len, int pull_fails);
/* syncs direct writes back; returns frame bytes */
const uint8_t *ks_skb_end(uint32_t *len);
void ks_graveyard_flush(void);

void ks_harness_die(const char *fmt, ...) __attribute__((noreturn, format(printf, 1, 2)));

#endif

#!/bin/sh
# Warm the Go build cache for every harness (and build kernsim). Offline; rebuilds from /repo.
cd "$(dirname "$0")" || exit 2
rc=0
for f in props/C*.json; do
  id=$(basename "$f" .json)
  ./check "$id" --build-only || rc=$?
done
exit 0
